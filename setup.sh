#!/bin/sh
# builds the Coq development (full .vo build) and the extracted model driver; offline.
set -e
cd "$(dirname "$0")"
python3 tools/genbuild.py >/dev/null
(cd coq && coq_makefile -f _CoqProject -o Makefile >/dev/null && timeout 3000 make -j16)
(cd ocaml && timeout 600 make)
