# common.py — shared machinery of ./check: build, proof gate, model driver, triage, evidence.
import json, os, re, subprocess, sys, time, random, hashlib, shutil, tempfile

VERIF = os.path.dirname(os.path.dirname(os.path.abspath(__file__)))
REPO = os.environ.get('VERIF_REPO', '/repo')
COQ = os.path.join(VERIF, 'coq')
OCAML = os.path.join(VERIF, 'ocaml')
MODEL_BIN = os.path.join(OCAML, 'pffmodel')
EVID = os.path.join(VERIF, 'evidence')
REPLAYS = os.path.join(VERIF, 'replays')
FINDINGS = os.path.join(VERIF, 'known_findings.json')

FORBIDDEN = re.compile(r'\b(Admitted|admit|Axiom|Axioms|Parameter|Parameters|Conjecture|Conjectures|Admit Obligations|bypass_check|native_compute)\b|Unset Guard Checking|Unset Positivity Checking|Unset Universe Checking|type-in-type|impredicative-set')

TRUSTED_BASE_COMMON = [
    'Coq 8.16.1 kernel and its VM (vm_compute used for finite reflection and examples); no native_compute',
    'axioms: none declared by the development; Print Assumptions output of every property theorem is recorded in coverage.assumptions_printed',
    'extraction: Extraction Language OCaml + ExtrOcamlBasic only (Extract Inductive bool, option, unit, list, prod, sumbool, comparison); N/Z/positive/nat/byte stay extracted inductives; no Extract Constant',
    'ocaml/prelude.ml + handlers/*.ml + main.ml (hex/decimal parsing and printing, request dispatch) and OCaml 4.13.1 compiler',
    'the correspondence harness under harness/ (generators, canonicalisers, monkeypatch recorders) and CPython 3.12 running /repo',
    'hand-written Gallina models: tied to /repo only by the correspondence check of this run',
]


def sh(cmd, timeout=1800, cwd=None, env=None):
    try:
        r = subprocess.run(cmd, shell=isinstance(cmd, str), cwd=cwd, env=env, timeout=timeout,
                           stdout=subprocess.PIPE, stderr=subprocess.STDOUT, text=True)
        return r.returncode, r.stdout
    except subprocess.TimeoutExpired as e:
        return 124, (e.stdout or '') + '\nTIMEOUT'


def ensure_makefile():
    """Regenerate _CoqProject / Extract.v / driver.ml from the per-module fragments; returns the Drv targets."""
    rc, out = sh([sys.executable, os.path.join(VERIF, 'tools', 'genbuild.py')])
    if rc != 0:
        raise RuntimeError('genbuild failed: ' + out)
    mk = os.path.join(COQ, 'Makefile')
    cp = os.path.join(COQ, '_CoqProject')
    if not os.path.exists(mk) or os.path.getmtime(mk) < os.path.getmtime(cp):
        sh('coq_makefile -f _CoqProject -o Makefile', cwd=COQ)
    return out.split()


def build(targets, jobs=16):
    """Build the given coq targets (relative .vo paths) plus the extracted driver binary."""
    drv = ensure_makefile()
    rc, out = sh('timeout 2400 make -j%d %s' % (jobs, ' '.join(targets + drv)), cwd=COQ, timeout=2500)
    if rc != 0:
        return False, out
    rc, out2 = sh('timeout 600 make', cwd=OCAML)
    return rc == 0 and os.path.exists(MODEL_BIN), out + out2


def proof_gate(prop, allowed_axioms=()):
    """Compile Props/<prop>.v afresh, pair every Theorem with its Print Assumptions block."""
    res = {'obligations': 0, 'discharged': 0, 'theorems': [], 'assumptions_printed': {}, 'problems': []}
    src_path = os.path.join(COQ, 'Props', prop + '.v')
    src = open(src_path).read()
    thms = re.findall(r'^\s*(?:Theorem)\s+([A-Za-z0-9_\']+)', src, re.M)
    res['theorems'] = thms
    res['obligations'] = len(thms)
    ok, out = build(['Props/%s.vo' % prop])
    if not ok:
        res['problems'].append('build failed: ' + out[-1500:])
        return res
    # forbidden tokens anywhere in the development (comments stripped)
    for root, _, files in os.walk(COQ):
        for f in files:
            if f.endswith('.v'):
                txt = re.sub(r'\(\*.*?\*\)', '', open(os.path.join(root, f)).read(), flags=re.S)
                m = FORBIDDEN.search(txt)
                if m:
                    res['problems'].append('forbidden token %r in %s' % (m.group(0), os.path.join(root, f)))
    printed = re.findall(r'^\s*Print Assumptions\s+([A-Za-z0-9_\']+)\s*\.', src, re.M)
    if printed != thms:
        res['problems'].append('Print Assumptions list %r does not match theorem list %r' % (printed, thms))
    tmpd = tempfile.mkdtemp(prefix='pffgate')
    try:
        rc, out = sh(['timeout', '600', 'coqc', '-Q', COQ, 'PFF', '-o', os.path.join(tmpd, prop + '.vo'), src_path], cwd=tmpd)
    finally:
        shutil.rmtree(tmpd, ignore_errors=True)
    if rc != 0:
        res['problems'].append('coqc Props/%s.v failed: %s' % (prop, out[-1500:]))
        return res
    # split output into blocks, one per Print Assumptions
    blocks = re.split(r'(?m)^(?=Closed under the global context|Axioms:)', out)
    blocks = [b.strip() for b in blocks if b.strip().startswith(('Closed under', 'Axioms:'))]
    if len(blocks) != len(thms):
        res['problems'].append('%d Print Assumptions blocks for %d theorems' % (len(blocks), len(thms)))
    for name, blk in zip(thms, blocks):
        if blk.startswith('Closed under'):
            res['assumptions_printed'][name] = 'Closed under the global context'
            res['discharged'] += 1
        else:
            axs = re.findall(r'^([A-Za-z0-9_\.\']+)\s*:', blk, re.M)
            res['assumptions_printed'][name] = axs
            bad = [a for a in axs if a not in allowed_axioms]
            if bad:
                res['problems'].append('theorem %s depends on non-allowed axioms %r' % (name, bad))
            else:
                res['discharged'] += 1
    return res


class Model:
    """Batch interface to the extracted model binary."""
    def __init__(self):
        self.calls = 0

    def run(self, lines, timeout=1800):
        if not lines:
            return []
        self.calls += len(lines)
        p = subprocess.run([MODEL_BIN], input='\n'.join(lines) + '\n', stdout=subprocess.PIPE,
                           stderr=subprocess.PIPE, text=True, timeout=timeout)
        out = p.stdout.split('\n')
        if out and out[-1] == '':
            out.pop()
        if len(out) != len(lines):
            raise RuntimeError('model returned %d lines for %d requests (rc=%s, stderr=%s)' %
                               (len(out), len(lines), p.returncode, p.stderr[-500:]))
        return out


_VCOUNT = [0]


def every_fourth(d=None, key='verbose'):
    """-v on a deterministic quarter of the tool runs (verbosity must not change anything the predicates or the models observe).
    The decision is stored in the case dict `d` when one is given, so a replay repeats it."""
    if d is not None and key in d:
        return bool(d[key])
    _VCOUNT[0] += 1
    v = _VCOUNT[0] % 4 == 0
    if d is not None:
        d[key] = v
    return v


def hx(b):
    return b.hex() if b else '-'


def unhx(s):
    return b'' if s == '-' else bytes.fromhex(s)


def hxl(l):
    return ','.join(hx(x) for x in l) if l else '.'


class Ctx:
    """Per-run bookkeeping: counts, samples, failures, evidence."""
    def __init__(self, prop, tier, seed):
        self.prop, self.tier, self.seed = prop, tier, seed
        self.rng = random.Random(seed)
        self.t0 = time.time()
        self.evaluations = 0
        self.nontrivial = set()
        self.samples = []
        self.hist = {}
        self.disagreements = []     # correspondence failures: dicts
        self.prop_failures = []     # property predicate failures on the implementation: dicts
        self.known_hits = {}
        self.extra = {}
        self.model = Model()
        self.traces = 0

    def count(self, key, n=1):
        self.hist[key] = self.hist.get(key, 0) + n

    def sample(self, s, cap=6):
        if len(self.samples) < cap:
            self.samples.append(s)

    def nontriv(self, key):
        self.nontrivial.add(key if isinstance(key, (str, int, tuple)) else repr(key))

    def disagree(self, case, model, impl, what='model != implementation'):
        if len(self.disagreements) < 200:
            self.disagreements.append({'case': case, 'model': model, 'impl': impl, 'what': what})
        else:
            self.count('disagreements_dropped')

    def fail(self, case, detail):
        if len(self.prop_failures) < 200:
            self.prop_failures.append({'case': case, 'detail': detail})
        else:
            self.count('failures_dropped')


def load_findings(prop):
    if not os.path.exists(FINDINGS):
        return []
    return [f for f in json.load(open(FINDINGS)) if f.get('property') == prop]


def run_fixed_replays(ctx, mod):
    """Replays of repaired defects join the corpus: a regression is reported like any violation."""
    for f in load_findings(ctx.prop):
        if f.get('status') == 'fixed' and f.get('replay') and hasattr(mod, 'replay_case'):
            case = json.load(open(os.path.join(VERIF, f['replay'])))['case']
            try:
                r = mod.replay_case(ctx, case)
            except Exception as e:
                r = {'holds': False, 'error': repr(e)}
            ctx.evaluations += 1
            ctx.count('fixed_finding_replays')
            if not r['holds']:
                ctx.fail(case, {'regression_of': f['id'], 'detail': r})


def write_evidence(ctx, gate, rule, violations, extra_tb=(), assumptions=()):
    os.makedirs(EVID, exist_ok=True)
    cov = {
        'obligations': gate['obligations'],
        'discharged': gate['discharged'],
        'checker_cmd': 'make -C coq Props/%s.vo && coqc -Q coq PFF coq/Props/%s.v  (Print Assumptions under every theorem)' % (ctx.prop, ctx.prop),
        'trusted_base': TRUSTED_BASE_COMMON + list(extra_tb),
        'theorems': gate['theorems'],
        'assumptions_printed': gate['assumptions_printed'],
        'proof_gate_problems': gate['problems'],
        'evaluations': ctx.evaluations,
        'distinct_nontrivial': len(ctx.nontrivial),
        'rule': rule,
        'samples': ctx.samples,
        'traces_validated_against_impl': ctx.traces,
        'model_calls': ctx.model.calls,
        'correspondence_disagreements': len(ctx.disagreements),
        'property_failures_on_impl': len(ctx.prop_failures),
        'known_finding_hits': ctx.known_hits,
        'histogram': ctx.hist,
    }
    cov.update(ctx.extra)
    ev = {
        'property_id': ctx.prop, 'tier': ctx.tier, 'seed': ctx.seed, 'level': 'proof',
        'coverage': cov, 'assumptions': list(assumptions),
        'wall_s': round(time.time() - ctx.t0, 2), 'violations': violations,
    }
    with open(os.path.join(EVID, ctx.prop + '.json'), 'w') as f:
        json.dump(ev, f, indent=1, sort_keys=True, default=repr)


def write_replay(ctx, n, payload):
    os.makedirs(REPLAYS, exist_ok=True)
    path = os.path.join(REPLAYS, '%s-%d-%d.json' % (ctx.prop, ctx.seed, n))
    with open(path, 'w') as f:
        json.dump(payload, f, indent=1, default=repr)
    return path


def finish(ctx, gate, mod):
    """Triage failures against known findings, print KNOWN-FINDING / VIOLATION lines, write
    evidence, return exit status."""
    findings = load_findings(ctx.prop)
    open_f = [f for f in findings if f.get('status') == 'open']
    classify = getattr(mod, 'classify', None)
    unlisted = []
    for pf in ctx.prop_failures:
        fid = classify(pf['case'], pf['detail']) if classify else None
        if fid is not None and any(f['id'] == fid for f in open_f):
            ctx.known_hits[fid] = ctx.known_hits.get(fid, 0) + 1
        else:
            unlisted.append(pf)
    # disagreements that coincide with a known finding's classifier are explained by it
    unexplained = []
    for d in ctx.disagreements:
        fid = classify(d['case'], d) if classify else None
        if fid is not None and any(f['id'] == fid for f in open_f):
            ctx.known_hits[fid] = ctx.known_hits.get(fid, 0) + 1
        else:
            unexplained.append(d)
    # every open finding's committed replay is executed
    for f in open_f:
        still = True
        if hasattr(mod, 'replay_case') and f.get('replay'):
            try:
                case = json.load(open(os.path.join(VERIF, f['replay'])))['case']
                still = not mod.replay_case(ctx, case)['holds']
            except Exception as e:  # a crashing replay still counts as failing
                still = True
        if still:
            print('KNOWN-FINDING: property=%s %s' % (ctx.prop, f['what']))
        else:
            print('NOTE: known finding %s no longer reproduces (%s)' % (f['id'], f['what']))
    n = 0
    lines = []
    shrink = getattr(mod, 'shrink', None)
    for pf in unlisted[:5]:
        case = pf['case']
        if shrink:
            try:
                case = shrink(ctx, case)
            except Exception:
                pass
        detail = pf['detail']
        if case is not pf['case'] and hasattr(mod, 'replay_case'):
            try:
                detail = mod.replay_case(ctx, case)
            except Exception as e:
                detail = {'original_detail': pf['detail'], 'replay_error': repr(e)}
        path = write_replay(ctx, n, {'property': ctx.prop, 'kind': 'property-failure', 'case': case,
                                     'original_case': pf['case'], 'detail': detail})
        lines.append('VIOLATION property=%s replay=%s' % (ctx.prop, path)); n += 1
    if not unlisted:
        if gate['problems'] or gate['discharged'] != gate['obligations'] or gate['obligations'] == 0:
            path = write_replay(ctx, n, {'property': ctx.prop, 'kind': 'proof-obligation',
                                         'broken': gate['problems'], 'theorems': gate['theorems'],
                                         'assumptions_printed': gate['assumptions_printed']})
            lines.append('VIOLATION property=%s replay=%s no-failing-input-found' % (ctx.prop, path)); n += 1
        if unexplained:
            path = write_replay(ctx, n, {'property': ctx.prop, 'kind': 'correspondence',
                                         'broken': 'model/implementation correspondence of %s' % ctx.prop,
                                         'disagreements': unexplained[:10]})
            lines.append('VIOLATION property=%s replay=%s no-failing-input-found' % (ctx.prop, path)); n += 1
    violations = len(unlisted) + (1 if (not unlisted and lines) else 0)
    rule = getattr(mod, 'RULE', '')
    write_evidence(ctx, gate, rule, violations, getattr(mod, 'TRUSTED_EXTRA', ()), getattr(mod, 'ASSUMPTIONS', ()))
    for l in lines:
        print(l)
    print('%s tier=%s seed=%d evaluations=%d nontrivial=%d theorems=%d/%d disagreements=%d failures=%d known=%s wall=%.1fs' % (
        ctx.prop, ctx.tier, ctx.seed, ctx.evaluations, len(ctx.nontrivial), gate['discharged'], gate['obligations'],
        len(ctx.disagreements), len(ctx.prop_failures), ctx.known_hits, time.time() - ctx.t0))
    return 1 if lines else 0


def coq_eval_ints(header, exprs, shard=400, jobs=12, timeout=900):
    """Evaluate Coq expressions (each of a type printing as integers) with vm_compute, one
    `Eval` per expression; returns for each expression the list of integers printed.
    Used for the PrimFloat-dependent layout model, which is not extracted."""
    import concurrent.futures
    d = tempfile.mkdtemp(prefix='pffcoq')
    files = []
    try:
        for si in range(0, len(exprs), shard):
            path = os.path.join(d, 'cases%d.v' % (si // shard))
            with open(path, 'w') as f:
                f.write(header + '\n')
                for e in exprs[si:si + shard]:
                    f.write('Eval vm_compute in (%s).\n' % e)
            files.append(path)

        def one(path):
            rc, out = sh(['timeout', str(timeout), 'coqc', '-Q', COQ, 'PFF', path], cwd=d, timeout=timeout + 30)
            if rc != 0:
                raise RuntimeError('coqc failed on generated cases: ' + out[-800:])
            res = []
            for blk in out.split('     = ')[1:]:
                body = blk.split('\n     : ')[0]
                res.append([int(x) for x in re.findall(r'(-?\d+)%Z', body)] if '%Z' in body
                           else [int(x) for x in re.findall(r'-?\d+', body)])
            return res
        with concurrent.futures.ThreadPoolExecutor(max_workers=jobs) as ex:
            parts = list(ex.map(one, files))
        out = [r for p in parts for r in p]
        if len(out) != len(exprs):
            raise RuntimeError('coq_eval: %d results for %d expressions' % (len(out), len(exprs)))
        return out
    finally:
        shutil.rmtree(d, ignore_errors=True)
