# eccrun.py — run the ecc tools of /repo's working tree in-process on scratch trees (own cwd per run).
import os, io, re, shutil, tempfile, contextlib, importlib

TOOLS = {'header': 'pyFileFixity.header_ecc', 'whole': 'pyFileFixity.structural_adaptive_ecc'}


def call_main(modname, argv):
    m = importlib.import_module(modname)
    out = io.StringIO()
    try:
        with contextlib.redirect_stdout(out), contextlib.redirect_stderr(out):
            rc = m.main(list(argv))
    except SystemExit as e:
        rc = ('exit', e.code)
    except Exception as e:
        rc = ('EXC', type(e).__name__ + ': ' + str(e)[:200])
    return rc, out.getvalue()


def write_tree(root, files):
    for p, c in files.items():
        fp = os.path.join(root, p)
        os.makedirs(os.path.dirname(fp), exist_ok=True)
        with open(fp, 'wb') as f:
            f.write(c)


def read_tree(root):
    res = {}
    for r, _, fs in os.walk(root):
        for f in fs:
            p = os.path.join(r, f)
            res[os.path.relpath(p, root).replace(os.sep, '/')] = open(p, 'rb').read()
    return res


def body(ecc_bytes):
    """the ecc file after its comment preamble (lines starting with '**')"""
    pos = 0
    while ecc_bytes.startswith(b'**', pos):
        nl = ecc_bytes.find(b'\n', pos)
        if nl < 0:
            return b''
        pos = nl + 1
    return ecc_bytes[pos:]


STATS = re.compile(r'Total files (processed|corrupted|repaired completely|repaired partially|corrupted but not repaired at all|skipped): (\d+)')


def stats(log):
    return {k: int(v) for k, v in STATS.findall(log)}


class Scratch:
    """a scratch directory that is the cwd while in use"""
    def __enter__(self):
        self.d = tempfile.mkdtemp(prefix='pffrun')
        self.cwd = os.getcwd()
        os.chdir(self.d)
        return self.d

    def __exit__(self, *a):
        os.chdir(self.cwd)
        shutil.rmtree(self.d, ignore_errors=True)


def generate(tool, indir, db, extra=()):
    return call_main(TOOLS[tool], ['-i', indir, '-d', db, '-g', '-f', '--silent'] + list(extra))


def correct(tool, indir, db, outdir, extra=(), log='corr.log'):
    if os.path.exists(log):
        os.remove(log)
    rc, out = call_main(TOOLS[tool], ['-i', indir, '-d', db, '-c', '-o', outdir, '--silent', '-l', log] + list(extra))
    lg = open(log, errors='replace').read() if os.path.exists(log) else ''
    return rc, out + lg


@contextlib.contextmanager
def shuffled_listing(seed):
    """Makes directory listing order adversarial: the walk used by recwalk (aux_funcs.walk, = os.walk or scandir.walk)
    is replaced by a top-down walk that lists every directory in a seeded random order and honours in-place edits of
    `dirs` (as os.walk does).  A tool whose output depends on the order in which the filesystem lists entries is exposed."""
    import random
    import sys
    rng = random.Random(seed)
    for m in list(TOOLS.values()) + ['pyFileFixity.lib.aux_funcs']:
        importlib.import_module(m)
    # the tools import the helper module under two names (`lib.aux_funcs` through their sys.path entry and
    # `pyFileFixity.lib.aux_funcs`): every copy is patched
    auxs = [m for n, m in list(sys.modules.items()) if m is not None and n.split('.')[-1] == 'aux_funcs' and hasattr(m, 'walk')]

    def walk(top, topdown=True, onerror=None, followlinks=False):
        try:
            names = os.listdir(top)
        except OSError as e:
            if onerror:
                onerror(e)
            return
        names.sort()
        rng.shuffle(names)
        dirs = [n for n in names if os.path.isdir(os.path.join(top, n))]
        files = [n for n in names if not os.path.isdir(os.path.join(top, n))]
        yield top, dirs, files
        for d in dirs:
            if followlinks or not os.path.islink(os.path.join(top, d)):
                for x in walk(os.path.join(top, d), topdown, onerror, followlinks):
                    yield x
    saved = [(m, m.walk) for m in auxs] + [(os, os.walk)]
    for m, _ in saved:
        m.walk = walk
    try:
        yield
    finally:
        for m, w in saved:
            m.walk = w
