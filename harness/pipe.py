# pipe.py — shared machinery of props/C04.py and props/C01.py: runs the real `header` / `whole`
# tools end to end (generate, damage, correct) in child processes (one per codec table family:
# reedsolo keeps its GF tables module-global, so codec 4 and codecs 1-3 never share a process),
# records the oracle traffic of the main hasher / codec object, collects the observables and the
# independent facts the property predicates need, and runs the extracted Pipeline model on the
# parsed inputs of every file the tool processed.
import os, sys, json, re, hashlib, random, shutil, tempfile, subprocess, base64, time
import concurrent.futures

ENTRYMARKER = b"\xFE\xFF" * 5
FIELD_DELIM = b"\xFA\xFF\xFA\xFF\xFA"
HLEN = {'md5': 32, 'shortmd5': 8, 'shortsha256': 8, 'minimd5': 4, 'minisha256': 4}
HERE = os.path.dirname(os.path.abspath(__file__))


def ref_hash(kind, m):
    """The five hash kinds, re-derived from hashlib (independent of lib/hasher.py)."""
    if kind == 'md5':
        return hashlib.md5(m).hexdigest().encode()
    h = hashlib.md5(m).hexdigest() if kind.endswith('md5') else hashlib.sha256(m).hexdigest()
    return base64.b64encode(h.encode())[:8 if kind.startswith('short') else 4]


# =====================================================================================
# child side
# =====================================================================================
def tool_module(tool):
    import importlib
    return importlib.import_module('pyFileFixity.header_ecc' if tool == 'hdr' else 'pyFileFixity.structural_adaptive_ecc')


def cli_args(job, inp, db):
    a = ['-i', inp, '-d', db, '--ecc_algo', str(job['algo']), '--max_block_size', str(job['mb']),
         '-s', str(job['size']), '-ri', repr(job['ri']), '--hash', job['hash'], '--silent', '-l', 'log.txt']
    if job['tool'] == 'hdr':
        a += ['-r', repr(job['rates'][0])]
    else:
        a += ['-r1', repr(job['rates'][0]), '-r2', repr(job['rates'][1]), '-r3', repr(job['rates'][2])]
    if job.get('verbose', job.get('dseed', 1) % 4 == 0):
        a += ['-v']          # verbose on a deterministic quarter of the scenarios: it must change nothing that is observed
    return a


def run_main(mod, argv, cwd):
    old, olderr, oldout = os.getcwd(), sys.stderr, sys.stdout
    os.makedirs(cwd, exist_ok=True)
    os.chdir(cwd)
    dn = open(os.devnull, 'w')
    try:
        sys.stdout = dn
        try:
            return ['RC', mod.main(list(argv))]
        except SystemExit as e:
            return ['EXIT', repr(e.code)]
        except BaseException as e:
            import traceback
            tb = traceback.extract_tb(e.__traceback__)
            where = '%s:%d' % (os.path.basename(tb[-1].filename), tb[-1].lineno) if tb else '?'
            return ['EXC', '%s: %s @%s' % (type(e).__name__, str(e)[:160], where)]
    finally:
        sys.stdout, sys.stderr = oldout, olderr
        os.chdir(old)
        dn.close()


def mu_table(job, mod, recorded, n):
    """message size at every offset 0..n-1, from the real compute_ecc_params / feature_scaling."""
    hasher = mod.Hasher(job['hash'])
    if job['tool'] == 'hdr':
        return [mod.compute_ecc_params(job['mb'], job['rates'][0], hasher)['message_size']] * n
    r1, r2, r3 = job['rates']
    out, cache = [], {}
    for o in range(n):
        try:
            rate = r1 if o < job['size'] else mod.feature_scaling(min(o, recorded), job['size'], recorded, r2, r3)      # capped at the recorded size (fix 57a95e0)
            if rate not in cache:
                cache[rate] = mod.compute_ecc_params(job['mb'], rate, hasher)['message_size']
            out.append(cache[rate])
        except Exception:
            out.append(-1)
    return out


def spec_blocks(job, mu, recorded, nfile, tlen):
    """The tool's partition of a (damaged) input file of nfile bytes against a track of tlen bytes,
    written from the documentation of the two layouts (independent of the Coq model):
    list of (file offset, message length, k, track offset of the hash, hash length, parity length)."""
    hl, mb = HLEN[job['hash']], job['mb']
    bl = []
    if job['tool'] == 'hdr':
        ms = mu[0] if mu else None
        if ms is None:
            return bl
        if ms < 1 or ms > mb:
            return None
        want = recorded if 0 < recorded < job['size'] else job['size']
        n = min(want, nfile)
        es = mb - ms
        i = j = 0
        while i < n and j < tlen:
            bl.append((i, min(ms, n - i), ms, j, hl, es))
            i += ms
            j += hl + es
    else:
        cur = j = 0
        while j < tlen and cur < nfile:
            ms = mu[cur]
            if ms < 1 or ms > mb:
                return None          # geometry outside the well-formed range is reached (rate extrapolated past the recorded size)
            es = mb - ms
            bl.append((cur, min(ms, nfile - cur), ms, j, hl, es))
            cur += min(ms, nfile - cur)
            j += hl + es
    return bl


def gen_layout(job, mod, size):
    """Generation-side partition of a pristine file of `size` bytes: (offset, length, k, parity length)."""
    mu = mu_table(job, mod, size, size)
    n = min(size, job['size']) if job['tool'] == 'hdr' else size
    bl, cur = [], 0
    while cur < n:
        ms = mu[cur]
        if ms < 1 or ms > job['mb']:
            return None
        l = min(ms, n - cur)
        bl.append((cur, l, ms, job['mb'] - ms))
        cur += l
    return bl


def parse_ecc(data):
    ents, pos = [], data.find(ENTRYMARKER)
    while pos >= 0:
        start = pos + len(ENTRYMARKER)
        nxt = data.find(ENTRYMARKER, start)
        end = nxt if nxt >= 0 else len(data)
        p, idx = start, []
        for _ in range(4):
            q = data.find(FIELD_DELIM, p, end)
            if q < 0:
                break
            idx.append(q)
            p = q + len(FIELD_DELIM)
        if len(idx) == 4:
            ents.append({'path': data[start:idx[0]], 'size': data[idx[0] + 5:idx[1]], 'tstart': idx[3] + 5, 'tend': end,
                         'mark': pos})
        pos = nxt
    return ents


def tree_digest(root):
    h = hashlib.sha256()
    for dp, dn, fn in os.walk(root):
        dn.sort()
        for f in sorted(fn):
            p = os.path.join(dp, f)
            h.update(os.path.relpath(p, root).encode('utf-8', 'surrogateescape') + b'\0')
            h.update(hashlib.sha256(open(p, 'rb').read()).digest())
    return h.hexdigest()


def rnd_other(rng, avoid):
    while True:
        v = rng.randrange(256)
        if v not in avoid:
            return v


def apply_damage(job, rng, files, ecc, ents):
    """files: rel -> bytearray (mutated); ecc: bytearray (mutated, may shrink); ents: rel -> entry info with the
    generation layout ('blocks': (off, len, k, es)) and absolute track offsets.  Returns a short description."""
    d = job['damage']
    kind = d['kind']
    hl = HLEN[job['hash']]
    rels = sorted(files)
    note = {'kind': kind}
    if kind == 'none' or not rels:
        return note
    targets = rels if d.get('targets') == 'all' else [rng.choice(rels)]
    note['targets'] = targets

    def track_pos(e, bi, part):
        off = e['tstart'] + sum(hl + b[3] for b in e['blocks'][:bi])
        b = e['blocks'][bi]
        return (off, hl) if part == 'hash' else (off + hl, b[3])

    if kind == 'c01':
        # per block of every target file: e errors and f erasures with 2e + f <= parity (errors only: e <= parity // 2)
        mode, fill, where = d['mode'], d['fill'], d['where']
        sym = job['erasures']['sym'] if job.get('erasures') else None
        hit = 0
        for rel in targets:
            e = ents[rel]
            nb = len(e['blocks'])
            for bi, (off, l, k, es) in enumerate(e['blocks']):
                if d.get('blocks') == 'some' and nb > 1 and rng.random() < 0.5 and bi != nb - 1:
                    continue
                toff, tl = track_pos(e, bi, 'parity')
                pos = []
                if where in ('msg', 'both'):
                    pos += [('f', rel, off + x) for x in range(l)]
                if where in ('parity', 'both'):
                    pos += [('e', None, toff + x) for x in range(tl)]

                def get(p):
                    return files[p[1]][p[2]] if p[0] == 'f' else ecc[p[2]]

                def put(p, v):
                    if p[0] == 'f':
                        files[p[1]][p[2]] = v
                    else:
                        ecc[p[2]] = v
                allpos = [('f', rel, off + x) for x in range(l)] + [('e', None, toff + x) for x in range(tl)]
                f0 = sum(1 for p in allpos if sym is not None and get(p) == sym)
                budget = es - f0 if sym is not None else es
                if budget <= 0:
                    continue
                if mode == 'errors' or sym is None:
                    ne, nf = budget // 2, 0
                elif mode == 'erasures':
                    ne, nf = 0, budget
                else:
                    ne = rng.randrange(0, budget // 2 + 1)
                    nf = budget - 2 * ne
                if fill == 'random':
                    ne, nf = rng.randrange(0, ne + 1), rng.randrange(0, nf + 1)
                if job.get('erasures') and job['erasures'].get('only'):
                    ne = 0
                cand = [p for p in pos if sym is None or get(p) != sym]   # keep f0 as counted
                rng.shuffle(cand)
                ch = cand[:ne + nf]
                for p in ch[:min(ne, len(ch))]:
                    put(p, rnd_other(rng, {get(p), sym}))
                for p in ch[ne:]:
                    put(p, sym)
                hit += 1 if ch else 0
        note['blocks_hit'] = hit
        return note

    if kind == 'over1':
        # per block: exactly floor(parity/2) + 1 wrong symbols (one beyond the errors-only capacity), at least one of them in
        # the stored parity, and one wrong byte in the stored hash: whatever is committed for such a block can neither rely on
        # the hash nor lie within the decoding radius unless it is the input block itself
        for rel in targets:
            e = ents[rel]
            for bi, (off, l, k, es) in enumerate(e['blocks']):
                if es < 1 or l < 1:
                    continue
                toff, tl = track_pos(e, bi, 'parity')
                w = es // 2 + 1
                npar = min(tl, rng.randrange(1, w + 1))
                nmsg = min(l, w - npar)
                for x in rng.sample(range(tl), npar):
                    ecc[toff + x] = rnd_other(rng, {ecc[toff + x], 0xFE, 0xFF, 0xFA})
                for x in rng.sample(range(l), nmsg):
                    files[rel][off + x] = rnd_other(rng, {files[rel][off + x]})
                hoff, hlen_ = track_pos(e, bi, 'hash')
                if hlen_:
                    i = hoff + rng.randrange(hlen_)
                    ecc[i] = rnd_other(rng, {ecc[i], 0xFE, 0xFF, 0xFA})
        return note
    if kind == 'late_mix':
        # every block before index >= 10 intact, then one block destroyed beyond capacity, then a later block with one wrong byte:
        # the loop's bookkeeping ("consecutive errors since the start") must have been reset by the intact blocks
        hit = 0
        for rel in targets:
            e = ents[rel]
            nb = len(e['blocks'])
            if nb < 14:
                continue
            hb = rng.randrange(10, nb - 2)
            lb = rng.randrange(hb + 1, nb)
            off, l, k, es = e['blocks'][hb]
            for x in range(off, off + l):
                files[rel][x] = rnd_other(rng, {files[rel][x]})
            off, l, k, es = e['blocks'][lb]
            if l and es >= 2:
                x = off + rng.randrange(l)
                files[rel][x] = rnd_other(rng, {files[rel][x]})
            hit += 1
        note['files_hit'] = hit
        return note
    if kind == 'parity_swap':
        # the stored parity of a block is replaced by the parity of a NEIGHBOURING message (one byte changed); the block and
        # its stored hash stay intact.  Block + parity then lies within the radius of another codeword: a tool that consults
        # the ecc although the hash matches (not the default mode) "corrects" the intact block into the neighbour.
        from pyFileFixity.lib.eccman import ECCMan
        man = None
        hit = 0
        for rel in targets:
            e = ents[rel]
            for bi, (off, l, k, es) in enumerate(e['blocks']):
                if es < 2 or l < 1 or (d.get('blocks') == 'some' and rng.random() < 0.4):
                    continue
                m = bytearray(files[rel][off:off + l])
                i = rng.randrange(l)
                m[i] = rnd_other(rng, {m[i]})
                if man is None:
                    man = ECCMan(job['mb'], k, algo=job['algo'])
                par = bytes(bytearray(man.encode(bytes(m), k=k)))
                toff, tl = track_pos(e, bi, 'parity')
                if len(par) != tl or ENTRYMARKER[:2] in par or FIELD_DELIM[:2] in par:
                    continue
                ecc[toff:toff + tl] = par
                hit += 1
        note['blocks_hit'] = hit
        return note
    if kind in ('file_rand', 'file_burst', 'file_zero', 'file_all'):
        for rel in targets:
            f = files[rel]
            if not f:
                continue
            if kind == 'file_rand':
                for _ in range(d.get('weight', 1)):
                    i = rng.randrange(len(f))
                    f[i] = rnd_other(rng, {f[i]})
            elif kind == 'file_all':
                for i in range(len(f)):
                    f[i] = rnd_other(rng, {f[i]})
            else:
                w = min(len(f), d.get('weight', 1))
                s = rng.randrange(len(f) - w + 1)
                for i in range(s, s + w):
                    f[i] = 0 if kind == 'file_zero' else rng.randrange(256)
        return note
    if kind in ('hash', 'parity', 'track', 'both'):
        for rel in targets:
            e = ents[rel]
            if not e['blocks']:
                continue
            nbl = d.get('nblocks', 1)
            for bi in ([rng.randrange(len(e['blocks'])) for _ in range(nbl)] if nbl != 'all' else range(len(e['blocks']))):
                parts = {'hash': ['hash'], 'parity': ['parity'], 'track': [rng.choice(['hash', 'parity'])], 'both': ['hash', 'parity']}[kind]
                for part in parts:
                    toff, tl = track_pos(e, bi, part)
                    for _ in range(min(tl, d.get('weight', 1))):
                        if tl:
                            i = toff + rng.randrange(tl)
                            ecc[i] = rnd_other(rng, {ecc[i], 0xFE, 0xFF, 0xFA}) if not d.get('zero') else 0
                if kind == 'both' or d.get('also_file'):
                    off, l = e['blocks'][bi][0], e['blocks'][bi][1]
                    for _ in range(min(l, d.get('fweight', 1))):
                        i = off + rng.randrange(l)
                        files[rel][i] = rnd_other(rng, {files[rel][i]})
        return note
    if kind in ('trunc', 'extend'):
        for rel in targets:
            f = files[rel]
            if kind == 'trunc':
                del f[len(f) - min(len(f), d.get('weight', 1)):]
            else:
                f.extend(rng.randrange(256) for _ in range(d.get('weight', 1)))
            if d.get('also_file') and f:
                for _ in range(d.get('fweight', 1)):
                    i = rng.randrange(len(f))
                    f[i] = rnd_other(rng, {f[i]})
        return note
    if kind == 'cut_track':
        # remove bytes from the end of the target's track (the ecc file gets shorter), optionally damaging the file too
        rel = targets[0]
        e = ents[rel]
        tl = e['tend'] - e['tstart']
        w = min(tl, d.get('weight', 1))
        del ecc[e['tend'] - w:e['tend']]
        for r2 in ents:
            if ents[r2]['tstart'] > e['tstart']:
                ents[r2]['tstart'] -= w
                ents[r2]['tend'] -= w
        e['tend'] -= w
        if d.get('also_file') and files[rel]:
            for _ in range(d.get('fweight', 1)):
                i = rng.randrange(len(files[rel]))
                files[rel][i] = rnd_other(rng, {files[rel][i]})
        return note
    raise ValueError('unknown damage kind %r' % kind)


def capacity_facts(job, orig, files, ecc0, ecc1, ents):
    """The premise of C01, straight from the bytes: per file, whether every protected block together with its
    stored parity has at most floor(parity/2) wrong symbols (with erasure handling: 2*errors + erasures <= parity, an
    erasure being ANY symbol of the received block+parity equal to the erasure symbol), the stored hashes being intact."""
    out = {}
    hl = HLEN[job['hash']]
    er = job.get('erasures')
    for rel, e in ents.items():
        if len(files[rel]) != len(orig[rel]) or len(ecc0) != len(ecc1):
            out[rel] = {'ok': False, 'why': 'size changed'}
            continue
        ok, slack, dmg, toff = True, None, 0, e['tstart']
        for (off, l, k, es) in e['blocks']:
            o_ = orig[rel][off:off + l] + ecc0[toff + hl:toff + hl + es]
            r_ = bytes(files[rel][off:off + l]) + ecc1[toff + hl:toff + hl + es]
            if ecc0[toff:toff + hl] != ecc1[toff:toff + hl]:
                ok = False
            wrong = [i for i in range(len(o_)) if o_[i] != r_[i]]
            if er:
                f = sum(1 for x in r_ if x == er['sym'])
                ne = sum(1 for i in wrong if r_[i] != er['sym'])
                w = 2 * ne + f
                if er.get('only') and ne:
                    ok = False
            else:
                w = 2 * len(wrong)
            if w > es:
                ok = False
            if wrong:
                dmg += 1
                slack = es - w if slack is None else min(slack, es - w)     # room left in the fullest damaged block
            toff += hl + es
        out[rel] = {'ok': ok, 'damaged_blocks': dmg, 'at_capacity': slack is not None and 0 <= slack < (1 if er else 2), 'blocks': len(e['blocks'])}
    return out


class Recorder:
    """Wraps Hasher.hash and ECCMan.check/decode of the tool's module; keeps calls of the main objects only."""
    def __init__(self, mod, tool, inroot):
        self.mod, self.tool, self.inroot = mod, tool, inroot
        self.calls = []          # flat sequence of main-object calls
        self.files = []          # per processed file: dict
        self.bad_open = []
        self.saved = {}
        self.nman = 0
        self.idx, self.hidx = {}, {}

    def install(self):
        mod, rec = self.mod, self
        E, H = mod.ECCMan, mod.Hasher
        self.saved = {'init': E.__init__, 'check': E.check, 'decode': E.decode, 'hash': H.hash, 'hinit': H.__init__}
        main_idx = 0 if self.tool == 'hdr' else 1
        self.nhash = 0

        def init(s, *a, **k):
            rec.saved['init'](s, *a, **k)
            rec.idx[id(s)] = (rec.nman, s)
            rec.nman += 1

        def hinit(s, *a, **k):
            rec.saved['hinit'](s, *a, **k)
            rec.hidx[id(s)] = (rec.nhash, s)
            rec.nhash += 1

        def check(s, message, ecc, k=None):
            r = rec.saved['check'](s, message, ecc, k=k)
            if rec.idx.get(id(s), (-1,))[0] == main_idx:
                rec.calls.append(['C', k or s.k, bytes(message).hex(), bytes(ecc).hex(), bool(r)])
            return r

        def decode(s, message, ecc, k=None, **kw):
            m0, e0 = bytes(message), bytes(ecc)
            try:
                r = rec.saved['decode'](s, message, ecc, k=k, **kw)
            except BaseException as x:
                if rec.idx.get(id(s), (-1,))[0] == main_idx:
                    rec.calls.append(['D', k or s.k, m0.hex(), e0.hex(), None, type(x).__name__ + ': ' + str(x)[:70]])
                raise
            if rec.idx.get(id(s), (-1,))[0] == main_idx:
                rec.calls.append(['D', k or s.k, m0.hex(), e0.hex(), [bytes(r[0]).hex(), bytes(r[1]).hex()], None])
            return r

        def hash_(s, mes):
            r = rec.saved['hash'](s, mes)
            if rec.hidx.get(id(s), (-1,))[0] == 0:
                rec.calls.append(['H', bytes(mes).hex(), bytes(r).hex() if not isinstance(r, str) else 'STR:' + r])
            return r
        E.__init__, E.check, E.decode, H.hash, H.__init__ = init, check, decode, hash_, hinit
        # the per-file entry point: what the block loop receives
        if self.tool == 'hdr':
            self.saved['asm'] = mod.entry_assemble

            def asm(entry_fields, ecc_params, header_size, filepath, fileheader=None):
                if fileheader is None:
                    rec.files.append({'path': filepath, 'recorded': entry_fields['filesize'],
                                      'track': bytes(entry_fields['ecc_field']).hex(), 'call0': len(rec.calls)})
                return rec.saved['asm'](entry_fields, ecc_params, header_size, filepath, fileheader)
            mod.entry_assemble = asm
        else:
            self.saved['asm'] = mod.stream_entry_assemble

            def sasm(hasher, file, eccfile, entry_fields, *a, **k):
                name = getattr(file, 'name', None)
                if isinstance(name, str):
                    if not rec.files or rec.files[-1]['path'] != name or rec.files[-1]['passes'] >= 2:
                        rec.files.append({'path': name, 'recorded': entry_fields['filesize'],
                                          'tpos': list(entry_fields['ecc_field_pos']), 'call0': len(rec.calls), 'passes': 0})
                    rec.files[-1]['passes'] += 1
                    fr = rec.files[-1]
                    inner = rec.saved['asm'](hasher, file, eccfile, entry_fields, *a, **k)

                    def tap():
                        # the message size the tool itself computed at every block start it reached
                        for e in inner:
                            fr.setdefault('mu_seen', {})[e['curpos']] = e['ecc_params']['message_size']
                            yield e
                    return tap()
                return rec.saved['asm'](hasher, file, eccfile, entry_fields, *a, **k)
            mod.stream_entry_assemble = sasm
        # opens of files under the input root must be read-only
        import builtins
        inroot = os.path.realpath(self.inroot)

        def open_(path, mode='r', *a, **k):
            try:
                if isinstance(path, (str, bytes)) and os.path.realpath(path).startswith(inroot) and any(c in mode for c in 'wa+x'):
                    rec.bad_open.append([os.fsdecode(path), mode])
            except Exception:
                pass
            return builtins.open(path, mode, *a, **k)
        mod.open = open_

    def remove(self):
        mod = self.mod
        E, H = mod.ECCMan, mod.Hasher
        E.__init__, E.check, E.decode, H.hash, H.__init__ = (self.saved[x] for x in ('init', 'check', 'decode', 'hash', 'hinit'))
        if self.tool == 'hdr':
            mod.entry_assemble = self.saved['asm']
        else:
            mod.stream_entry_assemble = self.saved['asm']
        try:
            del mod.open
        except AttributeError:
            pass


LOG_PATS = [
    (re.compile(r'^File (.*): corruption in block (\d+)\. Trying to fix it\.$'), 'flag'),
    (re.compile(r'^File (.*): block (\d+) repaired!$'), 1),
    (re.compile(r'^File (.*): block (\d+) probably repaired with matching ecc check but with a hash error'), 2),
    (re.compile(r'^File (.*): block (\d+) probably repaired with matching hash but with ecc check error'), 3),
    (re.compile(r'^Error: file (.*) could not repair block (\d+) \(both hash and ecc check mismatch\)'), 4),
]
STAT_PATS = [('processed', r'- Total files processed: (\d+)'), ('corrupted', r'- Total files corrupted: (\d+)'),
             ('complete', r'- Total files repaired completely: (\d+)'), ('partial', r'- Total files repaired partially: (\d+)'),
             ('notatall', r'- Total files corrupted but not repaired at all: (\d+)'), ('skipped', r'- Total files skipped: (\d+)')]


def parse_log(path):
    ev, stats, brk = [], {}, []
    if not os.path.exists(path):
        return ev, stats, brk
    txt = open(path, 'rb').read().decode('utf-8', 'replace')   # Tee opens the log in text mode (locale encoding)
    for line in txt.split('\n'):
        for pat, code in LOG_PATS:
            m = pat.match(line)
            if m:
                ev.append([m.group(1), int(m.group(2)), code])
                break
        m = re.match(r'^Failure: Too many consecutive uncorrectable errors for (.*)\. Most likely', line)
        if m:
            brk.append(m.group(1))
    if 'All done! Stats:' in txt:
        tail = txt[txt.rindex('All done! Stats:'):]
        for k, p in STAT_PATS:
            m = re.search(p, tail)
            if m:
                stats[k] = int(m.group(1))
    return ev, stats, brk


def radius_facts(job, man, k, out_blk, in_blk, stored_par, es):
    """Independent check of 'the re-encoded codeword lies within the decoding radius of the received
    block+parity': re-encode the committed block with a fresh codec object and count differing symbols."""
    enc = bytes(man.encode(out_blk, k=k))
    par = stored_par + bytes(max(0, es - len(stored_par)))      # a truncated parity is right-padded with zeros by the facade
    recv = in_blk + par[:es]
    cw = out_blk + enc
    if len(recv) != len(cw):
        return {'len_mismatch': [len(recv), len(cw)]}
    diff = [i for i in range(len(cw)) if cw[i] != recv[i]]
    er = job.get('erasures')
    if er:
        # erasure positions are searched in message + ecc as received (before padding)
        raw = in_blk + stored_par
        E = set(i for i in range(len(raw)) if raw[i] == er['sym'])
        e = len([i for i in diff if i not in E])
        f = len(E)
        return {'e': e, 'f': f, 'es': es, 'ok': 2 * e + f <= es}
    return {'e': len(diff), 'f': 0, 'es': es, 'ok': 2 * len(diff) <= es}


def run_job(job):
    """One scenario end to end.  Returns a JSON-able dict of observables and facts."""
    res = {'ok': True}
    mod = tool_module(job['tool'])
    root = tempfile.mkdtemp(prefix='pffpipe')
    try:
        inp, out, db = os.path.join(root, 'in'), os.path.join(root, 'out'), os.path.join(root, 'ecc.db')
        os.makedirs(inp)
        os.makedirs(out)
        orig = {}
        for rel, hx in job['tree'].items():
            p = os.path.join(inp, *rel.split('/'))
            os.makedirs(os.path.dirname(p), exist_ok=True)
            orig[rel] = bytes.fromhex(hx)
            with open(p, 'wb') as f:
                f.write(orig[rel])
        single = job.get('single')
        gin = os.path.join(inp, *single.split('/')) if single else inp
        g = run_main(mod, cli_args(job, gin, db) + ['-g'], os.path.join(root, 'cwd_g'))
        res['gen'] = g
        if g != ['RC', 0]:
            res['ok'] = False
            return res
        ecc = bytearray(open(db, 'rb').read())
        covered = [single] if single else sorted(orig)
        # layout of every entry (needed to place damage; also validates our reading of the format)
        parsed = parse_ecc(bytes(ecc))
        ents = {}
        hl = HLEN[job['hash']]
        for pe in parsed:
            rel = pe['path'].decode('latin-1')
            if single:
                rel = os.path.dirname(single) + '/' + rel if '/' in single else rel
            if rel in orig and rel not in ents:
                bl = gen_layout(job, mod, len(orig[rel]))
                if bl is None or pe['tend'] - pe['tstart'] != sum(hl + b[3] for b in bl):
                    res['ambiguous'] = rel
                    res['ok'] = False
                    return res
                ents[rel] = dict(pe, blocks=bl)
        if sorted(ents) != sorted(covered):
            res['ambiguous'] = 'entries %r != files %r' % (sorted(ents), sorted(covered))
            res['ok'] = False
            return res
        files = {rel: bytearray(orig[rel]) for rel in covered}
        ecc0 = bytes(ecc)
        ents0 = {rel: dict(e) for rel, e in ents.items()}
        res['damage_note'] = apply_damage(job, random.Random(job['dseed']), files, ecc, ents)
        res['within_capacity'] = capacity_facts(job, orig, files, ecc0, bytes(ecc), ents0)
        # does the damaged ecc file still split into the same entries and fields?  (damage that happens to spell a marker
        # or a delimiter changes the entry structure: a hazard of the in-band format, decided here per case)
        res['markers_ok'] = sorted((e['tstart'], e['tend']) for e in ents.values()) == sorted((e['tstart'], e['tend']) for e in parse_ecc(bytes(ecc)))
        for rel in covered:
            with open(os.path.join(inp, *rel.split('/')), 'wb') as f:
                f.write(files[rel])
        with open(db, 'wb') as f:
            f.write(ecc)
        cin = inp
        if job.get('moved'):
            cin = os.path.join(root, 'moved', 'deeper')
            os.makedirs(os.path.dirname(cin))
            shutil.move(inp, cin)
        cinput = os.path.join(cin, *single.split('/')) if single else cin
        dig0, dbdig0 = tree_digest(cin), hashlib.sha256(bytes(ecc)).hexdigest()
        flags = ['-c', '-o', out]
        if not job.get('fast', True):
            flags.append('--no_fast_check')
        if job.get('ignore_size'):
            flags.append('--ignore_size')
        if job.get('erasures'):
            flags += ['--enable_erasures', '--erasure_symbol', str(job['erasures']['sym'])]
            if job['erasures'].get('only'):
                flags.append('--only_erasures')
        rec = Recorder(mod, job['tool'], cin)
        rec.install()
        try:
            c = run_main(mod, cli_args(job, cinput, db) + flags, os.path.join(root, 'cwd_c'))
        finally:
            rec.remove()
        res['corr'] = c
        res['inputs_unchanged'] = (tree_digest(cin) == dig0) and hashlib.sha256(open(db, 'rb').read()).hexdigest() == dbdig0
        res['bad_open'] = rec.bad_open
        ev, stats, brk = parse_log(os.path.join(root, 'cwd_c', 'log.txt'))
        res['log_events'], res['stats'], res['breaks'] = ev, stats, brk
        outs = {}
        for dp, dn, fn in os.walk(out):
            for f in fn:
                p = os.path.join(dp, f)
                outs[os.path.relpath(p, out).replace(os.sep, '/')] = open(p, 'rb').read()
        res['outputs'] = {k: v.hex() for k, v in outs.items()}
        rootfolder = os.path.dirname(cinput) if single else cin
        # per processed file: parsed inputs for the model + oracle traffic
        pf = []
        eccb = bytes(ecc)
        for i, fr in enumerate(rec.files):
            rel = os.path.relpath(fr['path'], rootfolder).replace(os.sep, '/')
            key = (os.path.dirname(single) + '/' + rel if '/' in single else rel) if single else rel
            data = bytes(files[key]) if key in files else open(fr['path'], 'rb').read()
            c1 = rec.files[i + 1]['call0'] if i + 1 < len(rec.files) else len(rec.calls)
            ent = {'rel': rel, 'key': key, 'recorded': fr['recorded'], 'file': data.hex(), 'calls': rec.calls[fr['call0']:c1]}
            if job['tool'] == 'hdr':
                ent['track'] = fr['track']
                tlen = len(fr['track']) // 2
                track = bytes.fromhex(fr['track'])
            else:
                t0, t1 = fr['tpos']
                ent['tlen'] = tlen = max(0, t1 - t0)
                track = eccb[t0:t1 + hl + job['mb'] + 2]
                ent['db'] = track.hex()
            mu = mu_table(job, mod, fr['recorded'] if isinstance(fr['recorded'], int) else 0, len(data))
            for o_, m_ in fr.get('mu_seen', {}).items():      # at the offsets the tool reached, its own value wins over our reading of the rate rule
                if o_ < len(mu):
                    if mu[o_] != m_:
                        res['mu_rule_differs'] = res.get('mu_rule_differs', 0) + 1
                    mu[o_] = m_
            ent['mu'] = mu
            sb = spec_blocks(job, mu, ent['recorded'], len(data), tlen)
            ent['ill_formed'] = sb is None
            # facts for the property predicate, block by block (independent of the model)
            man = mod.ECCMan(job['mb'], 1 if job['tool'] == 'sa' else mu[0] if mu else 1, algo=job['algo']) if data else None
            facts = []
            ob = outs.get(rel)
            if not ent['ill_formed']:
                for (off, l, k, j, hlen_, es) in sb:
                    sh, sp = track[j:j + hlen_], track[j + hlen_:j + hlen_ + es]
                    ib = data[off:off + l]
                    fct = {'off': off, 'len': l, 'k': k, 'in_hash_ok': ref_hash(job['hash'], ib) == sh}
                    # against the pristine file and the pristine stored parity (same track position): is this block damaged, and is
                    # block + stored parity within the errors-only capacity of the original codeword?
                    o0 = orig.get(key)
                    if o0 is not None and len(o0) == len(data) and key in ents0 and res.get('markers_ok'):
                        ob0 = o0[off:off + l]
                        t0_ = ents0[key]['tstart'] + j + hlen_
                        sp0 = ecc0[t0_:t0_ + es]
                        if len(ob0) == l and len(sp0) == len(sp) == es:
                            d_ = sum(1 for x, y in zip(ib, ob0) if x != y) + sum(1 for x, y in zip(sp, sp0) if x != y)
                            fct['dmg'] = ib != ob0
                            fct['repairable'] = 2 * d_ <= es
                            if ob is not None:
                                fct['restored'] = ob[off:off + l] == ob0
                    if ob is not None:
                        o_ = ob[off:off + l]
                        fct['same'] = (o_ == ib)
                        if o_ != ib and len(o_) == l:
                            fct['out_hash_ok'] = ref_hash(job['hash'], o_) == sh
                            fct['radius'] = radius_facts(job, man, k, o_, ib, sp, es)
                    facts.append(fct)
            ent['facts'] = facts
            pf.append(ent)
        res['files'] = pf
        res['damaged'] = {rel: bytes(files[rel]).hex() for rel in covered}
        res['calls_total'] = len(rec.calls)
        res['calls_attributed'] = sum(len(e['calls']) for e in pf)
        # hash oracle re-derived
        res['hash_bad'] = sum(1 for e in pf for c in e['calls'] if c[0] == 'H' and c[2] != ref_hash(job['hash'], bytes.fromhex(c[1])).hex())
        return res
    except BaseException as e:
        import traceback
        res['ok'] = False
        res['harness_error'] = traceback.format_exc()[-1500:]
        return res
    finally:
        shutil.rmtree(root, ignore_errors=True)


def child_main(inpath, outpath):
    jobs = json.load(open(inpath))
    out = []
    for j in jobs:
        out.append(run_job(j))
    json.dump(out, open(outpath, 'w'))


# =====================================================================================
# parent side
# =====================================================================================
def run_jobs(jobs, workers=14, timeout=3000):
    """Runs the jobs in child processes; codec 4 never shares a process with codecs 1-3."""
    fam = {}
    for i, j in enumerate(jobs):
        fam.setdefault('b' if j['algo'] == 4 else 'a', []).append(i)
    chunks = []
    for f, idx in fam.items():
        n = max(1, min(len(idx), int(round(workers * len(idx) / max(1, len(jobs)))) or 1))
        # cost-balanced: round-robin after sorting by an estimate of the cost
        idx = sorted(idx, key=lambda i: -job_cost(jobs[i]))
        for c in range(n):
            part = idx[c::n]
            if part:
                chunks.append(part)
    results = [None] * len(jobs)
    d = tempfile.mkdtemp(prefix='pffpipe_jobs')
    env = dict(os.environ)
    env['PYTHONPATH'] = os.environ.get('VERIF_REPO', '/repo')
    env['PYTHONHASHSEED'] = '0'
    env['PYTHONDONTWRITEBYTECODE'] = '1'
    env['PYTHONUTF8'] = '1'

    def one(ci):
        ip, op = os.path.join(d, 'in%d.json' % ci), os.path.join(d, 'out%d.json' % ci)
        json.dump([jobs[i] for i in chunks[ci]], open(ip, 'w'))
        p = subprocess.run([sys.executable, os.path.abspath(__file__), ip, op], stdout=subprocess.PIPE, stderr=subprocess.PIPE,
                           timeout=timeout, env=env, cwd=d)
        if not os.path.exists(op):
            raise RuntimeError('pipe child failed: ' + p.stderr.decode('latin-1')[-1500:])
        return ci, json.load(open(op))
    try:
        with concurrent.futures.ThreadPoolExecutor(max_workers=max(1, len(chunks))) as ex:
            for ci, rs in ex.map(one, range(len(chunks))):
                for i, r in zip(chunks[ci], rs):
                    results[i] = r
    finally:
        shutil.rmtree(d, ignore_errors=True)
    return results


def job_cost(j):
    n = sum(len(v) // 2 for v in j['tree'].values())
    return (8 if j['algo'] in (1, 2) else 1) * (n + 200) * (3 if j['tool'] == 'sa' else 1)


def hxs(s):
    return s if s else '-'


def hxl(l):
    return ','.join(hxs(x) for x in l) if l else '.'


def ints(l):
    return ','.join(str(x) for x in l) if l else '.'


def model_line(job, ent):
    """Request line for the extracted model: parsed inputs + recorded oracle tables of this file."""
    hk, hv, ck, cm, cp, cv, dk, dm, dp, df, drm, drp = ([] for _ in range(12))
    for c in ent['calls']:
        if c[0] == 'H':
            hk.append(c[1]); hv.append(c[2])
        elif c[0] == 'C':
            ck.append(c[1]); cm.append(c[2]); cp.append(c[3]); cv.append(1 if c[4] else 0)
        else:
            dk.append(c[1]); dm.append(c[2]); dp.append(c[3])
            df.append(0 if c[4] is None else 1)
            drm.append(c[4][0] if c[4] else ''); drp.append(c[4][1] if c[4] else '')
    tabs = [hxl(hk), hxl(hv), ints(ck), hxl(cm), hxl(cp), ints(cv), ints(dk), hxl(dm), hxl(dp), ints(df), hxl(drm), hxl(drp)]
    fast = 1 if job.get('fast', True) else 0
    hl = HLEN[job['hash']]
    if job['tool'] == 'hdr':
        ms = ent['mu'][0] if ent['mu'] else 1
        head = ['pipe_hdr', fast, ms, job['mb'], hl, job['size'], ent['recorded'], hxs(ent['file']), hxs(ent['track'])]
    else:
        head = ['pipe_sa', fast, job['mb'], hl, ent['tlen'], ints([max(0, m) for m in ent['mu']]), hxs(ent['file']), hxs(ent['db'])]
    return ' '.join(str(x) for x in head + tabs)


def trace_of_calls(calls):
    out = []
    for c in calls:
        if c[0] == 'H':
            out.append('0:0:%s:-' % hxs(c[1]))
        elif c[0] == 'C':
            out.append('1:%d:%s:%s' % (c[1], hxs(c[2]), hxs(c[3])))
        else:
            out.append('2:%d:%s:%s' % (c[1], hxs(c[2]), hxs(c[3])))
    return out


def impl_verdicts(res, ent, nblocks):
    """Verdict codes per block index reconstructed from the structured log lines of this file."""
    v = [0] * nblocks
    for path, i, code in res['log_events']:
        if path == ent['rel'] and code != 'flag' and i < nblocks:
            v[i] = code
    return v


def correspondence(ctx, job, res, case):
    """Model vs implementation on every file the tool processed, and on the run's counters / exit status.
    Returns the list of model classes (or None when the comparison could not be made)."""
    if not res.get('ok') or 'files' not in res:
        return None
    lines, ents = [], []
    for ent in res['files']:
        if ent['ill_formed'] or not isinstance(ent['recorded'], int):
            ctx.count('model_skipped_ill_formed_geometry')
            return None
        lines.append(model_line(job, ent))
        ents.append(ent)
    outs = ctx.model.run(lines) if lines else []
    classes = []
    for ent, o in zip(ents, outs):
        if o.startswith('ERR'):
            ctx.disagree(case, o, None, 'model driver error')
            return None
        mo, mv, mc, miss, mt = o.split(' ')
        mverd = [int(x) for x in mv.split(',')] if mv != '.' else []
        classes.append(int(mc))
        impl_out = res['outputs'].get(ent['rel'])
        m_out = None if mo == 'N' else ('' if mo == '-' else mo)
        iv = impl_verdicts(res, ent, len(mverd))
        mtr = [] if mt == '.' else mt.split(';')
        itr = trace_of_calls(ent['calls'])
        problems = []
        if int(miss):
            problems.append('oracle-miss: %s model queries not in the recorded traffic' % miss)
        if m_out != impl_out:
            problems.append('output bytes differ (model %s, impl %s)' % (
                'none' if m_out is None else '%d bytes' % (len(m_out) // 2), 'none' if impl_out is None else '%d bytes' % (len(impl_out) // 2)))
        if [0 if x == 5 else x for x in mverd] != iv:
            problems.append('verdicts differ: model %r impl %r' % (mverd, iv))
        if mtr != itr:
            k = next((i for i in range(min(len(mtr), len(itr))) if mtr[i] != itr[i]), min(len(mtr), len(itr)))
            problems.append('oracle call sequence differs at call %d (model %d calls, impl %d calls)' % (k, len(mtr), len(itr)))
        ctx.traces += 1
        ctx.count('blocks_modelled', len(mverd))
        for x in mverd:
            ctx.count('verdict=%d' % x)
        if problems:
            ctx.disagree(case, {'file': ent['rel'], 'model': o[:300]}, {'problems': problems}, '; '.join(problems))
    # run level: counters and exit status (only when the run ended normally)
    if res['corr'][0] == 'RC' and res.get('stats'):
        t = ctx.model.run(['pipe_tally ' + ints(classes)])[0]
        mt = [int(x) for x in t.split(',')]
        st = res['stats']
        it = [st.get('processed'), st.get('corrupted'), st.get('complete'), st.get('partial'), st.get('notatall'), res['corr'][1]]
        if mt != it:
            ctx.disagree(case, {'tally': mt}, {'tally': it}, 'counters / exit status differ')
    elif res['corr'][0] != 'RC':
        ctx.disagree(case, 'model has no crash outcome', res['corr'], 'the run did not end with a return code')
    return classes


if __name__ == '__main__':
    child_main(sys.argv[1], sys.argv[2])
