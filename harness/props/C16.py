# C16 — database updates converge: correspondence of HashUpd.v with the update branches of rfigc.main
# (real runs on real temp trees, one run per history step) and the property predicate evaluated on the
# implementation's own databases.
import common
import csv, hashlib, itertools, os, shutil, sys, tempfile, io, contextlib
from common import hx, hxl

FINDING_STALE = 'C16-stale-row-after-readd'

RULE = ('histories = initial tree, `pff hash -g`, then steps over {add file, delete file, -u -a, -u -r, -u -a -r} with folder '
        'input or a single top-level file as input (existing, or missing => argparse exit 2), then a final folder -u -a -r '
        'compared with a fresh -g into a second database. fixed corpus + random histories (quick 500, thorough 5000) of length <= 25 over <= 8 paths '
        '(nested, dotfiles, double extensions, csv metacharacters, non-ASCII) and a content pool with equal-size and shared '
        'contents; every history of length <= 3 (quick) / <= 4 (thorough) over paths {a.txt, s/b.dat} x contents {A, B} from 3 '
        'initial trees (depth-first over real state, single-file input = a.txt). A separately labelled stream adds in-place modification (not in the '
        'operation alphabet). Every step is a real rfigc.main run; the database is re-read after each step and compared, in '
        'row order, with the extracted HashUpd model; the property predicate (remove/append/convergence rules) is evaluated '
        'on the databases the implementation wrote. non-trivial = the database changed at least once after generation; '
        'distinct by (tree, history).')
TRUSTED_EXTRA = ['modelled: rfigc.main update branches (remove via .rem copy + single-file filter, append with db_paths read '
                 'once, remove-then-append order, argparse rejection of a missing input) and -g; not modelled: the two date '
                 'columns, log text, check mode, --skip_hash, structure check',
                 'oracles: hashlib md5/sha1 (rows are mapped back to the content the harness wrote via hashes it computes '
                 'itself), os.path.splitext and the recwalk order (both modelled concretely and compared on their own), '
                 'csv reader/writer (rows re-read with the same dialect), the filesystem']
ASSUMPTIONS = ['no path of the tree is a directory prefix of another path (a name is never both a file and a directory)',
               'the database file lives outside the scanned folder; single-file input is a file directly inside the folder',
               'file names are valid utf-8 without carriage return (csv round-trip; a CR is written unquoted and splits the row)',
               'the database exists (generated) before the first update: `-u -a` on a missing database writes a headerless file, outside the property']

KINDS = {'add': 0, 'del': 1, 'a': 2, 'r': 3, 'ar': 4}
HEADER = ['path', 'md5', 'sha1', 'last_modification_timestamp', 'last_modification_date', 'size', 'ext']


# ---------------------------------------------------------------------------------------------
# implementation runner
class Impl:
    """One scratch area: tree/, db.csv, db2.csv, a fresh cwd per run."""
    def __init__(self):
        self.base = tempfile.mkdtemp(prefix='pffc16')
        self.root = os.path.join(self.base, 'tree')
        self.db = os.path.join(self.base, 'db.csv')
        self.db2 = os.path.join(self.base, 'db2.csv')
        self.cwds = os.path.join(self.base, 'cwd')
        os.mkdir(self.root); os.mkdir(self.cwds)
        self.ncall = 0
        self.known = {}      # (md5, sha1) -> content, computed by the harness with hashlib

    def close(self):
        shutil.rmtree(self.base, ignore_errors=True)

    def note(self, c):
        self.known[(hashlib.md5(c).hexdigest(), hashlib.sha1(c).hexdigest())] = c

    def set_tree(self, tree):
        shutil.rmtree(self.root, ignore_errors=True)
        os.mkdir(self.root)
        for p, c in tree.items():
            self.add(p, c)

    def add(self, p, c):
        fp = os.path.join(self.root, p)
        os.makedirs(os.path.dirname(fp), exist_ok=True)
        with open(fp, 'wb') as f:
            f.write(c)
        self.note(c)

    def delete(self, p):
        fp = os.path.join(self.root, p)
        os.remove(fp)
        d = os.path.dirname(fp)
        while d != self.root and not os.listdir(d):   # drop emptied directories
            os.rmdir(d); d = os.path.dirname(d)

    def main(self, args):
        """rfigc.main in its own cwd; returns the exit status or ('EXC', repr)."""
        from pyFileFixity import rfigc
        self.ncall += 1
        cwd = os.path.join(self.cwds, str(self.ncall))
        os.mkdir(cwd)
        old = os.getcwd()
        os.chdir(cwd)
        err = io.StringIO()
        olderr = sys.stderr
        try:
            with contextlib.redirect_stderr(err), contextlib.redirect_stdout(io.StringIO()):
                r = rfigc.main(list(args) + ['--silent'] + (['-v'] if common.every_fourth() else []))
            return int(r)
        except SystemExit as e:
            return e.code if isinstance(e.code, int) else ('EXC', repr(e))
        except BaseException as e:
            return ('EXC', repr(e))
        finally:
            sys.stderr = olderr
            os.chdir(old)
            stray = os.listdir(cwd)
            shutil.rmtree(cwd, ignore_errors=True)
            if stray:
                self.stray = stray

    def update(self, kind, tgt):
        inp = self.root if tgt == '' else os.path.join(self.root, tgt)
        flags = {'a': ['-a'], 'r': ['-r'], 'ar': ['-a', '-r']}[kind]
        return self.main(['-i', inp, '-d', self.db, '-u'] + flags)

    def generate(self, db):
        return self.main(['-i', self.root, '-d', db, '-g', '-f'])

    def rows(self, db=None):
        """Rows of the database in file order: (path, content-or-hash-pair, size, ext)."""
        db = db or self.db
        try:
            with open(db, 'r', newline='', encoding='utf-8') as f:
                rs = list(csv.reader(f, delimiter='|', quotechar='"'))
        except Exception as e:
            return [('UNREADABLE', repr(e))]
        if not rs or rs[0] != HEADER:
            return [('BADHEADER', rs[:1])]
        out = []
        for r in rs[1:]:
            if len(r) != 7:
                out.append(('BADROW', tuple(r))); continue
            c = self.known.get((r[1], r[2]))
            out.append((r[0], c.hex() if c is not None else ('?', r[1], r[2]), r[5], r[6]))
        return out

    def leftovers(self):
        return sorted(x for x in os.listdir(self.base) if x not in ('tree', 'db.csv', 'db2.csv', 'cwd'))


def fresh_row(p, c):
    """The row a generation from scratch writes for file p with content c (from the property statement:
    path, hashes (as the content they identify), size, extension)."""
    return (p, c.hex(), str(len(c)), os.path.splitext(p)[1])


def multiset(rows):
    d = {}
    for r in rows:
        d[r] = d.get(r, 0) + 1
    return d


def msub(a, b):
    """multiset difference a - b as a list"""
    out = []
    for r, n in a.items():
        out += [r] * max(0, n - b.get(r, 0))
    return out


def pred_step(kind, tgt, tree, before, after, status):
    """Second and third sentence of the property on one update run. `tree`: path -> content at run time."""
    errs = []
    valid = (tgt == '' or tgt in tree)
    if valid and status != 0:
        errs.append('update run on an existing input ended with status %r' % (status,))
    mb, ma = multiset(before), multiset(after)
    bpaths = set(r[0] for r in before)
    dropped, added = msub(mb, ma), msub(ma, mb)
    # remove mode never drops a row of an existing file; drops only rows whose file no longer exists
    for r in dropped:
        if 'r' not in kind:
            errs.append('append-only run altered or dropped existing row %r' % (r,))
        elif r[0] in tree:
            errs.append('remove dropped row of existing file %r' % (r[0],))
    if 'a' not in kind and added:
        errs.append('remove-only run added rows %r' % (added[:3],))
    if 'a' in kind:
        walked = sorted(tree) if tgt == '' else ([tgt] if tgt in tree else [])
        newp = [r[0] for r in added]
        for r in added:
            if r[0] in bpaths:
                errs.append('append duplicated or altered the row of %r' % (r[0],))
            elif r[0] not in tree:
                errs.append('append added a row for a non-existent file %r' % (r[0],))
            elif r != fresh_row(r[0], tree[r[0]]):
                errs.append('appended row is not the row of the file: %r' % (r,))
            if r[0] not in walked:
                errs.append('append added a row outside its input: %r' % (r[0],))
        if len(set(newp)) != len(newp):
            errs.append('append added a file more than once: %r' % (sorted(newp),))
        for p in walked:
            if p not in bpaths and p not in newp:
                errs.append('append did not add new file %r' % (p,))
    return errs


def pred_converge(tree, rows, fresh):
    """First sentence: after a folder -u -a -r the rows are exactly those of a fresh generation."""
    ma, mf = multiset(rows), multiset(fresh)
    if ma == mf:
        return None
    diff = msub(ma, mf) + msub(mf, ma)
    return {'extra_or_stale_rows': [list(map(str, r)) for r in msub(ma, mf)][:6],
            'missing_rows': [list(map(str, r)) for r in msub(mf, ma)][:6],
            'diff_paths': sorted(set(str(r[0]) for r in diff)),
            'simple': all(sum(1 for r in rows if r[0] == p) == 1 and sum(1 for r in fresh if r[0] == p) == 1
                          for p in set(r[0] for r in diff))}


# ---------------------------------------------------------------------------------------------
# model
def model_line(case):
    tree = case['tree']
    ps0 = sorted(tree)
    ops = case['ops'] + [['ar', '', '']]
    ks, ps, cs = [], [], []
    for k, p, c in ops:
        if k in ('add', 'del'):
            ks.append(KINDS[k])
        else:
            ks.append(KINDS[k] + (3 if p != '' else 0))
        ps.append(p.encode('utf-8')); cs.append(bytes.fromhex(c))
    return 'hashupd %s %s %s %s %s' % (hxl([p.encode('utf-8') for p in ps0]), hxl([bytes.fromhex(tree[p]) for p in ps0]),
                                       ','.join(map(str, ks)) if ks else '.', hxl(ps), hxl(cs))


def unhx(s):
    return b'' if s == '-' else bytes.fromhex(s)


def parse_model(out):
    states = []
    for g in out.split(';'):
        st, _, rs = g.partition(':')
        rows = []
        if rs != '.':
            for r in rs.split('/'):
                p, h, s, e = r.split(',')
                rows.append((unhx(p).decode('utf-8'), unhx(h).hex(), s, unhx(e).decode('utf-8')))
        states.append((int(st), rows))
    return states


# ---------------------------------------------------------------------------------------------
# one history against the implementation
def run_history(im, case, fresh_cache=None):
    """Executes the case for real.  Returns (states, failures):
       states = [(status, rows)] for generation, every step, and the final folder -a -r;
       failures = list of detail dicts of property-predicate failures."""
    tree = {p: bytes.fromhex(c) for p, c in case['tree'].items()}
    im.set_tree(tree)
    if os.path.exists(im.db):
        os.remove(im.db)
    st = im.generate(im.db)
    rows = im.rows()
    states = [(st, rows)]
    fails = []
    stale = set()
    if st != 0 or multiset(rows) != multiset(fresh_row(p, c) for p, c in tree.items()):
        fails.append({'kind': 'generate', 'step': 0, 'status': st, 'rows': [list(map(str, r)) for r in rows][:8]})
    for i, (k, p, c) in enumerate(case['ops'] + [['ar', '', '']]):
        if k == 'add':
            cb = bytes.fromhex(c)
            if any(r[0] == p and r != fresh_row(p, cb) for r in rows):
                stale.add(p)     # p (re-)created with a content its row in the database does not describe
            im.add(p, cb); tree[p] = cb
            states.append((0, rows))
            continue
        if k == 'del':
            im.delete(p); del tree[p]
            states.append((0, rows))
            continue
        before = rows
        st = im.update(k, p)
        rows = im.rows()
        states.append((st, rows))
        for e in pred_step(k, p, tree, before, rows, st):
            fails.append({'kind': 'step', 'step': i + 1, 'op': [k, p], 'what': e})
        if k == 'ar' and p == '':
            key = tuple(sorted(tree.items()))
            if fresh_cache is not None and key in fresh_cache:
                fresh = fresh_cache[key]
            else:
                gst = im.generate(im.db2)
                fresh = im.rows(im.db2)
                if gst != 0:
                    fresh = [('GENFAILED', gst)]
                if fresh_cache is not None:
                    fresh_cache[key] = fresh
            d = pred_converge(tree, rows, fresh)
            if d is not None:
                d.update({'kind': 'converge', 'step': i + 1, 'stale_paths': sorted(stale)})
                fails.append(d)
    left = im.leftovers()
    if left or getattr(im, 'stray', None):
        fails.append({'kind': 'leftover', 'files': left, 'cwd': getattr(im, 'stray', None)})
        im.stray = None
    return states, fails


def canon_states(states):
    return [[s if isinstance(s, int) else list(s), [list(map(str, r)) for r in rows]] for s, rows in states]


def classify(case, detail):
    if isinstance(case, dict) and case.get('kind') == 'cli-process':
        return None
    """Narrow classifier of the open finding: the only difference to a fresh generation is the stale row of a
    path that was re-created (or modified) with a content differing from the one its row — still in the database
    at that moment — was recorded with."""
    if not isinstance(detail, dict):
        return None
    if detail.get('kind') == 'converge' and detail.get('diff_paths') and detail.get('simple') \
            and set(detail['diff_paths']) <= set(detail.get('stale_paths', [])):
        return FINDING_STALE
    return None


def record_failures(ctx, case, fails):
    """One entry per (kind, classification) of a history.  Cases explained by the open finding are recorded only up to
    a small number (the rest is counted) so that they can never crowd an unlisted failure out of the capped list."""
    seen = set()
    for d in fails:
        fid = classify(case, d)
        key = (d['kind'], fid)
        if key in seen:
            continue
        seen.add(key)
        ctx.count('predicate_failed=' + d['kind'] + ('' if fid is None else ':' + fid))
        if fid is not None:
            n = ctx.hist.get('known_finding_cases_recorded', 0)
            if n >= 25:
                continue
            ctx.count('known_finding_cases_recorded')
        ctx.fail(case, d)


def check_cases(ctx, im, cases, fresh_cache=None):
    outs = ctx.model.run([model_line(c) for c in cases])
    for case, o in zip(cases, outs):
        model = parse_model(o) if not o.startswith('ERR') else o
        try:
            states, fails = run_history(im, case, fresh_cache)
        except Exception as e:      # harness-level trouble with the scratch tree: report as an observable
            states, fails = [('EXC', repr(e))], []
        ctx.evaluations += 1
        label = case.get('label', 'main')
        ctx.count('stream=' + label)
        ctx.count('len=%d' % len(case['ops']))
        for k, p, c in case['ops']:
            ctx.count('op=' + k + ('' if k in ('add', 'del') else (':folder' if p == '' else ':file')))
        if any(a[1] != b[1] for a, b in zip(states, states[1:])):
            ctx.nontriv((tuple(sorted(case['tree'].items())), tuple(map(tuple, case['ops']))))
        impl = canon_states(states) if states and len(states[0]) == 2 and not isinstance(states[0][0], str) else states
        mod = canon_states(model) if not isinstance(model, str) else model
        if impl != mod:
            i = next((j for j, (a, b) in enumerate(zip(impl, mod)) if a != b), min(len(impl), len(mod))) if not isinstance(mod, str) else 0
            ctx.disagree(case, {'first_difference_at_state': i, 'model': mod[i:i + 1] if not isinstance(mod, str) else mod},
                         {'impl': impl[i:i + 1]})
        elif not fails:
            ctx.traces += 1
        record_failures(ctx, case, fails)
        ctx.sample({'tree': case['tree'], 'ops': case['ops'], 'final_rows': impl[-1][1] if impl and isinstance(impl[-1], list) else None}, cap=3)


# ---------------------------------------------------------------------------------------------
# generators
TOP = ['a.txt', 'b', 'c.tar.gz', '.hid', 'n\nl.t', 'ü|n"m.txt', ' sp ace.x', 'q.', 'README.TXT', 'w\\v.y', "#'x,y;.z"]
NESTED = ['sub/x.txt', 'sub/y', 'sub/deep/z.txt', 'sab/w.bin', 'sub/a.txt', 'z/.k.e', 'sub/ü.d/n', 'A/b',
          'sub2/k.txt', 'sub_old/deep/q', 'sub/deep2/r', 'A/b2/c']     # sibling folders whose names share a prefix
CONTENTS = [b'', b'A', b'B', b'AA', b'hello\n', b'\x00\xff|"', b'A' * 70000]


def h(c):
    return c.hex()


def conflicts(p, cur):
    """p cannot be created while cur holds a file that is one of p's directories, or a file below p taken as a directory"""
    return any(p.startswith(q + '/') or q.startswith(p + '/') for q in cur)


def gen_history(rng, modify=False):
    pool = rng.sample(TOP, rng.randint(1, 5)) + rng.sample(NESTED, rng.randint(0, 3))
    if rng.random() < 0.35:
        # a name that is a file at one time and a directory at another (delete `sub`, add `sub/x.txt`):
        # a row whose path has become a directory is the row of a file that no longer exists
        pool = [q for q in pool if not q.startswith('sub')] + ['sub', rng.choice(['sub/x.txt', 'sub/deep/z.txt'])]
    cont = list(CONTENTS[:6]) + [bytes(rng.randrange(256) for _ in range(rng.choice([1, 2, 9])))]
    if rng.random() < 0.05:
        cont.append(CONTENTS[6])
    tree = {}
    for p in pool:
        if rng.random() < 0.5 and not conflicts(p, tree):
            tree[p] = rng.choice(cont)
    cur = dict(tree)
    everp = set(cur)
    ops = []
    n = rng.choice([0, 1, 2, 3, 5, 8, 12, 18, 25])
    for _ in range(n):
        x = rng.random()
        if x < 0.27:
            absent = [p for p in pool if p not in cur and not conflicts(p, cur)]
            if modify and cur and rng.random() < 0.5:
                p = rng.choice(sorted(cur))                     # in-place modification (labelled stream only)
            elif absent:
                gone = [p for p in absent if p in everp]
                p = rng.choice(gone) if gone and rng.random() < 0.6 else rng.choice(absent)
            else:
                continue
            c = rng.choice(cont)
            ops.append(['add', p, h(c)]); cur[p] = c; everp.add(p)
        elif x < 0.47:
            if not cur:
                continue
            p = rng.choice(sorted(cur))
            ops.append(['del', p, '']); del cur[p]
        else:
            k = rng.choice(['a', 'r', 'ar', 'ar'])
            if rng.random() < 0.6:
                t = ''
            else:
                tops = [p for p in pool if '/' not in p and not any(q.startswith(p + '/') for q in cur)]   # never a name that currently is a directory: sub-folder input is outside the property
                live = [p for p in tops if p in cur]
                if live and rng.random() < 0.85:
                    t = rng.choice(live)
                elif tops:
                    t = rng.choice(tops)                        # possibly missing: argparse rejects it
                else:
                    t = 'nosuchfile'
            ops.append([k, t, ''])
    return {'tree': {p: h(c) for p, c in tree.items()}, 'ops': ops, 'label': 'modify' if modify else 'main'}


CORPUS = [
    # a whole folder deleted while a sibling folder whose name extends its name still exists: only the deleted folder's rows go
    {'tree': {'sub/x.txt': '41', 'sub/y': '42', 'sub2/k.txt': '43', 'sub_old/deep/q': '44', 'sub/deep/z.txt': '45', 'sub/deep2/r': '46'},
     'ops': [['del', 'sub/x.txt', ''], ['del', 'sub/y', ''], ['del', 'sub/deep/z.txt', ''], ['r', '', '']]},
    {'tree': {'A/b': '41', 'A/b2/c': '42', 'keep': '43'}, 'ops': [['del', 'A/b', ''], ['r', '', ''], ['ar', '', '']]},
    # a deleted file whose name is taken over by a directory: its row must go (the path is not a file any more)
    {'tree': {'sub': '41', 'keep.txt': '42'}, 'ops': [['del', 'sub', ''], ['add', 'sub/x.txt', '43'], ['ar', '', '']]},
    {'tree': {'sub': '41'}, 'ops': [['del', 'sub', ''], ['add', 'sub/deep/z.txt', '43'], ['r', '', '']]},
    # single-file remove must keep the rows of the other files (fixed defect)
    {'tree': {'a.txt': '41', 'b.txt': '4242', 'sub/x.txt': '58'}, 'ops': [['r', 'a.txt', '']]},
    {'tree': {'a.txt': '41', 'b.txt': '4242'}, 'ops': [['del', 'b.txt', ''], ['ar', 'a.txt', '']]},
    # delete, update, re-add with another content: converges (the row was gone)
    {'tree': {'a.txt': '41'}, 'ops': [['del', 'a.txt', ''], ['r', '', ''], ['add', 'a.txt', '42']]},
    # same content re-added while the row is still there: converges
    {'tree': {'a.txt': '41', 'b': ''}, 'ops': [['del', 'a.txt', ''], ['add', 'a.txt', '41']]},
    # append through a single new file, then remove through the folder
    {'tree': {'b': '42'}, 'ops': [['add', 'a.txt', '41'], ['a', 'a.txt', ''], ['a', 'a.txt', ''], ['del', 'b', ''], ['r', '', '']]},
    # EVERY recorded file deleted before the remove pass (archive content replaced / last file deleted): all rows go
    {'tree': {'x.txt': '41', 'y/z.bin': '4242'}, 'ops': [['del', 'x.txt', ''], ['del', 'y/z.bin', ''], ['r', '', '']]},
    {'tree': {'x.txt': '41', 'y/z.bin': '4242'}, 'ops': [['del', 'x.txt', ''], ['del', 'y/z.bin', ''], ['add', 'new/a', '43'], ['add', 'b', '44'], ['ar', '', '']]},
    {'tree': {'only': '41'}, 'ops': [['del', 'only', ''], ['ar', '', '']]},
    # a new file whose path differs from a recorded one by letter case only is a new file (case-sensitive file system)
    {'tree': {'Readme.txt': '41', 'docs/Notes.md': '42'}, 'ops': [['add', 'README.TXT', '43'], ['add', 'DOCS/notes.md', '44'], ['a', '', ''], ['add', 'readme.txt', '45'], ['a', 'readme.txt', '']]},
    # files NAMED like the columns of the database: rows like any other
    {'tree': {'path': '41', 'md5': '42', 'sub/path': '43', 'keep': '44'}, 'ops': [['del', 'md5', ''], ['add', 'size', '45'], ['ar', '', ''], ['a', '', ''], ['del', 'path', ''], ['ar', '', '']]},
    # missing single-file input
    {'tree': {'b': '42'}, 'ops': [['ar', 'a.txt', ''], ['a', 'zz', '']]},
    # empty tree, nested files, walk order (files before sub-directories)
    {'tree': {}, 'ops': [['a', '', ''], ['add', 'sub/deep/z.txt', '41'], ['add', 'sub/y', '42'], ['add', 'sab/w.bin', ''], ['add', 'z', '43'], ['add', 'A', '44'], ['a', '', '']]},
    {'tree': {'ü|n"m.txt': '00ff7c22', ' sp ace.x': '', '.hid': '41', 'c.tar.gz': '4141', 'q.': '42'}, 'ops': [['del', '.hid', ''], ['ar', '', ''], ['add', '.hid', '41'], ['a', '.hid', '']]},
]


def oracle_micro(ctx):
    """The two concrete oracles of the model on their own: extension rule and walk order."""
    rng = ctx.rng
    names = ['a', 'a.b', '.a', '.a.b', '..a', '..a.b', 'a.', 'a..', '...', 'a.b.c', 'd.e/f', 'd.e/.f', 'd/e.f/g.h', 'x/..y', 'x/y.',
             'ü.é', ' . ', 'a.tar.gz', 'd.e/..f.g'] + TOP + NESTED
    alpha = 'ab./. ü'
    for _ in range(400):
        names.append(''.join(rng.choice(alpha) for _ in range(rng.randint(1, 7))).strip('/') or 'a')
    names = [n for n in names if not n.endswith('/') and '//' not in n and not n.startswith('/')]
    outs = ctx.model.run(['hashext ' + hx(n.encode('utf-8')) for n in names])
    for n, o in zip(names, outs):
        ctx.evaluations += 1; ctx.count('oracle=ext')
        want = os.path.splitext(os.path.join('/tmp/x.y', n))[1]
        if unhx(o).decode('utf-8') != want:
            ctx.disagree({'oracle': 'splitext', 'name': n}, unhx(o).decode('utf-8'), want)
    from pyFileFixity.lib.aux_funcs import recwalk
    comp = ['a', 'ab', 'a-b', 'a.b', 'B', 'b', 'ü', 'z', 'a b', '_', '0']
    sets = []
    for _ in range(60 if ctx.tier == 'quick' else 400):
        ps = set()
        for _ in range(rng.randint(0, 9)):
            d = [rng.choice(comp) + 'D' for _ in range(rng.choice([0, 0, 1, 1, 2, 3]))]     # directory names end with D: no clash
            ps.add('/'.join(d + [rng.choice(comp)]))
        sets.append(sorted(ps, key=lambda s: rng.random()))
    outs = ctx.model.run(['hashwalk ' + hxl([p.encode('utf-8') for p in s]) for s in sets])
    base = tempfile.mkdtemp(prefix='pffc16w')
    try:
        for s, o in zip(sets, outs):
            root = os.path.join(base, 't')
            shutil.rmtree(root, ignore_errors=True); os.mkdir(root)
            for p in s:
                os.makedirs(os.path.dirname(os.path.join(root, p)), exist_ok=True)
                open(os.path.join(root, p), 'wb').close()
            want = [os.path.relpath(os.path.join(d, f), root) for d, f in recwalk(root)]
            got = [unhx(x).decode('utf-8') for x in o.split(',')] if o != '.' else []
            ctx.evaluations += 1; ctx.count('oracle=walk')
            if got != want:
                ctx.disagree({'oracle': 'walk', 'paths': s}, got, want)
    finally:
        shutil.rmtree(base, ignore_errors=True)


# exhaustive small space (thorough): all histories of length <= 4 over 2 paths x 2 contents
EX_P1, EX_P2 = 'a.txt', 's/b.dat'
EX_OPS = ([['add', p, c] for p in (EX_P1, EX_P2) for c in ('41', '42')] + [['del', EX_P1, ''], ['del', EX_P2, '']] +
          [[k, t, ''] for k in ('a', 'r', 'ar') for t in ('', EX_P1)])


def ex_valid(cur, op):
    k, p, c = op
    if k == 'add':
        return p not in cur          # add = create (modification in place is not in the alphabet)
    if k == 'del':
        return p in cur
    return True


def exhaustive(ctx, im, depth):
    """Depth-first over real state: each node = one real run from the restored parent state."""
    trees = [{}, {EX_P1: '41', EX_P2: '41'}, {EX_P2: '42'}]
    fresh_cache = {}
    total = 0
    for t0 in trees:
        leaves = []

        def enum(cur, ops):
            if len(ops) == depth:
                leaves.append(list(ops)); return
            for op in EX_OPS:
                if ex_valid(cur, op):
                    nxt = dict(cur)
                    if op[0] == 'add':
                        nxt[op[1]] = op[2]
                    elif op[0] == 'del':
                        del nxt[op[1]]
                    ops.append(op); enum(nxt, ops); ops.pop()
        enum(dict(t0), [])
        outs = ctx.model.run([model_line({'tree': t0, 'ops': l}) for l in leaves])
        models = {tuple(map(tuple, l)): parse_model(o) for l, o in zip(leaves, outs)}
        # real execution, sharing prefixes
        tree = {p: bytes.fromhex(c) for p, c in t0.items()}
        im.set_tree(tree)
        if os.path.exists(im.db):
            os.remove(im.db)
        st0 = im.generate(im.db)
        rows0 = im.rows()

        def restore(tree, dbtext):
            im.set_tree(tree)
            with open(im.db, 'wb') as f:
                f.write(dbtext)

        def fresh_of(tree):
            key = tuple(sorted(tree.items()))
            if key not in fresh_cache:
                # fresh generation of this tree (tree on disk is current)
                gst = im.generate(im.db2)
                fresh_cache[key] = im.rows(im.db2) if gst == 0 else [('GENFAILED', gst)]
            return fresh_cache[key]

        def apply(tree, rows, stale, op, stepno, fails):
            """runs op on the current real state; returns (tree', rows', stale', status)"""
            k, p, c = op
            if k == 'add':
                cb = bytes.fromhex(c)
                stale2 = stale | {p} if any(r[0] == p and r != fresh_row(p, cb) for r in rows) else stale
                im.add(p, cb)
                t2 = dict(tree); t2[p] = cb
                return t2, rows, stale2, 0
            if k == 'del':
                im.delete(p)
                t2 = dict(tree); del t2[p]
                return t2, rows, stale, 0
            st = im.update(k, p)
            rows2 = im.rows()
            for e in pred_step(k, p, tree, rows, rows2, st):
                fails.append({'kind': 'step', 'step': stepno, 'op': [k, p], 'what': e})
            if k == 'ar' and p == '':
                d = pred_converge(tree, rows2, fresh_of(tree))
                if d is not None:
                    d.update({'kind': 'converge', 'step': stepno, 'stale_paths': sorted(stale)})
                    fails.append(d)
            return tree, rows2, stale, st

        def report(ops, states, fails):
            nonlocal total
            total += 1
            case = {'tree': t0, 'ops': [list(o) for o in ops], 'label': 'exhaustive'}
            ctx.evaluations += 1
            ctx.count('stream=exhaustive')
            if any(a[1] != b[1] for a, b in zip(states, states[1:])):
                ctx.nontriv((tuple(sorted(t0.items())), tuple(map(tuple, ops))))
            impl, mod = canon_states(states), canon_states(models[tuple(map(tuple, ops))])
            if impl != mod:
                i = next((j for j, (a, b) in enumerate(zip(impl, mod)) if a != b), 0)
                ctx.disagree(case, {'first_difference_at_state': i, 'model': mod[i:i + 1]}, {'impl': impl[i:i + 1]})
            elif not fails:
                ctx.traces += 1
            record_failures(ctx, case, fails)

        def dfs(tree, rows, stale, ops, states, fails):
            if len(ops) == depth:
                with open(im.db, 'rb') as f:
                    dbtext = f.read()
                f2 = list(fails)
                _, rows2, _, st = apply(tree, rows, stale, ['ar', '', ''], depth + 1, f2)
                report(ops, states + [(st, rows2)], f2)
                with open(im.db, 'wb') as f:
                    f.write(dbtext)
                return
            with open(im.db, 'rb') as f:
                dbtext = f.read()
            tdict = {p: c.hex() for p, c in tree.items()}
            first = True
            for op in EX_OPS:
                if not ex_valid(tdict, op):
                    continue
                if not first:
                    restore(tree, dbtext)
                first = False
                f2 = list(fails)
                t2, r2, s2, st = apply(tree, rows, stale, op, len(ops) + 1, f2)
                dfs(t2, r2, s2, ops + [op], states + [(st, r2)], f2)
            restore(tree, dbtext)

        dfs(tree, rows0, frozenset(), [], [(st0, rows0)], [])
    ctx.extra['exhaustive_histories'] = total
    ctx.extra['exhaustive_depth'] = depth


def run(ctx):
    from props import cli_proc
    cli_proc.stream(ctx, ['C16', 'C16@hash', 'C16-relsingle'])
    rng = ctx.rng
    im = Impl()
    try:
        check_cases(ctx, im, [dict(c, label='corpus') for c in CORPUS])
        oracle_micro(ctx)
        n = 500 if ctx.tier == 'quick' else 5000
        check_cases(ctx, im, [gen_history(rng) for _ in range(n)])
        check_cases(ctx, im, [gen_history(rng, modify=True) for _ in range(n // 5)])
        # short exhaustive space: depth 3 in the quick tier, depth 4 in the thorough tier
        exhaustive(ctx, im, 3 if ctx.tier == 'quick' else 4)
        ctx.extra['rfigc_main_runs'] = im.ncall
    finally:
        im.close()


def replay_case(ctx, case):
    if isinstance(case, dict) and case.get('kind') == 'cli-process':
        from props import cli_proc
        return cli_proc.replay(case)
    im = Impl()
    try:
        states, fails = run_history(im, case)
        model = parse_model(ctx.model.run([model_line(case)])[0])
        impl, mod = canon_states(states), canon_states(model)
        unexplained = [d for d in fails]
        return {'holds': not fails, 'property_failures': fails, 'classified_as': [classify(case, d) for d in fails],
                'model_agrees': impl == mod, 'implementation_states': impl, 'model_states': mod}
    finally:
        im.close()


def shrink(ctx, case):
    if isinstance(case, dict) and case.get('kind') == 'cli-process':
        return case
    im = Impl()
    try:
        def sig(c):
            try:
                _, fails = run_history(im, c)
            except Exception:
                return None
            return sorted(set((d['kind'], classify(c, d)) for d in fails))
        want = sig(case)
        if not want:
            return case
        cur = {'tree': dict(case['tree']), 'ops': [list(o) for o in case['ops']]}

        def valid(c):
            live = set(c['tree'])
            for k, p, _ in c['ops']:
                if k == 'add':
                    if p in live and case.get('label') != 'modify':
                        return False
                    live.add(p)
                elif k == 'del':
                    if p not in live:
                        return False
                    live.discard(p)
            return True
        improved = True
        while improved:
            improved = False
            cands = []
            for i in range(len(cur['ops'])):
                cands.append({'tree': cur['tree'], 'ops': cur['ops'][:i] + cur['ops'][i + 1:]})
            for p in list(cur['tree']):
                t = dict(cur['tree']); del t[p]
                cands.append({'tree': t, 'ops': cur['ops']})
            for c in cands:
                if valid(c) and any(s in want for s in (sig(c) or [])):
                    cur, improved = c, True
                    break
        if 'label' in case:
            cur['label'] = case['label']
        return cur
    finally:
        im.close()
