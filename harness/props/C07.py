# C07 — replica trees are aligned.  Correspondence of Walk.v / Merge.v with recwalk, sort_dict_of_paths,
# sort_group and `pff dup` (replication_repair.main / synchronize_files) on real directories, and the property
# predicate (union of paths; each path processed once over exactly its holders; majority-intact files restored)
# evaluated on the implementation's own report, output tree and exit status.
import common
import csv, io, itertools, json, os, shutil, sys, tempfile
from common import hx, hxl, unhx

RULE = ('real directory trees in temp dirs. (a) exhaustive: every presence pattern of every path of fixed mixed-depth universes '
        '(2..4 paths, incl. the a/b/f + c/g witness shape) over 3 replicas, and of 2-path universes over 4 and 5 replicas; '
        '(b) random: universes of 1..8 paths drawn from random trees of depth 0..3 whose names come from a pool built to sort '
        'before/after sibling directory names (upper/lower case, prefixes "a" / "a.txt" / "a b", characters below "/", non-ASCII), '
        '3..5 replicas, random presence, damaged / truncated / extended copies, empty directories, several replica orders per layout; '
        'run through replication_repair.main (-i .. -o .. --report .. -f --silent) or synchronize_files; observables: report rows in '
        'order with per-replica marks and error code, output tree paths and bytes, exit status; compared with the extracted '
        'Merge.sync on the same replicas. (c) recwalk+relpath_posix vs Walk.walk on each replica; (d) sort_dict_of_paths and '
        'sort_group (both modes) on random dicts incl. None and already-padded values vs the model; (e) on every generated tree '
        'the walk order of every pair of its files must be the order sort_dict_of_paths gives that pair. '
        'non-trivial = layout in which some path is missing from some replica and paths have different depths; distinct by '
        '(replica path sets in order).')
TRUSTED_EXTRA = ['modelled: aux_funcs.recwalk(sorting=True) + relpath_posix (Walk.walk: files sorted, then sub-directories sorted, '
                 'depth first), replication_repair.sort_dict_of_paths / sort_group (key, stable sort, grouping; padding modelled for '
                 'the stand-alone functions and proved invisible to the key), synchronize_files (curfiles / recgen_exhausted / '
                 'count data flow, copy vs vote branch); database branch (-d) not modelled; names are UTF-8 byte strings compared '
                 'bytewise (= Python code point order)',
                 'the filesystem: os.walk lists exactly the files created; shutil.copyfile copies bytes']
ASSUMPTIONS = ['no name is a directory in one replica and a file in another (excluded by the property); input folders are directories',
               'file names are non-empty, contain no "/" and are valid UTF-8 (PurePath never yields an empty part)']

NAME_POOL = ['a', 'a.txt', 'a b', 'a-', 'a!', 'ab', 'A', 'B', 'Z', 'b', 'c', 'f', 'g', 'z', '_', '0', '9', 'sub', 'relative',
             'zzzz.ext', 'b.d', 'b d', '~', 'é', 'aé', '€', 'aa', 'a.', '.a', '-', 'x.y.z', '..old', '...']


# ------------------------------------------------------------------ helpers
def enc(p):
    return p.encode('utf-8')


def make_tree(root, files, dirs=()):
    os.makedirs(root, exist_ok=True)
    for d in dirs:
        os.makedirs(os.path.join(root, *d.split('/')), exist_ok=True)
    for p, c in files.items():
        fp = os.path.join(root, *p.split('/'))
        os.makedirs(os.path.dirname(fp), exist_ok=True)
        with open(fp, 'wb') as f:
            f.write(c)


def read_tree(root):
    out = {}
    for dp, dn, fn in os.walk(root):
        for f in fn:
            fp = os.path.join(dp, f)
            out[os.path.relpath(fp, root).replace(os.sep, '/')] = open(fp, 'rb').read()
    return out


def vote_spec(copies):
    """C06's clause, straight from its statement: >= 3 copies plurality per offset (first value among the most frequent),
    status 1 iff some offset reached by >= 2 copies has all values distinct; 2 copies: the first, status 1; 1 copy: itself."""
    if len(copies) == 1:
        return copies[0], 0
    if len(copies) < 3:
        return copies[0], 1
    n = max(len(c) for c in copies)
    out, status = bytearray(), 0
    for i in range(n):
        col = [c[i] for c in copies if i < len(c)]
        best = max(col.count(v) for v in col)
        out.append(next(v for v in col if col.count(v) == best))
        if len(col) >= 2 and len(set(col)) == len(col):
            status = 1
    return bytes(out), status


ROOT_NAMES = ['r%d', 'r%d', 'mirror-$HOME-%d', 'rep ${PATH} %d', '~rep%d', 'r\xe9plica %d', '%%TEMP%%%d', 'r%d']
_RUNS = [0]


def run_impl(replicas, dirs, via):
    """replicas: list of {relpath: bytes}; dirs: list of lists of extra (possibly empty) directories.
    Returns the observables of one `pff dup` run."""
    from pyFileFixity import replication_repair as rep
    d = tempfile.mkdtemp(prefix='pffc07')
    cwd = os.getcwd()
    try:
        ins = []
        for i, r in enumerate(replicas):
            # replica folders under ordinary and under shell-looking names ($VAR, ${VAR}, ~, %VAR%: ordinary characters of a folder name
            # once the shell has handed the argument over)
            _RUNS[0] += 1
            root = os.path.join(d, ROOT_NAMES[(i + _RUNS[0]) % len(ROOT_NAMES)] % i)
            make_tree(root, r, dirs[i] if dirs else ())
            ins.append(root)
        out = os.path.join(d, 'out')
        os.chdir(d)
        so, se = sys.stdout, sys.stderr
        try:
            sys.stdout = io.StringIO()
            try:
                if via == 'main':
                    rc = rep.main(['-i'] + ins + ['-o', out, '--report', 'report.csv', '-f', '--silent'] + (['-v'] if common.every_fourth() else []))
                else:
                    rc = rep.synchronize_files(ins, out, report_file='report.csv', ptee=io.StringIO())
            except BaseException as e:  # an escaping exception is an observable
                if isinstance(e, KeyboardInterrupt):
                    raise
                return {'exc': repr(e)}
        finally:
            sys.stdout, sys.stderr = so, se
        rows = []
        with open(os.path.join(d, 'report.csv'), 'r', newline='', encoding='utf-8') as f:
            txt = f.read()
        body = txt.split('\n\n=> Input directories:')[0]
        rd = list(csv.reader(io.StringIO(body), delimiter='|', lineterminator='\n', quotechar='"'))
        n = len(replicas)
        for r in rd[1:]:
            if not r:
                continue
            rows.append([r[0], r[1:1 + n], r[-2]])
        return {'rc': rc, 'rows': rows, 'tree': read_tree(out) if os.path.isdir(out) else {}}
    finally:
        os.chdir(cwd)
        shutil.rmtree(d, ignore_errors=True)


def predicate(replicas, obs):
    """The property, written from its statement.  Returns a list of reasons it fails (empty = holds)."""
    bad = []
    if 'exc' in obs:
        return ['run raised ' + obs['exc']]
    n = len(replicas)
    union = set()
    for r in replicas:
        union |= set(r)
    # output tree: relative paths exactly the union
    if set(obs['tree']) != union:
        bad.append('output paths %r != union %r' % (sorted(obs['tree']), sorted(union)))
    # every path is processed once, over exactly the replicas that contain it
    seen = [r[0] for r in obs['rows']]
    for p in sorted(union):
        if seen.count(p) != 1:
            bad.append('path %r processed %d times' % (p, seen.count(p)))
    for p in seen:
        if p not in union:
            bad.append('processed path %r not in any replica' % p)
    for path, marks, code in obs['rows']:
        holders = [i for i in range(n) if path in replicas[i]]
        used = [i for i in range(n) if marks[i] != '-']
        if used != holders:
            bad.append('path %r used replicas %r, holders %r' % (path, used, holders))
    # each output file is the vote of all its copies together (fewer than 3: first copy, C06's clause)
    for p in sorted(union):
        copies = [replicas[i][p] for i in range(n) if p in replicas[i]]
        want, _ = vote_spec(copies)
        got = obs['tree'].get(p)
        if got != want:
            bad.append('output %r = %r, vote of its %d copies = %r' % (p, got, len(copies), want))
        # consequence: >= 3 holders, a strict majority byte-identical to one value and no copy longer => that value
        if len(copies) >= 3:
            for c in set(copies):
                if 2 * copies.count(c) > len(copies) and max(len(x) for x in copies) == len(c) and got != c:
                    bad.append('majority-intact file %r not restored' % p)
    return bad


def expected_rc(replicas):
    union = set()
    for r in replicas:
        union |= set(r)
    rc = 0
    for p in union:
        copies = [r[p] for r in replicas if p in r]
        if vote_spec(copies)[1]:
            rc = 1
    return rc


def model_line(replicas, dirs):
    args = []
    for i, r in enumerate(replicas):
        ps = [enc(p) for p in r] + [enc(x + '/') for x in (dirs[i] if dirs else ())]
        cs = [r[p] for p in r] + [b'' for _ in (dirs[i] if dirs else ())]
        args.append(hxl(ps))
        args.append(hxl(cs))
    return 'sync 65535 ' + ' '.join(args)


def parse_model(line):
    rows_s, outcome, rc = line.split(' ')
    rows = []
    if rows_s != '.':
        for r in rows_s.split(';'):
            p, hs, c, s = r.split(':')
            rows.append([unhx(p).decode('utf-8'), [] if hs == '.' else [int(x) for x in hs.split(',')], unhx(c), int(s)])
    return rows, int(outcome), int(rc)


def canon_impl(obs, n):
    if 'exc' in obs:
        return ['EXC', obs['exc']]
    rows = [[p, [i for i in range(n) if m[i] != '-'], 1 if code == 'KO' else 0] for p, m, code in obs['rows']]
    return {'rows': rows, 'tree': {k: v.hex() for k, v in sorted(obs['tree'].items())}, 'rc': obs['rc']}


def canon_model(m):
    rows, outcome, rc = m
    if outcome != 0:
        return ['MODEL-OUTCOME', outcome]
    tree = {}
    for p, hs, c, s in rows:
        tree[p] = c.hex()          # a later row overwrites an earlier one, as on disk
    return {'rows': [[p, hs, s] for p, hs, c, s in rows], 'tree': dict(sorted(tree.items())), 'rc': rc}


def case_of(replicas, dirs, via):
    return {'kind': 'sync', 'via': via, 'replicas': [{p: c.hex() for p, c in r.items()} for r in replicas],
            'dirs': [list(x) for x in dirs] if dirs else None}


def uncase(case):
    reps = [{p: bytes.fromhex(c) for p, c in r.items()} for r in case['replicas']]
    return reps, case.get('dirs'), case.get('via', 'main')


def mixed_depth(replicas):
    depths = set()
    for r in replicas:
        for p in r:
            depths.add(p.count('/'))
    return len(depths) > 1


def check_sync_batch(ctx, batch):
    """batch: list of (replicas, dirs, via)."""
    outs = ctx.model.run([model_line(r, d) for r, d, v in batch])
    for (replicas, dirs, via), mo in zip(batch, outs):
        n = len(replicas)
        obs = run_impl(replicas, dirs, via)
        ctx.evaluations += 1
        case = case_of(replicas, dirs, via)
        ci, cm = canon_impl(obs, n), canon_model(parse_model(mo))
        if ci != cm:
            ctx.disagree(case, cm, ci)
        bad = predicate(replicas, obs)
        if not bad and 'exc' not in obs and obs['rc'] != expected_rc(replicas):
            # exit status is C06's clause; a wrong one with everything else right is reported as a correspondence matter only
            ctx.count('rc_differs_from_vote_status')
        if bad:
            ctx.fail(case, {'reasons': bad[:6], 'observed': ci})
        else:
            ctx.traces += 1
        union = set().union(*[set(r) for r in replicas]) if replicas else set()
        partial = any(p not in r for r in replicas for p in union)
        if partial and mixed_depth(replicas):
            ctx.nontriv(tuple(tuple(sorted(r)) for r in replicas))
        ctx.count('replicas=%d' % n)
        ctx.count('paths=%d' % len(union))
        ctx.count('via=' + via)
        ctx.count('maxdepth=%d' % max([p.count('/') for p in union] + [0]))
        if partial and mixed_depth(replicas):
            ctx.sample({'replicas': [sorted(r) for r in replicas], 'report_paths': [r[0] for r in obs.get('rows', [])],
                        'rc': obs.get('rc')}, cap=4)


# ------------------------------------------------------------------ walk / order
def impl_walk(root):
    from pyFileFixity.lib.aux_funcs import recwalk
    from pyFileFixity.replication_repair import relpath_posix
    return ['/'.join(relpath_posix(x, root)[1]) for x in recwalk(root, sorting=True)]


def impl_pair_lt(p, q):
    """does sort_dict_of_paths put p strictly before q ?  (asked both ways round)"""
    from pyFileFixity.replication_repair import sort_dict_of_paths
    a = [k for k, _ in sort_dict_of_paths({0: p.split('/'), 1: q.split('/')})]
    b = [k for k, _ in sort_dict_of_paths({0: q.split('/'), 1: p.split('/')})]
    return a == [0, 1] and b == [1, 0]


def check_walk(ctx, files, dirs):
    """files: list of relpaths, dirs: extra directories.  recwalk vs model; pair order vs sort_dict_of_paths."""
    d = tempfile.mkdtemp(prefix='pffc07w')
    case = {'kind': 'walk', 'files': list(files), 'dirs': list(dirs)}
    try:
        make_tree(os.path.join(d, 'r'), {p: b'' for p in files}, dirs)
        try:
            w = impl_walk(os.path.join(d, 'r'))
        except Exception as e:
            w = ['EXC', repr(e)]
    finally:
        shutil.rmtree(d, ignore_errors=True)
    m = ctx.model.run(['walk ' + hxl([enc(p) for p in files] + [enc(x + '/') for x in dirs])])[0]
    mw = [] if m == '.' else [unhx(x).decode('utf-8') for x in m.split(',')]
    ctx.evaluations += 1
    ctx.count('walk_cases')
    if mw != w:
        ctx.disagree(case, mw, w, 'Walk.walk != recwalk')
    # property side: the walk lists every file once, and the comparison used by the merge orders every pair as the walk does
    bad = []
    if sorted(w) != sorted(files):
        bad.append('recwalk returned %r for files %r' % (w, sorted(files)))
    else:
        for i in range(len(w)):
            for j in range(i + 1, len(w)):
                try:
                    ok = impl_pair_lt(w[i], w[j])
                except Exception as e:
                    ok = False
                if not ok:
                    bad.append('walk yields %r before %r but sort_dict_of_paths does not order them so' % (w[i], w[j]))
    if bad:
        ctx.fail(case, {'reasons': bad[:6]})
    else:
        ctx.traces += 1


# ------------------------------------------------------------------ sort_dict_of_paths / sort_group
def dict_lines(d, mode):
    present = ','.join('1' if v is not None else '0' for v in d)
    paths = hxl([enc('/'.join(v)) if v is not None else b'' for v in d])
    if mode == 'dict':
        return 'sortdict %s %s' % (present, paths)
    return 'sortgroup %d %s %s' % (1 if mode == 'first' else 0, present, paths)


def impl_dict(d, mode):
    from pyFileFixity import replication_repair as rep
    dd = {i: (list(v) if v is not None else None) for i, v in enumerate(d)}
    try:
        if mode == 'dict':
            return [[k, v] for k, v in rep.sort_dict_of_paths(dd)]
        r = rep.sort_group(dd, return_only_first=(mode == 'first'))
        return None if r is None else [[[k, v] for k, v in g] for g in r]
    except Exception as e:
        return ['EXC', repr(e)]


def parse_dict_model(line, mode):
    def parts(h):
        return unhx(h).decode('utf-8').split('/')
    if mode == 'dict':
        if line == '.':
            return []
        out = []
        for it in line.split(','):
            i, b, p = it.split(':')
            out.append([int(i), parts(p) if b == '1' else None])
        return out
    if line == 'None':
        return None
    return [[[int(it.split(':')[0]), parts(it.split(':')[1])] for it in g.split(',')] for g in line.split(';')]


def strip_pad(v):
    v = list(v)
    while len(v) > 1 and v[0] == '':
        v.pop(0)
    return v


def dict_predicate(d, mode, got):
    """sort_dict_of_paths: a permutation of the items, every value left-padded with '' to the common length, in walk
    order of the unpadded paths ((directory parts, name), None first), equal paths in key order.
    sort_group: the non-None items in that order, cut into maximal runs of equal paths (only the first when asked)."""
    if isinstance(got, list) and got and got[0] == 'EXC':
        return ['raised ' + got[1]]
    live = [(i, strip_pad(v)) for i, v in enumerate(d) if v is not None]
    if mode != 'dict' and not live:
        return [] if got is None else ['expected None, got %r' % (got,)]
    k = max([len(v) for v in d if v is not None] + [0])
    key = lambda iv: (iv[1][:-1], iv[1][-1])
    order = sorted(live, key=key)
    padded = [[i, [''] * (k - len(d[i])) + list(d[i])] for i, _ in order]
    if mode == 'dict':
        nones = [[i, None] for i, v in enumerate(d) if v is None]
        return [] if got == nones + padded else ['expected %r, got %r' % (nones + padded, got)]
    groups = []
    for (i, v), it in zip(order, padded):
        if groups and groups[-1][0] == v:
            groups[-1][1].append(it)
        else:
            groups.append((v, [it]))
    want = [g for _, g in groups]
    if mode == 'first':
        want = want[:1]
    return [] if got == want else ['expected %r, got %r' % (want, got)]


def check_dict_batch(ctx, batch):
    """batch: list of (d, mode), d = list of (list of parts | None)."""
    outs = ctx.model.run([dict_lines(d, m) for d, m in batch])
    for (d, mode), mo in zip(batch, outs):
        case = {'kind': 'dict', 'mode': mode, 'd': d}
        impl = impl_dict(d, mode)
        try:
            model = parse_dict_model(mo, mode)
        except Exception as e:
            model = ['MODEL', mo]
        ctx.evaluations += 1
        ctx.count('dict_mode=' + mode)
        if impl != model:
            ctx.disagree(case, model, impl, 'sort model != implementation')
        bad = dict_predicate(d, mode, impl)
        if bad:
            ctx.fail(case, {'reasons': bad})
        else:
            ctx.traces += 1


# ------------------------------------------------------------------ generators
def gen_tree(rng, names, depth, maxfiles):
    """random set of file paths with no directory/file name clash; returns (files, empty_dirs)."""
    files, dirs = [], []

    def rec(prefix, dep):
        k = rng.choice([1, 2, 2, 3, 4])
        ns = rng.sample(names, min(k, len(names)))
        for nm in ns:
            if dep < depth and rng.random() < 0.45:
                before = len(files)
                rec(prefix + [nm], dep + 1)
                if len(files) == before:
                    dirs.append('/'.join(prefix + [nm]))
            else:
                files.append('/'.join(prefix + [nm]))
    rec([], 0)
    rng.shuffle(files)
    files = files[:maxfiles]
    keep = set()
    for f in files:
        parts = f.split('/')
        for i in range(1, len(parts)):
            keep.add('/'.join(parts[:i]))
    dirs = [x for x in dirs if all(not (f == x or f.startswith(x + '/')) for f in files)]
    return files, dirs


def gen_contents(rng, n_holders):
    L = rng.choice([0, 1, 3, 8, 20])
    orig = bytes(rng.randrange(97, 123) for _ in range(L))
    cs = []
    nbad = rng.choice([0, 0, 1, 1, 2, n_holders])
    badset = set(rng.sample(range(n_holders), min(nbad, n_holders)))
    for i in range(n_holders):
        c = bytearray(orig)
        if i in badset:
            m = rng.random()
            if m < 0.5 and c:
                for _ in range(rng.choice([1, 2])):
                    c[rng.randrange(len(c))] = rng.randrange(65, 91)
            elif m < 0.75:
                c = c[:rng.randrange(len(c) + 1)]
            else:
                c += bytes(rng.randrange(48, 58) for _ in range(rng.choice([1, 4])))
        cs.append(bytes(c))
    return cs


def layout(rng, universe, n, presence=None):
    """replicas for a universe of paths and a presence pattern (list of holder index tuples)."""
    replicas = [dict() for _ in range(n)]
    for k, p in enumerate(universe):
        if presence is not None:
            hs = list(presence[k])
        else:
            m = rng.choice([1, 2, 3, 3, n, n])
            hs = sorted(rng.sample(range(n), min(m, n)))
        cs = gen_contents(rng, len(hs))
        for i, c in zip(hs, cs):
            replicas[i][p] = c
    return replicas


FIXED_UNIVERSES = [
    ['a/b/f', 'c/g'],
    ['f', 'a/f', 'a/b/f'],
    ['a b/x', 'a.txt', 'a/x'],
    ['Z', 'a/Z', 'B/a', 'b'],
    ['sub/deep/er/f', 'sub/f', 'z'],
]


def subsets(n):
    return [tuple(i for i in range(n) if m >> i & 1) for m in range(1, 1 << n)]


def run(ctx):
    rng = ctx.rng
    utf8 = sys.getfilesystemencoding().lower().replace('-', '') == 'utf8'
    names = [x for x in NAME_POOL if utf8 or all(ord(ch) < 128 for ch in x)]
    ctx.extra['fs_encoding'] = sys.getfilesystemencoding()
    # ---- (1) corpus: the known witness and earlier minimised shapes
    wit = [{'a/b/f': b'hello', 'c/g': b'hello'}, {'c/g': b'hello'}, {'c/g': b'hellp'}]
    corpus = [(wit, None, 'main'), (wit, None, 'func'),
              ([{'c/g': b'x'}, {'a/b/f': b'y', 'c/g': b'x'}, {'c/g': b'x'}], None, 'main'),
              ([{}, {}, {}], None, 'main'),
              ([{'..old/c.txt': b'one', 'c.txt': b'two', '..old/deep/d.bin': b'three', '.../x': b'four'},
                {'..old/c.txt': b'one', 'c.txt': b'twO', '..old/deep/d.bin': b'three', '.../x': b'four'},
                {'..old/c.txt': b'onE', 'c.txt': b'two', '..old/deep/d.bin': b'three', '.../x': b'four'}], None, 'main'),
              ([{'f': b'abc'}, {}, {'f': b'abd'}, {'f': b'abc'}], [['e'], ['e/e2'], [], []], 'main'),
              ([{'a b/x': b'1', 'a.txt': b'2'}, {'a/x': b'3', 'a.txt': b'2'}, {'a.txt': b'9', 'a b/x': b'1'}], None, 'func')]
    check_sync_batch(ctx, corpus)
    check_dict_batch(ctx, [([['testoo.TXT'], ['testoo.TXT'], ['testbb-more.TXT'], ['sub', 'testsub.TXT']], 'dict'),
                           ([['relative', 'path', 'file.ext'], ['relative', 'path', 'file.ext'], ['relative', 'aaa', 'zzzz.ext'],
                             ['zzzz.ext'], ['relative', 'zzzz.ext'], ['relative', 'path', 'bbbb.ext']], 'all'),
                           ([['', 'c', 'g'], ['a', 'b', 'f'], None, ['c', 'g']], 'first'),
                           ([None, None], 'first'), ([None, ['x']], 'dict')])
    check_walk(ctx, ['a/b/f', 'c/g', 'a.txt', 'a b/x', 'B', 'b', 'a/Z'], ['e', 'a/b/emp'])
    # ---- (2) exhaustive presence patterns over fixed mixed-depth universes
    batch = []
    quick = ctx.tier == 'quick'
    for U in FIXED_UNIVERSES:
        if quick and len(U) > 3:
            continue
        pats = list(itertools.product(subsets(3), repeat=len(U)))
        if quick and len(pats) > 343:
            pats = rng.sample(pats, 343)
        for pr in pats:
            batch.append((layout(rng, U, 3, pr), None, 'func'))
    for n in (4, 5):
        pats = list(itertools.product(subsets(n), repeat=2))
        if quick:
            pats = rng.sample(pats, 150)
        for pr in pats:
            batch.append((layout(rng, FIXED_UNIVERSES[0], n, pr), None, 'func'))
    if not quick:
        pats = list(itertools.product(subsets(4), repeat=3))
        for pr in rng.sample(pats, 1500):
            batch.append((layout(rng, FIXED_UNIVERSES[1], 4, pr), None, 'func'))
    ctx.extra['exhaustive_presence_cases'] = len(batch)
    for i in range(0, len(batch), 500):
        check_sync_batch(ctx, batch[i:i + 500])
    # ---- (3) random layouts, several replica orders each
    nlay = 140 if quick else 1500
    batch = []
    for _ in range(nlay):
        n = rng.choice([3, 3, 4, 5])
        files, edirs = gen_tree(rng, names, rng.choice([0, 1, 2, 2, 3]), rng.choice([1, 2, 4, 6, 8]))
        replicas = layout(rng, files, n)
        dirs = [[x for x in edirs if rng.random() < 0.4] for _ in range(n)]
        if rng.random() < 0.1:
            replicas[rng.randrange(n)] = {}
        orders = [list(range(n))]
        if n == 3 and not quick:
            orders = [list(p) for p in itertools.permutations(range(3))]
        else:
            for _ in range(2 if quick else 4):
                o = list(range(n)); rng.shuffle(o); orders.append(o)
        for o in orders:
            batch.append(([replicas[i] for i in o], [dirs[i] for i in o], 'main' if rng.random() < 0.3 else 'func'))
        # (c)+(e): the walk of every replica and the pair order
        for i in range(min(n, 2 if quick else n)):
            check_walk(ctx, list(replicas[i]), dirs[i])
    for i in range(0, len(batch), 500):
        check_sync_batch(ctx, batch[i:i + 500])
    # one larger tree: walk order vs comparison on all pairs
    for _ in range(3 if quick else 30):
        files, edirs = gen_tree(rng, names, 3, 40)
        check_walk(ctx, files, edirs)
    # ---- (4) sort_dict_of_paths / sort_group on random dicts
    batch = []
    for _ in range(600 if quick else 8000):
        files, _ = gen_tree(rng, names, rng.choice([0, 1, 2, 3]), 6)
        k = rng.choice([1, 2, 3, 5, 6])
        d = []
        for _ in range(k):
            r = rng.random()
            if r < 0.15:
                d.append(None)
            else:
                v = rng.choice(files).split('/')
                if r < 0.4:
                    v = [''] * rng.choice([1, 2]) + v      # a value padded by an earlier call
                d.append(v)
        batch.append((d, rng.choice(['dict', 'first', 'all'])))
    check_dict_batch(ctx, batch)


def replay_case(ctx, case):
    kind = case.get('kind', 'sync')
    if kind == 'sync':
        replicas, dirs, via = uncase(case)
        obs = run_impl(replicas, dirs, via)
        bad = predicate(replicas, obs)
        m = canon_model(parse_model(ctx.model.run([model_line(replicas, dirs)])[0]))
        return {'holds': not bad, 'reasons': bad[:6], 'implementation': canon_impl(obs, len(replicas)), 'model': m}
    if kind == 'walk':
        sub = type(ctx)(ctx.prop, ctx.tier, ctx.seed)
        check_walk(sub, case['files'], case['dirs'])
        return {'holds': not sub.prop_failures, 'reasons': [f['detail'] for f in sub.prop_failures],
                'disagreements': sub.disagreements}
    if kind == 'dict':
        impl = impl_dict(case['d'], case['mode'])
        bad = dict_predicate(case['d'], case['mode'], impl)
        mo = ctx.model.run([dict_lines(case['d'], case['mode'])])[0]
        return {'holds': not bad, 'reasons': bad, 'implementation': impl, 'model': mo}
    return {'holds': False, 'error': 'unknown case kind %r' % kind}


def shrink(ctx, case):
    if case.get('kind', 'sync') != 'sync':
        return case

    def bad(c):
        reps, dirs, via = uncase(c)
        return bool(predicate(reps, run_impl(reps, dirs, via)))
    cur = json.loads(json.dumps(case))
    improved = True
    while improved:
        improved = False
        cands = []
        reps = cur['replicas']
        if cur.get('dirs') and any(cur['dirs']):
            cands.append(dict(cur, dirs=None))
        if len(reps) > 3:
            for i in range(len(reps)):
                cands.append(dict(cur, replicas=reps[:i] + reps[i + 1:], dirs=None))
        paths = sorted(set().union(*[set(r) for r in reps]))
        for p in paths:
            cands.append(dict(cur, replicas=[{k: v for k, v in r.items() if k != p} for r in reps]))
        for i, r in enumerate(reps):
            for p in r:
                cands.append(dict(cur, replicas=reps[:i] + [{k: v for k, v in r.items() if k != p}] + reps[i + 1:]))
        if any(v != '61' for r in reps for v in r.values()):
            cands.append(dict(cur, replicas=[{k: '61' for k in r} for r in reps]))
        for c in cands:
            try:
                if bad(c):
                    cur, improved = c, True
                    break
            except Exception:
                pass
    return cur


def classify(case, detail):
    return None
