# C05 — hash audit (rfigc generation + check mode): correspondence of HashChk.v with the real
# `rfigc.main` on real temp trees, and the property predicate evaluated on the tool's own output.
import common
import copy, json, os, shutil, tempfile
from props import hashchk_lib as L
from props.hashchk_lib import HarnessError

RULE = ('one evaluation = one real `pff hash` run (generation or check) on a real temp tree, compared with the extracted '
        'model and with the property predicate. Trees: 0..7 files, depth 0..3, names over printable Unicode incl. | " '
        'blanks, leading/trailing blanks and dots, backslash, non-ASCII, same basename at several depths; sizes 0,1,2,.. '
        '65535/65536/65537/131072/200001. Mutations (0..5 per tree, composed): bit flip at offsets {0, last, 65535, 65536, '
        '65537, random} with size and mtime restored, same-size rewrite, append, truncate, delete, rename, touch (>= 2 s; '
        'separately labelled stream: |shift| <= 1 s incl. 1 ns, 0.25 s, 0.5 s, exactly 1 s), new unrecorded files, file '
        'replaced by a directory. Runs per tree: default options + option combinations of -m/--skip_missing/--skip_hash '
        '(all 8 in the thorough tier) + single-file inputs (top-level, nested, unrecorded); root in place / copied then '
        'mutated / mutated then copied / renamed; with and without -e. Observables: return value, errors csv rows '
        '(path, error kinds), "- Error for file" log lines. non-trivial = run on a tree with >= 1 mutation; distinct by '
        '(tree, mutations, run configuration).')
TRUSTED_EXTRA = ['modelled: rfigc.main generation branch (default options) and check branch (-m, --skip_missing, --skip_hash, '
                 'single-file filter, errors csv, return value); hashlib md5/sha1, csv, os.stat/utime, shutil are oracles: '
                 'digests are measured on the real bytes and handed to the model as a table',
                 'error kinds are read from the errors csv / log messages by a fixed grammar (harness/props/hashchk_lib.py MSG_TOKENS)']
ASSUMPTIONS = ['md5+sha1 do not collide simultaneously on (recorded content, current content) of a path (premise of C05_exact; '
               'the harness compares bytes, a collision would show as a property failure)',
               '"modification time changed": equal float st_mtime is unchanged, a shift of more than 1 s is a change (both proved for the '
               'code\'s rule, C05_mtime_rule); for a shift of at most 1 s the statement fixes no granularity: the predicate accepts either '
               'verdict, the code\'s rule (rfigc.py:573, different AND different after rounding to the second, half to even) is what the '
               'theorems state and what the correspondence pins on a separately labelled stream',
               'file names: str.isprintable(), no "/", NUL; mtimes between 1978 and 2038 (floats exact in 2^-24 s)',
               'the database file lives outside the audited tree; files are regular readable files (no structure check -s)',
               'single-file input: the file exists (argparse rejects a missing input path)']

KINDS = {1: 'missing', 2: 'both-hashes', 3: 'one-hash', 4: 'ext', 5: 'size', 6: 'mtime'}
ROOT_NAMES = ['T', 'T', 'ro ot', 'r|"é', 'x.d', '-r']
BIG = [65535, 65536, 65537, 131072, 200001]


# ---------------------------------------------------------------- mutations on disk
def apply_mut(root, m):
    op = m[0]
    p = os.path.join(root, m[1])
    if op in ('flip', 'rewrite', 'append', 'truncate', 'touch', 'delete', 'rename', 'todir') and not os.path.isfile(p):
        return False
    if op == 'flip':
        st = os.stat(p)
        with open(p, 'r+b') as f:
            f.seek(m[2]); b = f.read(1)
            if not b:
                return False
            f.seek(m[2]); f.write(bytes([b[0] ^ (1 << m[3])]))
        os.utime(p, ns=(st.st_atime_ns, st.st_mtime_ns))
    elif op == 'rewrite':
        st = os.stat(p)
        with open(p, 'wb') as f:
            f.write(L.content(['r', m[2], st.st_size]))
        os.utime(p, ns=(st.st_atime_ns, st.st_mtime_ns))
    elif op == 'append':
        st = os.stat(p)
        with open(p, 'ab') as f:
            f.write(L.content(['r', m[2], m[3]]))
        if m[4]:
            os.utime(p, ns=(st.st_atime_ns, st.st_mtime_ns))
    elif op == 'truncate':
        st = os.stat(p)
        os.truncate(p, min(m[2], st.st_size))
        if m[3]:
            os.utime(p, ns=(st.st_atime_ns, st.st_mtime_ns))
    elif op == 'touch':
        st = os.stat(p)
        os.utime(p, ns=(st.st_atime_ns, st.st_mtime_ns + m[2]))
    elif op == 'delete':
        os.remove(p)
    elif op == 'rename':
        q = os.path.join(root, m[2])
        if os.path.lexists(q):
            return False
        os.makedirs(os.path.dirname(q), exist_ok=True)
        os.rename(p, q)
    elif op == 'todir':
        os.remove(p)
        os.mkdir(p)
        if m[2]:
            open(os.path.join(p, 'inside'), 'wb').write(b'x')
    elif op == 'add':
        if os.path.lexists(p):
            return False
        try:
            os.makedirs(os.path.dirname(p), exist_ok=True)
        except OSError:
            return False
        with open(p, 'wb') as f:
            f.write(L.content(['r', m[2], m[3]]))
    else:
        raise HarnessError('unknown mutation %r' % (m,))
    return True


# ---------------------------------------------------------------- the property, from its statement
def mtime_verdict(now, rec):
    """'same' (must not be flagged), 'changed' (must be flagged: more than 1 s apart) or 'fine' (a shift of at most one
    second: the statement does not fix the granularity — the code's rounded-second rule is pinned by the correspondence
    with the model and by C05_mtime_rule, the predicate accepts either verdict)."""
    if now == rec:
        return 'same'
    return 'changed' if abs(now - rec) > 1.0 else 'fine'


def expected_reports(T0, T1, opts, single):
    """(must, may): recorded paths that must be reported per the statement (bytes, sizes, presence, mtimes compared
    directly), and those that may additionally be (only a sub-second-scale mtime shift)."""
    nm, sm, sh = opts
    scope = list(T0) if single is None else [p for p in T0 if p == single]
    must, may = set(), set()
    for p in scope:
        d0, t0 = T0[p]
        if p not in T1:
            if not sm:
                must.add(p)
            continue
        d1, t1 = T1[p]
        mv = mtime_verdict(t1, t0)
        if (d1 != d0 and not sh) or len(d1) != len(d0) or (mv == 'changed' and not nm):
            must.add(p)
        elif mv == 'fine' and not nm:
            may.add(p)
    return must, may


# ---------------------------------------------------------------- one scenario, several runs
def exec_scenario(ctx, sc, runs):
    """(with sc['tz']: the whole scenario runs under that local time zone — the database also records a human-readable local date)"""
    if sc.get('tz'):
        import time
        old_tz = os.environ.get('TZ')
        os.environ['TZ'] = sc['tz']; time.tzset()
        try:
            return exec_scenario_(ctx, sc, runs)
        finally:
            if old_tz is None:
                os.environ.pop('TZ', None)
            else:
                os.environ['TZ'] = old_tz
            time.tzset()
    return exec_scenario_(ctx, sc, runs)


def exec_scenario_(ctx, sc, runs):
    """Builds the tree, generates the database, mutates, executes each run configuration.
    Returns a list of result dicts (first: the generation run, unless runs == [] ), in the order of `runs`."""
    D = tempfile.mkdtemp(prefix='pffc05')
    results = []
    try:
        root = os.path.join(D, 'orig', sc.get('root', 'T'))
        build_ok = True
        L.build_tree(root, sc['files'])
        T0 = L.scan_tree(root)
        db = os.path.join(D, 'db', 'hashes.csv')
        os.makedirs(os.path.dirname(db))
        gres = L.run_rfigc(['-i', root, '-d', db, '-g', '--silent'], os.path.join(D, 'cwd_gen'))
        ids = L.Ids()
        try:
            real_rows = [L.db_row_tuple(r) for r in L.read_db(db)]
        except Exception as e:
            real_rows = None
            gres = ('EXC', 'database unreadable: %r (run: %r)' % (e, gres))
        lines = ['hchk_gen ' + ' '.join(L.fs_args(T0, ids))]
        # relocation and mutations
        reloc = sc.get('relocate', 0)
        cur = root
        if reloc == 1:
            cur = os.path.join(D, 'moved', 'copy of ' + sc.get('root', 'T'))
            shutil.copytree(root, cur)
        applied = [apply_mut(cur, m) for m in sc['muts']]
        if reloc == 2:
            dst = os.path.join(D, 'moved', 'copy of ' + sc.get('root', 'T'))
            shutil.copytree(cur, dst)
            cur = dst
        elif reloc == 3:
            dst = os.path.join(D, 'renamed root')
            os.rename(cur, dst)
            cur = dst
        T1 = L.scan_tree(cur)
        recorded = [r[0].decode('utf-8') for r in real_rows] if real_rows is not None else list(T0)
        impl_runs = []
        for k, run in enumerate(runs):
            if run.get('gen'):
                impl_runs.append(None)
                continue
            nm, sm, sh = run['opts']
            single = run.get('single')
            if single is not None and single not in T1:     # argparse would reject a missing input file
                impl_runs.append('skipped')
                continue
            cwd = os.path.join(D, 'cwd%d' % k)
            os.makedirs(cwd)
            rel_names = run.get('relnames', False)
            log = 'run.log' if rel_names else os.path.join(cwd, 'l o g.txt')
            ef = 'errors.csv' if rel_names else os.path.join(cwd, 'err|ors.csv')
            inp = cur if single is None else os.path.join(cur, single)
            if run.get('relinput'):        # the input given relative to the run's cwd (directories also with a trailing /)
                inp = os.path.join('.', os.path.relpath(inp, cwd)) + ('/' if single is None and run['relinput'] == 2 else '')
            args = ['-i', inp, '-d', db, '--silent', '-l', log]
            if run.get('efile', True):
                args += ['-e', ef]
            if nm: args.append('-m')
            if common.every_fourth(run): args.append('-v')
            if sm: args.append('--skip_missing')
            if sh: args.append('--skip_hash')
            rows_k = real_rows
            if run.get('dbedit') and real_rows is not None:
                # correspondence-only runs on a database edited by hand (one digest / the ext / size / time of a row changed):
                # exercises the rule branches a freshly generated database can never reach (one-hash, extension)
                raw = L.read_db(db)
                for i, field, val in run['dbedit']:
                    if raw:
                        raw[i % len(raw)][field] = val
                db_k = os.path.join(D, 'db', 'edited%d.csv' % k)
                with open(db_k, 'w', newline='', encoding='utf-8') as f:
                    w = L.csv.writer(f, lineterminator='\n', delimiter='|', quotechar='"')
                    w.writerow(['path', 'md5', 'sha1', 'last_modification_timestamp', 'last_modification_date', 'size', 'ext'])
                    for r0 in raw:
                        w.writerow([r0[c] for c in ('path', 'md5', 'sha1', 'last_modification_timestamp', 'last_modification_date', 'size', 'ext')])
                args[args.index('-d') + 1] = db_k
                rows_k = [L.db_row_tuple(r0) for r0 in raw]
            res = L.run_rfigc(args, cwd)
            obs = {'result': list(res), 'exit_nonzero': L.exit_nonzero(res)}
            efp = os.path.join(cwd, ef)
            if run.get('efile', True):
                try:
                    obs['efile'] = [[p, k2] for p, k2 in L.read_errors_file(efp)] if os.path.exists(efp) else None
                except Exception as e:
                    obs['efile'] = 'unreadable: %r' % (e,)
            logrows, amb = L.read_log_errors(os.path.join(cwd, log), recorded)
            obs['log'] = [[p, k2] for p, k2 in logrows]
            obs['log_ambiguous'] = amb
            impl_runs.append(obs)
            if real_rows is not None:
                lines.append('hchk_check %d %d %d %d %s %s %s' % (
                    sh, nm, sm, 0 if single is None else 1, L.hx((single or '').encode('utf-8')),
                    ' '.join(L.fs_args(T1, ids)), ' '.join(L.db_args(rows_k))))
        outs = ctx.model.run(lines)
        model_rows = L.parse_gen(outs[0])
        oi = 1
        for k, run in enumerate(runs):
            if run.get('gen'):
                want = L.spec_rows(T0)
                impl = real_rows
                r = {'run': run, 'agree': impl == model_rows and gres[0] == 'RET' and not L.exit_nonzero(gres),
                     'holds': impl == want and gres == ('RET', 0),
                     'impl': {'result': list(gres), 'rows': show_rows(impl)}, 'model': {'rows': show_rows(model_rows)},
                     'expected': {'rows': show_rows(want)}, 'nfiles': len(T0), 'mutated': False, 'reported': 0}
                results.append(r)
                continue
            obs = impl_runs[k]
            nm, sm, sh = run['opts']
            single = run.get('single')
            if obs == 'skipped':
                results.append({'run': run, 'agree': True, 'holds': True, 'impl': 'skipped: single-file target absent',
                                'model': None, 'expected': [], 'nfiles': len(T0), 'mutated': False, 'reported': 0, 'skipped': True})
                continue
            if real_rows is None:
                results.append({'run': run, 'agree': False, 'holds': False, 'impl': obs, 'model': None,
                                'expected': 'database unreadable', 'nfiles': len(T0), 'mutated': True, 'reported': 0})
                continue
            ex, rep, ef = outs[oi].split(' ')
            oi += 1
            mrep, mef = L.parse_rep(rep), L.parse_rep(ef)
            model = {'exit_nonzero': ex == '1', 'report': [[p, k2] for p, k2 in mrep], 'efile': [[p, k2] for p, k2 in mef]}
            agree = (obs['result'][0] == 'RET' and obs['exit_nonzero'] == model['exit_nonzero'])
            if run.get('efile', True):
                agree = agree and obs['efile'] == model['efile']
            if obs['log_ambiguous'] == 0:
                agree = agree and obs['log'] == model['report']
            else:
                agree = agree and len(obs['log']) == len(model['report'])
            # the property predicate, on the implementation's behaviour only
            must, may = expected_reports(T0, T1, (nm, sm, sh), single)

            def fits(paths):
                return (paths is not None and len(set(paths)) == len(paths)
                        and must <= set(paths) <= (must | may))
            why = []
            holds = obs['result'][0] == 'RET'
            if not holds:
                why.append('run ended with %r' % (obs['result'],))
            seen = None
            if run.get('efile', True):
                seen = [p for p, _ in obs['efile']] if isinstance(obs['efile'], list) else None
                if not fits(seen):
                    holds = False
                    why.append('errors file paths')
            if obs['log_ambiguous'] == 0:
                lp = [p for p, _ in obs['log']]
                if not fits(lp) or (seen is not None and sorted(lp) != sorted(seen)):
                    holds = False
                    why.append('log error lines')
                seen = lp if seen is None else seen
            elif not (len(must) <= len(obs['log']) <= len(must | may)):
                holds = False
                why.append('number of log error lines')
            nrep = len(seen) if seen is not None else len(obs['log'])
            if obs['exit_nonzero'] != (nrep > 0) or (must and not obs['exit_nonzero']):
                holds = False
                why.append('exit status')
            if run.get('dbedit'):            # outside the statement (database not produced by -g): correspondence only
                holds, why = True, ['not evaluated: edited database']
            results.append({'run': run, 'agree': agree, 'holds': holds, 'why': why, 'impl': obs, 'model': model,
                            'expected': {'must_report': sorted(must), 'may_report (sub-second mtime shift only)': sorted(may)},
                            'nfiles': len(T0), 'mutated': any(applied) and T1 != T0, 'reported': len(must), 'may': len(may), 'kinds': sorted({k2 for _, ks in mrep for k2 in ks})})
    finally:
        shutil.rmtree(D, ignore_errors=True)
    return results


def show_rows(rows):
    if rows is None:
        return None
    return [[r[0].decode('utf-8', 'replace'), r[1].decode(), r[2].decode(), r[3], r[4], r[5].decode('utf-8', 'replace')] for r in rows]


# ---------------------------------------------------------------- generators
def gen_files(rng, big_ok=True):
    n = rng.choice([0, 1, 1, 2, 3, 4, 5, 7])
    rels = L.rand_relpaths(rng, n)
    files, big = [], (1 if big_ok else 0)
    for rel in rels:
        ln = rng.choice([0, 1, 2, 3, 17, 100, 1000, 5000])
        if big and rng.random() < 0.3:
            ln = rng.choice(BIG)
            big -= 1
        files.append([rel, ['r', rng.randrange(1 << 30), ln], L.rand_mtime_ns(rng)])
    return files


SUBSEC = [1, -1, 300, 250_000_000, -250_000_000, 500_000_000, -500_000_000, 499_999_999, 999_999_999, -999_999_999,
          1_000_000_000, -1_000_000_000, 1_000_000_001, 750_000_000, 100_000_000]


def gen_muts(rng, files, stream):
    live = {f[0]: f[1][2] for f in files}      # rel -> size
    dirs = set()
    for f in files:
        parts = f[0].split('/')
        for i in range(1, len(parts)):
            dirs.add('/'.join(parts[:i]))
    muts = []
    k = rng.choice([0, 1, 1, 2, 3, 5]) if files else rng.choice([0, 1])
    if stream == 'subsec' and files:
        k = max(k, 1)
    for j in range(k):
        ops = ['add']
        if live:
            ops += ['flip', 'flip', 'rewrite', 'append', 'truncate', 'delete', 'rename', 'touch', 'touch', 'todir']
        op = rng.choice(ops)
        if stream == 'subsec' and live and (j == 0 or rng.random() < 0.5):
            op = 'touch'
        if op == 'add':
            base = rng.choice(list(live)).split('/')[-1] if live and rng.random() < 0.5 else L.rand_name(rng)
            where = rng.choice(sorted(dirs) + ['', 'newdir', 'newdir/deeper'])
            rel = (where + '/' if where else '') + base
            if rel in live or rel in dirs or any(rel.startswith(x + '/') for x in live):
                continue
            n = rng.choice([0, 1, 50])
            muts.append(['add', rel, rng.randrange(1 << 30), n])
            live[rel] = n
            continue
        rel = rng.choice(sorted(live))
        size = live[rel]
        if op == 'flip':
            if size == 0:
                continue
            off = rng.choice([o for o in (0, size - 1, 65535, 65536, 65537, size // 2, rng.randrange(size)) if 0 <= o < size])
            muts.append(['flip', rel, off, rng.randrange(8)])
        elif op == 'rewrite':
            if size == 0:
                continue
            muts.append(['rewrite', rel, rng.randrange(1 << 30)])
        elif op == 'append':
            n = rng.choice([1, 3, 1000])
            muts.append(['append', rel, rng.randrange(1 << 30), n, rng.random() < 0.5])
            live[rel] = size + n
        elif op == 'truncate':
            if size == 0:
                continue
            n = rng.choice([0, size - 1, rng.randrange(size)])
            muts.append(['truncate', rel, n, rng.random() < 0.5])
            live[rel] = n
        elif op == 'touch':
            if stream == 'subsec':
                d = rng.choice(SUBSEC)
            else:
                d = rng.choice([2, 3, 60, 86400, 10 ** 7]) * 10 ** 9 * rng.choice([1, -1]) + rng.choice([0, 0, 123_456_789, 500_000_000])
                if abs(d) < 2 * 10 ** 9:
                    d = 2 * 10 ** 9 if d > 0 else -2 * 10 ** 9
            muts.append(['touch', rel, d])
        elif op == 'delete':
            muts.append(['delete', rel])
            del live[rel]
        elif op == 'rename':
            new = rng.choice([rel + '~r%d' % j, 'mv%d/' % j + rel.split('/')[-1]])
            if new in live or new in dirs:
                continue
            muts.append(['rename', rel, new])
            live[new] = live.pop(rel)
        elif op == 'todir':
            muts.append(['todir', rel, rng.random() < 0.5])
            del live[rel]
            dirs.add(rel)
    return muts, live


def gen_runs(rng, files, live, tier):
    combos = [[a, b, c] for a in (False, True) for b in (False, True) for c in (False, True)]
    if tier == 'thorough':
        chosen = combos
    else:
        chosen = [combos[0]] + rng.sample(combos[1:], 2)
    runs = [{'gen': True}]
    for o in chosen:
        runs.append({'opts': o, 'single': None, 'efile': rng.random() < 0.85, 'relnames': rng.random() < 0.4,
                     'relinput': rng.choice([0, 0, 1, 2])})
    if files and rng.random() < 0.35:
        i = rng.randrange(len(files))
        ed = rng.choice([[i, 'md5', '0' * 32], [i, 'sha1', 'f' * 40], [i, 'ext', '.zzz'], [i, 'ext', ''], [i, 'size', '7'],
                         [i, 'last_modification_timestamp', '1234567890.5'], [i, 'md5', ''], [i, 'path', 'no such file']])
        runs.append({'opts': rng.choice(combos), 'single': None, 'efile': True, 'dbedit': [ed]})
    # single-file inputs: existing files — recorded top-level, recorded nested, unrecorded
    cands = sorted(live)
    rng.shuffle(cands)
    top = [p for p in cands if '/' not in p]
    nested = [p for p in cands if '/' in p]
    picks = top[:2] + nested[:1] if tier == 'thorough' else top[:1] + (nested[:1] if rng.random() < 0.5 else [])
    for p in picks:
        runs.append({'opts': rng.choice(combos), 'single': p, 'efile': True, 'relnames': rng.random() < 0.4,
                     'relinput': rng.choice([0, 0, 1])})
    return runs


def gen_scenario(rng, stream, tier):
    files = gen_files(rng)
    muts, live = gen_muts(rng, files, stream)
    sc = {'root': rng.choice(ROOT_NAMES), 'files': files, 'muts': muts, 'relocate': rng.choice([0, 0, 1, 2, 3]), 'stream': stream}
    return sc, gen_runs(rng, files, live, tier)


def corpus():
    f = lambda rel, spec, s, fr=0: [rel, spec, s * 10 ** 9 + fr]
    base = [f('a|b"c.txt', ['r', 1, 70000], 1_500_000_000, 123_456_789), f(' lead é.dat', ['r', 2, 10], 1_400_000_000),
            f('sub/ü "q"|.bin', ['r', 3, 65537], 1_300_000_000, 500_000_000), f('sub/deep/x', ['h', ''], 1_200_000_000),
            f('sub/a|b"c.txt', ['r', 5, 5], 1_100_000_000), f('top.txt', ['r', 6, 131072], 1_000_000_001, 500_000_000)]
    d = [False, False, False]
    out = []
    out.append(({'root': 'T', 'files': base, 'muts': [], 'relocate': 0}, [{'gen': True}, {'opts': d, 'single': None, 'efile': True}]))
    out.append(({'root': 'r|"é', 'files': base, 'muts': [], 'relocate': 1}, [{'opts': d, 'single': None, 'efile': True}]))
    out.append(({'root': 'T', 'files': base, 'relocate': 0,
                 'muts': [['flip', 'a|b"c.txt', 65536, 0], ['delete', ' lead é.dat']]},
                [{'opts': d, 'single': None, 'efile': True}, {'opts': [True, True, True], 'single': None, 'efile': True},
                 {'opts': d, 'single': 'top.txt', 'efile': True}, {'opts': d, 'single': 'a|b"c.txt', 'efile': True}]))
    for off in (0, 65535, 65536, 65537, 131071):
        out.append(({'root': 'T', 'files': base, 'relocate': 2, 'muts': [['flip', 'top.txt', off, off % 8]]},
                    [{'opts': d, 'single': None, 'efile': True}, {'opts': [False, False, True], 'single': None, 'efile': True}]))
    out.append(({'root': 'T', 'files': base, 'relocate': 0,
                 'muts': [['append', 'sub/deep/x', 9, 1, True], ['truncate', 'top.txt', 131071, True],
                          ['touch', 'sub/a|b"c.txt', 2_000_000_000], ['rename', ' lead é.dat', 'renamed'], ['add', 'new|file', 4, 3]]},
                [{'opts': d, 'single': None, 'efile': True}, {'opts': [True, False, False], 'single': None, 'efile': False},
                 {'opts': [False, True, False], 'single': None, 'efile': True}]))
    # the mtime rule at its edges: x.5 +/- 1 s, 1 ns, quarter seconds
    out.append(({'root': 'T', 'files': base, 'relocate': 0, 'stream': 'subsec',
                 'muts': [['touch', 'top.txt', 1_000_000_000], ['touch', 'sub/ü "q"|.bin', -1_000_000_000],
                          ['touch', 'a|b"c.txt', 400_000_000], ['touch', ' lead é.dat', 499_999_999], ['touch', 'sub/deep/x', 500_000_001]]},
                [{'opts': d, 'single': None, 'efile': True}, {'opts': [True, False, False], 'single': None, 'efile': True}]))
    out.append(({'root': 'T', 'files': [], 'muts': [], 'relocate': 0}, [{'gen': True}, {'opts': d, 'single': None, 'efile': True}]))
    # a zone with daylight saving: 2021-10-31 00:30 UTC is 02:30 CEST, one hour later it is 02:30 CET — two different modification
    # times with the same local wall-clock reading; and the spring gap
    dst = [f('fall/back.bin', ['r', 31, 20], 1_635_640_200), f('fall/other.bin', ['r', 32, 20], 1_635_640_200, 250_000_000),
           f('spring/gap.bin', ['r', 33, 20], 1_616_893_200)]
    out.append(({'root': 'T', 'files': dst, 'relocate': 0, 'tz': 'CET-1CEST,M3.5.0,M10.5.0/3',
                 'muts': [['touch', 'fall/back.bin', 3600 * 10 ** 9], ['touch', 'spring/gap.bin', -3600 * 10 ** 9]]},
                [{'opts': d, 'single': None, 'efile': True}, {'opts': [True, False, False], 'single': None, 'efile': True}]))
    # recorded times at and next to the Unix epoch (extractors that store no dates, reproducible archives): 0.0 is a time like any other
    ep = [f('layer/etc/hostname', ['r', 41, 33], 0), f('layer/motd', ['r', 42, 12], 1), f('readme', ['r', 43, 40], 86400), f('keep', ['r', 44, 9], 0)]
    out.append(({'root': 'T', 'files': ep, 'relocate': 0,
                 'muts': [['touch', 'layer/etc/hostname', 1000 * 10 ** 9], ['touch', 'readme', -86400 * 10 ** 9], ['touch', 'layer/motd', 5 * 10 ** 9]]},
                [{'opts': d, 'single': None, 'efile': True}, {'opts': [True, False, False], 'single': None, 'efile': True}]))
    out.append(({'root': 'T', 'files': ep, 'relocate': 1, 'muts': []}, [{'opts': d, 'single': None, 'efile': True}]))
    # names a csv dialect guesser would trip over: a word between apostrophes, comma-separated quoted words, semicolons, tabs
    odd = [f("'Heroes' (1977).txt", ['r', 51, 20], 1_400_000_000), f('lorem,"ipsum",dolor.txt', ['r', 52, 20], 1_400_000_100),
           f("it's;a;b.txt", ['r', 53, 20], 1_400_000_200), f('tab\there.bin', ['r', 54, 20], 1_400_000_300), f('plain.bin', ['r', 55, 20], 1_400_000_400)]
    out.append(({'root': 'T', 'files': odd, 'relocate': 0, 'muts': []}, [{'gen': True}, {'opts': d, 'single': None, 'efile': True}]))
    out.append(({'root': 'T', 'files': odd, 'relocate': 0, 'muts': [['flip', 'plain.bin', 3, 1], ['flip', "'Heroes' (1977).txt", 0, 0]]},
                [{'opts': d, 'single': None, 'efile': True}]))
    # a recorded file replaced by the other half of the public Wang et al. MD5 collision pair (same size, same MD5, other SHA-1; six bytes
    # differ in bit 7), time restored: ONE of the two recorded hashes still matches — the content changed all the same
    m1 = 'd131dd02c5e6eec4693d9a0698aff95c2fcab58712467eab4004583eb8fb7f8955ad340609f4b30283e488832571415a085125e8f7cdc99fd91dbdf280373c5bd8823e3156348f5bae6dacd436c919c6dd53e2b487da03fd02396306d248cda0e99f33420f577ee8ce54b67080a80d1ec69821bcb6a8839396f9652b6ff72a70'
    coll = [f('keys/container.bin', ['h', m1], 1_450_000_000), f('notes.txt', ['r', 61, 40], 1_350_000_000)]
    out.append(({'root': 'T', 'files': coll, 'relocate': 0, 'muts': [['flip', 'keys/container.bin', o, 7] for o in (19, 45, 59, 83, 109, 123)]},
                [{'opts': d, 'single': None, 'efile': True}, {'opts': [True, False, False], 'single': None, 'efile': True}]))
    # files NAMED like the columns of the database ('path' first of all): rows like any other, never a header line
    cols = [f('path', ['r', 71, 30], 1_410_000_000), f('md5', ['r', 72, 30], 1_410_000_100), f('sub/path', ['r', 73, 30], 1_410_000_200),
            f('size', ['r', 74, 30], 1_410_000_300), f('zz.bin', ['r', 75, 30], 1_410_000_400)]
    out.append(({'root': 'T', 'files': cols, 'relocate': 0, 'muts': []}, [{'gen': True}, {'opts': d, 'single': None, 'efile': True}]))
    out.append(({'root': 'T', 'files': cols, 'relocate': 0, 'muts': [['flip', 'path', 3, 1]]}, [{'opts': d, 'single': None, 'efile': True}]))
    out.append(({'root': 'T', 'files': cols, 'relocate': 1, 'muts': [['delete', 'path'], ['flip', 'md5', 0, 0]]},
                [{'opts': d, 'single': None, 'efile': True}, {'opts': d, 'single': 'size', 'efile': True}]))
    # recorded files whose BASE NAME is that of the database given with -d (a copy of an older database kept inside the tree, a
    # sub-project with its own hashes.csv): audited like any other file
    dbn = [f('projB/raw/hashes.csv', ['r', 101, 60], 1_440_000_000), f('hashes.csv', ['r', 102, 61], 1_440_000_100), f('projA/data.bin', ['r', 103, 62], 1_440_000_200)]
    out.append(({'root': 'T', 'files': dbn, 'relocate': 0, 'muts': [['flip', 'projB/raw/hashes.csv', 5, 2], ['delete', 'hashes.csv']]},
                [{'opts': d, 'single': None, 'efile': True}, {'opts': [True, False, False], 'single': None, 'efile': True}]))
    # exactly 256 (and 512 = 256 deleted + 256 flipped would be too slow: 256 deleted) recorded files in error: the exit status seen by
    # the caller of the command must still be non-zero (an error COUNT used as exit status wraps to 0 modulo 256)
    many = [f('m/%03d.t' % i, ['r', 1000 + i, 3], 1_300_000_000 + i) for i in range(256)] + [f('keep.t', ['r', 7, 3], 1_200_000_000)]
    out.append(({'root': 'T', 'files': many, 'relocate': 0, 'muts': [['delete', 'm/%03d.t' % i] for i in range(256)]},
                [{'opts': d, 'single': None, 'efile': True}]))
    return out


def account(ctx, sc, results):
    for r in results:
        ctx.evaluations += 1
        case = dict(sc, run=r['run'])
        run = r['run']
        if run.get('gen'):
            ctx.count('run=generate')
        else:
            ctx.count('run=check opts(-m,skip_missing,skip_hash)=%s' % ''.join('1' if x else '0' for x in run['opts']))
            if run.get('dbedit'):
                ctx.count('run on a hand-edited database (correspondence only)')
            ctx.count('input=' + ('tree' if run.get('single') is None else ('single-top' if '/' not in run['single'] else 'single-nested')))
            ctx.count('reported=%s' % (r['reported'] if r['reported'] < 3 else '3+'))
            if r.get('may'):
                ctx.count('runs with a sub-second-only mtime shift (either verdict accepted by the predicate, rule pinned by the model)')
            for k in r.get('kinds', []):
                ctx.count('model-kind=' + KINDS.get(k, str(k)))
            ctx.count('relocate=%d' % sc.get('relocate', 0))
            if not run.get('efile', True):
                ctx.count('without -e')
            if run.get('relinput'):
                ctx.count('input path relative to cwd')
        if r['mutated']:
            ctx.nontriv(json.dumps(case, sort_keys=True))
        if not r['agree']:
            ctx.disagree(case, r['model'], r['impl'])
        if not r['holds']:
            fid = classify(case, None)
            if fid is not None:
                # failures inside a known finding's classifier: the first 40 go through the triage, the rest are only
                # counted, so that they can never fill the failure buffer and hide an unlisted violation
                ctx.count('failures inside classifier ' + fid)
                if ctx.hist['failures inside classifier ' + fid] > 40:
                    continue
            ctx.fail(case, {'expected_reported_paths': r['expected'], 'implementation': r['impl'], 'why': r.get('why')})
        else:
            ctx.traces += 1
    for m in sc['muts']:
        ctx.count('mutation=' + m[0])
    ctx.count('stream=' + sc.get('stream', 'main'))
    ctx.count('files=%d' % len(sc['files']))


def run(ctx):
    rng = ctx.rng
    from props import cli_proc
    cli_proc.stream(ctx, ['C05', 'C05@rfigc'])
    for sc, runs in corpus():
        account(ctx, sc, exec_scenario(ctx, sc, runs))
    # bit flips at the block-read boundaries of generate_hashes (65536-byte reads), size and mtime restored
    d = [False, False, False]
    for ln in [1, 2] + BIG:
        offs = sorted({o for o in (0, 1, ln // 2, 65535, 65536, 65537, 131071, ln - 2, ln - 1) if 0 <= o < ln})
        for off in offs:
            sc = {'root': 'T', 'relocate': rng.choice([0, 1, 2]), 'stream': 'flipscan',
                  'files': [['big.bin', [rng.choice(['r', 'z']), rng.randrange(256), ln], L.rand_mtime_ns(rng)],
                            ['control', ['r', 7, 9], L.rand_mtime_ns(rng)]],
                  'muts': [['flip', 'big.bin', off, rng.randrange(8)]]}
            account(ctx, sc, exec_scenario(ctx, sc, [{'opts': d, 'single': None, 'efile': True},
                                                     {'opts': [False, False, True], 'single': None, 'efile': True},
                                                     {'opts': d, 'single': 'big.bin', 'efile': True}]))
            ctx.count('flip offset=%s' % (off if off in (0, 65535, 65536, 65537) else ('last' if off == ln - 1 else 'other')))
    n_main, n_sub = (450, 110) if ctx.tier == 'quick' else (4000, 1000)
    for i in range(n_main + n_sub):
        stream = 'main' if i < n_main else 'subsec'
        sc, runs = gen_scenario(rng, stream, ctx.tier)
        res = exec_scenario(ctx, sc, runs)
        account(ctx, sc, res)
        if res and len(res) > 1:
            r = res[1]
            ctx.sample({'files': [f[0] for f in sc['files']], 'muts': sc['muts'], 'run': r['run'], 'reported': r['expected']}, cap=5)


def replay_case(ctx, case):
    if case.get('kind') == 'cli-process':
        from props import cli_proc
        return cli_proc.replay(case)
    sc = {k: v for k, v in case.items() if k != 'run'}
    r = exec_scenario(ctx, sc, [case['run']])[0]
    return {'holds': r['holds'], 'model_agrees': r['agree'], 'property_expects': r['expected'], 'why': r.get('why'),
            'implementation': r['impl'], 'model': r['model']}


def classify(case, detail):
    if case.get('kind') == 'cli-process':
        return None
    run = case.get('run', {})
    if run.get('single') and '/' in run['single']:
        return 'C05-single-file-below-root'
    return None


def shrink(ctx, case):
    if case.get('kind') == 'cli-process':
        return case
    def bad(c):
        try:
            return not replay_case(ctx, c)['holds'] and classify(c, None) == classify(case, None)
        except Exception:
            return False
    cur = copy.deepcopy(case)
    budget = 60
    improved = True
    while improved and budget > 0:
        improved = False
        cands = []
        for i in range(len(cur['muts'])):
            c = copy.deepcopy(cur); del c['muts'][i]; cands.append(c)
        keep = {m[1] for m in cur['muts']} | {m[2] for m in cur['muts'] if m[0] == 'rename'} | {cur['run'].get('single')}
        for i, f in enumerate(cur['files']):
            if f[0] not in keep:
                c = copy.deepcopy(cur); del c['files'][i]; cands.append(c)
        for i, f in enumerate(cur['files']):
            if f[1][0] == 'r' and f[1][2] > 4 and not any(m[0] == 'flip' and m[1] == f[0] for m in cur['muts']):
                c = copy.deepcopy(cur); c['files'][i][1][2] = 1; cands.append(c)
        if cur.get('relocate'):
            c = copy.deepcopy(cur); c['relocate'] = 0; cands.append(c)
        if cur.get('root') != 'T':
            c = copy.deepcopy(cur); c['root'] = 'T'; cands.append(c)
        if not cur['run'].get('gen') and any(cur['run']['opts']):
            c = copy.deepcopy(cur); c['run']['opts'] = [False, False, False]; cands.append(c)
        for c in cands:
            budget -= 1
            if budget <= 0:
                break
            if bad(c):
                cur, improved = c, True
                break
    return cur
