# C11 — the parity check accepts exactly the valid codewords within detection range:
# correspondence of Facade.fac_check / fac_encode (extracted) with ECCMan.check / encode for codecs 1-4,
# exhaustive GF(2^8) table correspondence, and the property predicate on the implementation.
import itertools
from common import hx, unhx
from props import rs_common as R

RULE = ('GF(2^8): all 65 536 products, 600 generator powers, all inverses and generator polynomials of degree 0..39, both '
        'fields, against reedsolo and unireedsolomon.ff (exhaustive).  ECCMan.check vs the extracted fac_check, codecs 1-4: '
        'every (n,k) with n <= 7 (quick; 8 thorough), message lengths 1..k, messages {zeros, 0xFF, ramp, random}: the valid '
        'codeword, EVERY single- and double-symbol error position with a random magnitude (all 255 magnitudes on (7,3)), '
        'every truncation of the parity; random geometries up to n=255 (k=1, k=n-1 included) with error weight 1..n-k '
        'and weights n-k+1.. (no claim, only correspondence), short messages, per-call k.  Property predicate on the '
        'implementation: valid => True, distance 1..n-k (after padding) => False.  non-trivial = corrupted word; distinct '
        'by (codec, n, k, message, corrupted word).')
TRUSTED_EXTRA = ['modelled and verified: GF(2^8) multiply (gf_mult_noLUT), generator polynomial, synthetic-division encoder, '
                 'syndrome check, facade padding (lib/eccman.py ECCMan.encode/check/pad/rpad and the reedsolo / unireedsolomon '
                 'functions they call - third-party code in site-packages, tied by this correspondence only)',
                 'the table-based gf_mul/gf_pow of the libraries are compared exhaustively with the model multiply, not modelled']
ASSUMPTIONS = ['n <= 255, k < n, message length <= k (the property\'s domain)']


def dist_padded(n, k, m1, e1, m2, e2):
    a = bytes(k - len(m1)) + m1 + e1 + bytes(n - k - len(e1))
    b = bytes(k - len(m2)) + m2 + e2 + bytes(n - k - len(e2))
    return sum(1 for x, y in zip(a, b) if x != y)


def run_cases(ctx, cases):
    """cases: (algo, n, selfk, k, m0, m, e, note) — m0 the original message (parity from the implementation)."""
    lines = []
    for algo, n, sk, k, m0, m, e, note in cases:
        lines.append('chk %d %d %d %d %s %s' % (algo, n, sk, k, hx(m), hx(e)))
    outs = ctx.model.run(lines)
    for (algo, n, sk, k, m0, m, e, note), o in zip(cases, outs):
        kk = k or sk
        case = {'algo': algo, 'n': n, 'selfk': sk, 'k': k, 'm0': m0.hex(), 'm': m.hex(), 'e': e.hex(), 'note': note}
        try:
            c = R.codec(algo, n, sk)
            p0 = bytes(c.encode(m0, k=k or None))
            with R.quiet():
                impl = bool(c.check(m, e, k=k or None))
        except Exception as ex:
            impl, p0 = ('EXC', repr(ex)), None
        ctx.evaluations += 1
        ctx.count('algo%d' % algo)
        model = (o == '1')
        if impl != model:
            ctx.disagree(case, model, impl)
        if p0 is not None:
            d = dist_padded(n, kk, m, e, m0, p0)
            ctx.count('dist=0' if d == 0 else ('dist<=n-k' if d <= n - kk else 'dist>n-k'))
            if d > 0:
                ctx.nontriv((algo, n, kk, m0, m, e))
            want = True if d == 0 else (False if d <= n - kk else None)
            if want is not None and impl != want:
                ctx.fail(case, {'distance_after_padding': d, 'n-k': n - kk, 'check_returned': impl, 'property_expects': want})
            elif want is not None:
                ctx.traces += 1
        else:
            ctx.fail(case, {'exception': impl})
    if cases:
        algo, n, sk, k, m0, m, e, note = cases[len(cases) // 2]
        ctx.sample({'algo': algo, 'n': n, 'k': k or sk, 'm': m.hex(), 'e': e.hex(), 'note': note}, cap=5)


def encode_cases(ctx, cases):
    """fac_encode vs ECCMan.encode: (algo, n, selfk, k, m)."""
    outs = ctx.model.run(['enc %d %d %d %d %s' % (a, n, sk, k, hx(m)) for a, n, sk, k, m in cases])
    for (a, n, sk, k, m), o in zip(cases, outs):
        try:
            impl = bytes(R.codec(a, n, sk).encode(m, k=k or None))
        except Exception as ex:
            impl = ('EXC', repr(ex))
        ctx.evaluations += 1
        if impl != unhx(o):
            ctx.disagree({'algo': a, 'n': n, 'selfk': sk, 'k': k, 'm': m.hex(), 'op': 'encode'}, o, impl.hex() if isinstance(impl, bytes) else impl)
        if isinstance(impl, bytes) and len(impl) != n - (k or sk):
            ctx.fail({'algo': a, 'n': n, 'selfk': sk, 'k': k, 'm': m.hex(), 'm0': m.hex(), 'e': '', 'note': 'parity length'}, {'parity_length': len(impl), 'expected': n - (k or sk)})


def gen_cases(ctx, algos):
    rng = ctx.rng
    nmax = 8 if ctx.tier == 'thorough' else 7
    cases, enc = [], []
    for algo in algos:
        for n, k in R.geometries_small(nmax):
            c = R.codec(algo, n, k)
            for L in range(1, k + 1):
                for m0 in R.messages(rng, L):
                    p0 = bytes(c.encode(m0))
                    enc.append((algo, n, k, 0, m0))
                    cases.append((algo, n, k, 0, m0, m0, p0, 'valid'))
                    w = m0 + p0
                    pos = list(range(len(w)))
                    # every single and double error position
                    subsets = [(i,) for i in pos] + list(itertools.combinations(pos, 2))
                    if ctx.tier == 'quick' and len(subsets) > 12:
                        subsets = [(i,) for i in pos] + rng.sample(list(itertools.combinations(pos, 2)), min(8, len(pos) * (len(pos) - 1) // 2))
                    for s in subsets:
                        w2 = R.corrupt(rng, w, s)
                        cases.append((algo, n, k, 0, m0, w2[:L], w2[L:], 'err%d' % len(s)))
                    for cut in range(0, n - k):          # truncated parity
                        cases.append((algo, n, k, 0, m0, m0, p0[:cut], 'trunc'))
        # all 255 magnitudes on (7,3)
        c = R.codec(algo, 7, 3)
        m0 = b'abc'; p0 = bytes(c.encode(m0)); w = m0 + p0
        for i in range(7):
            for v in range(256):
                if v != w[i]:
                    w2 = bytearray(w); w2[i] = v
                    cases.append((algo, 7, 3, 0, m0, bytes(w2[:3]), bytes(w2[3:]), 'mag'))
        # random large geometries
        nbig = 60 if ctx.tier == 'quick' else 600
        for _ in range(nbig):
            n = rng.choice([12, 20, 33, 64, 100, 200, 255, rng.randrange(9, 40)])
            k = rng.choice([1, n - 1, n // 2, rng.randrange(1, n)])
            sk = k
            kcall = 0
            if n > 40:                   # building a large codec is slow (all generator polynomials): one object per (codec, n), geometry chosen per call
                sk = n // 2
                kcall = 0 if k == sk else k
            elif rng.random() < 0.25:    # per-call k different from the constructor's
                sk = rng.randrange(1, n)
                kcall = k
            L = rng.choice([k, k, max(1, k - 1), rng.randrange(1, k + 1)])
            m0 = rng.choice(R.messages(rng, L))
            c = R.codec(algo, n, sk)
            p0 = bytes(c.encode(m0, k=kcall or None))
            enc.append((algo, n, sk, kcall, m0))
            w = m0 + p0
            wt = rng.choice([1, 2, n - k, max(1, (n - k) // 2), min(len(w), n - k + 1), min(len(w), n - k + 3)])
            wt = max(1, min(wt, len(w)))
            s = rng.sample(range(len(w)), wt)
            w2 = R.corrupt(rng, w, s)
            cases.append((algo, n, sk, kcall, m0, w2[:L], w2[L:], 'big-w%d' % wt))
            cases.append((algo, n, sk, kcall, m0, m0, p0, 'big-valid'))
    return cases, enc


def run(ctx):
    corpus = [(3, 20, 11, 0, b'hello world', b'hello world', bytes.fromhex('ceea90998dc4aa603e'), 'corpus-valid'),
              (1, 20, 11, 0, b'\x00\x00', b'\x00\x00', b'\x00\x00\x00', 'corpus-zero-trunc'),
              (4, 9, 3, 0, b'abc', b'abd', b'', 'corpus-empty-ecc')]
    run_cases(ctx, corpus)
    R.gf_tables_check(ctx)
    for algos in ((1, 2, 3), (4,)):
        cases, enc = gen_cases(ctx, algos)
        encode_cases(ctx, enc)
        for i in range(0, len(cases), 5000):
            run_cases(ctx, cases[i:i + 5000])
    interleave_stream(ctx)


def interleave_stream(ctx):
    """codec objects of the two reedsolo table families built one after the other with the SAME n, then a NEW object of the
    first family: its parity must be the model's and its check must accept it (the module-global tables must be
    re-initialised by every construction; a cache keyed on the geometry would keep another field's tables)"""
    from pyFileFixity.lib.eccman import ECCMan
    rng = ctx.rng
    R._cache['fam'] = None; R._cache['objs'].clear()
    for n, k in ((20, 11), (12, 5), (40, 30)):
        for order in ((3, 4, 3), (4, 3, 4), (3, 4, 4, 3), (4, 3, 3, 4), (3, 4, 1, 3)):
            m = bytes(rng.randrange(256) for _ in range(k))
            try:
                last = None
                for a in order:
                    last = ECCMan(n, k, algo=a)
                p = bytes(last.encode(m))
                with R.quiet():
                    ok = bool(last.check(m, p))
                    w = bytearray(m + p); w[0] ^= 1
                    bad = bool(last.check(bytes(w[:k]), bytes(w[k:])))
            except Exception as ex:
                p, ok, bad = ('EXC', repr(ex)), False, True
            algo = order[-1]
            o1, o2 = ctx.model.run(['enc %d %d %d 0 %s' % (algo, n, k, hx(m)), 'chk %d %d %d 0 %s %s' % (algo, n, k, hx(m), hx(p) if isinstance(p, bytes) else '-')])
            ctx.evaluations += 1
            ctx.count('interleaved_constructions')
            case = {'kind': 'interleave', 'order': list(order), 'n': n, 'k': k, 'm': m.hex()}
            if not isinstance(p, bytes) or p != unhx(o1):
                ctx.disagree(case, o1, p.hex() if isinstance(p, bytes) else p, what='parity of a codec built after another table family != model')
            if not ok or bad:
                ctx.fail(case, {'check_of_own_parity': ok, 'check_of_one_symbol_error': bad, 'parity': p.hex() if isinstance(p, bytes) else p, 'model_parity': o1})
            else:
                ctx.traces += 1
    R._cache['fam'] = None; R._cache['objs'].clear()


def replay_case(ctx, case):
    if case.get('kind') == 'interleave':
        from pyFileFixity.lib.eccman import ECCMan
        n, k, m = case['n'], case['k'], bytes.fromhex(case['m'])
        last = None
        for a in case['order']:
            last = ECCMan(n, k, algo=a)
        p = bytes(last.encode(m))
        with R.quiet():
            ok = bool(last.check(m, p))
        R._cache['fam'] = None; R._cache['objs'].clear()
        model = ctx.model.run(['enc %d %d %d 0 %s' % (case['order'][-1], n, k, hx(m))])[0]
        return {'holds': ok and p == unhx(model), 'check_of_own_parity': ok, 'parity': p.hex(), 'model_parity': model}
    algo, n, sk, k = case['algo'], case['n'], case['selfk'], case['k']
    if case.get('kind') == 'gf-table':
        return {'holds': R.gf_tables_check(ctx)}
    m0, m, e = bytes.fromhex(case['m0']), bytes.fromhex(case['m']), bytes.fromhex(case['e'])
    kk = k or sk
    c = R.codec(algo, n, sk)
    p0 = bytes(c.encode(m0, k=k or None))
    try:
        with R.quiet():
            impl = bool(c.check(m, e, k=k or None))
    except Exception as ex:
        impl = ('EXC', repr(ex))
    d = dist_padded(n, kk, m, e, m0, p0)
    want = True if d == 0 else (False if d <= n - kk else None)
    model = ctx.model.run(['chk %d %d %d %d %s %s' % (algo, n, sk, k, hx(m), hx(e))])[0] == '1'
    return {'holds': want is None or impl == want, 'implementation': impl, 'property_expects': want, 'model': model,
            'distance_after_padding': d, 'n-k': n - kk, 'parity_length_ok': len(p0) == n - kk}


def shrink(ctx, case):
    return case
