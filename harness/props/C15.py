# C15 — the index companion (.idx) written at generation and `pff recover` (repair_ecc.py):
# correspondence of Index.v with header_ecc / structural_adaptive_ecc generation and with
# repair_ecc.main, and the property predicate evaluated on the real files.
import contextlib, io, itertools, os, shutil, signal, struct, tempfile
from common import hx, hxl, unhx

RULE = ('generation: both tools\' real main([... -g ...]) on small temp trees (empty files, sizes with 1..10 digits, nested and '
        'multi-block paths, latin-1 names, several block sizes / intra rates / codecs 1-3); the .idx bytes are compared with '
        'the extracted gen_index (codec = ECCMan.encode answering the model\'s queries) and the offsets predicate is evaluated on '
        'the real ecc file. recovery: every subset of markers of 1- and 2-file trees (all 2^5 / 2^10 subsets) and random '
        'subsets of larger trees overwritten with random bytes; index records with 0..9 (incl. exactly 9) wrong bytes, records '
        'with 10..27 wrong bytes, parity-valid records of impossible kind / position, truncated or extra partial last record; '
        'real repair_ecc.main([-i, --index, -o, -t 0]) in its own cwd versus the extracted recover fed with the recorded '
        'check/decode traffic (oracle-miss = failure). non-trivial = at least one marker destroyed or one index byte wrong; '
        'distinct by (tool, tree, damage).')
TRUSTED_EXTRA = ['modelled: index bookkeeping of header_ecc.py / structural_adaptive_ecc.py (generation) and the index loop + '
                 'Hamming stage of repair_ecc.main; files are modelled as byte lists; the (27,9) index codec is an oracle '
                 '(ECCMan.encode/check/decode recorded and replayed into the model)',
                 'struct.pack(">Q") / unpack modelled by be64/unbe (round trip proved, compared on boundary values)']
ASSUMPTIONS = ['dec_complete: the third-party decoder returns the codeword when at most 9 of the 27 bytes are wrong (tested on every generated record)',
               'code_dist: two different codewords of the (27,9) index code differ in more than 18 bytes (to be discharged from the Reed-Solomon algebra; tested through check on damaged records)',
               '"damaged beyond repair" = the decoder raises or its answer fails the re-check or does not describe a marker inside the file; a record that decodes to another valid in-range record is indistinguishable from a genuine one (checked per case: none accepted)',
               'ecc file shorter than 2^64 bytes (struct.pack limit)']

EM = b'\xfe\xff\xfe\xff\xfe\xff\xfe\xff\xfe\xff'
FD = b'\xfa\xff\xfa\xff\xfa'
MARK = {0x31: EM, 0x32: FD}
BS = 65535

_gen_cache = {}
_off_cache = {}
_work = [None]


def workdir():
    if _work[0] is None:
        _work[0] = tempfile.mkdtemp(prefix='pffc15')
    return _work[0]


def cleanup():
    if _work[0]:
        shutil.rmtree(_work[0], ignore_errors=True)
        _work[0] = None
    _gen_cache.clear()
    _off_cache.clear()


class RunTimeout(BaseException):
    pass


def _alarm(signum, frame):
    raise RunTimeout('implementation still running after the time limit')


@contextlib.contextmanager
def quiet(cwd, limit=60):
    """Own cwd, no console output, and a wall-clock limit (a defective recover can grow the output
    into a terabyte sparse file and then scan it: that must end as an observable, not hang)."""
    old = os.getcwd()
    os.chdir(cwd)
    sink = io.StringIO()
    prev = signal.signal(signal.SIGALRM, _alarm)
    signal.setitimer(signal.ITIMER_REAL, limit)
    try:
        with contextlib.redirect_stdout(sink), contextlib.redirect_stderr(sink):
            yield
    finally:
        signal.setitimer(signal.ITIMER_REAL, 0)
        signal.signal(signal.SIGALRM, prev)
        os.chdir(old)


def content_bytes(spec):
    kind, v = spec.split(':', 1)
    return bytes.fromhex(v) if kind == 'hex' else None


def content_size(spec):
    kind, v = spec.split(':', 1)
    return len(v) // 2 if kind == 'hex' else int(v)


def generate(tool, tree, gen_args):
    """Run the real generation; returns (ecc bytes, idx bytes, walk order of (relpath, size))."""
    key = (tool, tuple(map(tuple, tree)), tuple(gen_args))
    if key in _gen_cache:
        return _gen_cache[key]
    from pyFileFixity import header_ecc, structural_adaptive_ecc
    # a third of the generations run under a folder whose name has non-ASCII letters: the comment preamble repeats argv (UTF-8:
    # more bytes than characters), and the index records byte offsets
    import zlib
    pre = 'g_archive_donn\xe9es_\xe9t\xe9_\xfe\xff_' if zlib.crc32(repr(key).encode()) % 3 == 0 else 'g'
    d = tempfile.mkdtemp(prefix=pre, dir=workdir())
    root = os.path.join(d, 'tree')
    os.mkdir(root)
    for rel, spec in tree:
        p = os.path.join(root, *rel.split('/'))
        os.makedirs(os.path.dirname(p), exist_ok=True)
        with open(p, 'wb') as f:
            if spec.startswith('hex:'):
                f.write(content_bytes(spec))
            else:
                f.truncate(int(spec.split(':')[1]))   # sparse file of that size
    db = os.path.join(d, 'e.ecc')
    main = header_ecc.main if tool == 'he' else structural_adaptive_ecc.main
    try:
        with quiet(d):
            rc = main(['-i', root, '-d', db, '-g', '-f', '--silent'] + list(gen_args))
        res = (rc, open(db, 'rb').read(), open(db + '.idx', 'rb').read())
    except BaseException as e:  # an exception is an observable
        res = (('EXC', repr(e)), b'', b'')
    shutil.rmtree(d, ignore_errors=True)
    _gen_cache[key] = res
    return res


def walk_order(tree):
    """recwalk order: files of a directory sorted, then sub-directories sorted, depth first."""
    def rec(prefix, items):
        files = sorted(r for r in items if '/' not in r)
        dirs = sorted(set(r.split('/', 1)[0] for r in items if '/' in r))
        out = [prefix + f for f in files]
        for dn in dirs:
            out += rec(prefix + dn + '/', [r.split('/', 1)[1] for r in items if r.startswith(dn + '/')])
        return out
    return rec('', [r for r, _ in tree])


def parse_ecc(ecc):
    """Independent of the index: split the real ecc file at the markers."""
    parts = ecc.split(EM)
    pre, fields = parts[0], []
    for p in parts[1:]:
        f = p.split(FD, 4)
        if len(f) != 5:
            return pre, None
        fields += f
    return pre, fields


def offsets_predicate(ecc, idx, tree):
    """C15, first sentence, straight from the statement: one 27-byte record per marker and
    delimiter of every entry, kinds 1,2,2,2,2, the offset is where that marker starts in the
    ecc file (the place a reader scanning the entry finds it), parity valid."""
    from pyFileFixity.lib.eccman import ECCMan
    order = walk_order(tree)
    sizes = dict((r, content_size(s)) for r, s in tree)
    probs = []
    if len(idx) != 27 * 5 * len(order):
        return ['index length %d for %d entries' % (len(idx), len(order))]
    man = ECCMan(27, 9, algo=3)
    pos = ecc.find(EM)
    for i, rel in enumerate(order):
        recs = [idx[27 * (5 * i + j):27 * (5 * i + j + 1)] for j in range(5)]
        kinds = bytes(r[0] for r in recs)
        offs = [struct.unpack('>Q', r[1:9])[0] for r in recs]
        if kinds != b'12222':
            probs.append('entry %d kinds %r' % (i, kinds))
        for r in recs:
            if not man.check(r[:9], r[9:]):
                probs.append('entry %d record parity invalid' % i)
        path, size = rel.encode('latin-1'), str(sizes[rel]).encode()
        want = [pos, pos + 10 + len(path), pos + 10 + len(path) + 5 + len(size)]
        if ecc[want[0]:want[0] + 10] != EM or ecc[want[0] + 10:want[1]] != path or ecc[want[1]:want[1] + 5] != FD \
                or ecc[want[1] + 5:want[2]] != size or ecc[want[2]:want[2] + 5] != FD:
            probs.append('entry %d: layout of marker/path/size not as generated' % i)
        o3 = ecc.find(FD, want[2] + 5)
        o4 = ecc.find(FD, o3 + 5)
        want += [o3, o4]
        if offs != want:
            probs.append('entry %d offsets %r, markers are at %r' % (i, offs, want))
        for k, o in zip(kinds, offs):
            if ecc[o:o + len(MARK.get(k, b'?'))] != MARK.get(k):
                probs.append('entry %d: bytes at offset %d are not the marker of kind %r' % (i, o, k))
        nxt = ecc.find(EM, o4 + 5) if o4 >= 0 else -1
        if i + 1 < len(order):
            if nxt < 0:
                probs.append('entry %d: no next entry marker' % i)
                break
            pos = nxt
        elif nxt >= 0:
            probs.append('more entry markers than files')
    return probs


class Recorder:
    """Wraps the ECCMan used by repair_ecc: records check / decode traffic of the index codec."""
    def __init__(self):
        self.chk, self.dec = [], []

    def install(self, mod):
        rec, base = self, mod.ECCMan
        from reedsolo import ReedSolomonError
        from unireedsolomon import RSCodecError

        class RecMan(base):
            def check(self, message, ecc, k=None):
                r = base.check(self, message, ecc, k=k)
                rec.chk.append((bytes(message), bytes(ecc), bool(r)))
                return r

            def decode(self, message, ecc, *a, **kw):
                try:
                    r = base.decode(self, message, ecc, *a, **kw)
                except (ReedSolomonError, RSCodecError):
                    rec.dec.append((bytes(message), bytes(ecc), None))
                    raise
                rec.dec.append((bytes(message), bytes(ecc), (bytes(r[0]), bytes(r[1]))))
                return r
        self.base, self.mod = base, mod
        mod.ECCMan = RecMan

    def remove(self):
        self.mod.ECCMan = self.base


def run_recover(ecc_d, idx_d, algo=3, threshold='0', verbose=False, use_index=True):
    """The real repair_ecc.main in its own cwd. Returns (rc | ('EXC', ..), output bytes | None,
    inputs untouched?, recorder)."""
    from pyFileFixity import repair_ecc
    d = tempfile.mkdtemp(prefix='r', dir=workdir())
    rec = Recorder()
    try:
        open(os.path.join(d, 'd.ecc'), 'wb').write(ecc_d)
        open(os.path.join(d, 'd.ecc.idx'), 'wb').write(idx_d)
        args = ['-i', 'd.ecc', '-o', 'o.ecc', '-t', threshold, '--silent', '--ecc_algo', str(algo)]
        if use_index:
            args += ['--index', 'd.ecc.idx']
        if verbose:
            args += ['-v']
        rec.install(repair_ecc)
        try:
            with quiet(d, limit=20):
                rc = repair_ecc.main(args)
        except BaseException as e:
            rc = ('EXC', repr(e)[:200])
        finally:
            rec.remove()
        op = os.path.join(d, 'o.ecc')
        out = None
        if os.path.exists(op):
            if os.path.getsize(op) > len(ecc_d) + (1 << 20):   # never read a runaway (sparse) output
                rc = ('EXC', 'output file grew to %d bytes (input %d); rc=%r' % (os.path.getsize(op), len(ecc_d), rc))
            else:
                out = open(op, 'rb').read()
        same = open(os.path.join(d, 'd.ecc'), 'rb').read() == ecc_d and open(os.path.join(d, 'd.ecc.idx'), 'rb').read() == idx_d
        return rc, out, same, rec
    finally:
        shutil.rmtree(d, ignore_errors=True)


def craft_record(kind, off):
    from pyFileFixity.lib.eccman import ECCMan
    m = bytes([kind]) + struct.pack('>Q', off)
    return m + bytes(ECCMan(27, 9, algo=3).encode(m))


def apply_damage(case, ecc, idx):
    """Returns (damaged ecc, damaged idx, fate per marker: 'ok' | 'lost' | 'either' | 'wrong')."""
    n = len(idx) // 27
    spans = []
    for j in range(n):
        r = idx[27 * j:27 * j + 27]
        spans.append((struct.unpack('>Q', r[1:9])[0], MARK[r[0]]))
    e = bytearray(ecc)
    for spec in case['markers']:       # [j, hex pattern] overwrite, or [j, 'flip', position, xor] one wrong byte
        o, mk = spans[spec[0]]
        if spec[1] == 'flip':
            e[o + spec[2] % len(mk)] ^= spec[3]
        else:
            repl = bytes.fromhex(spec[1])
            e[o:o + len(mk)] = (repl * len(mk))[:len(mk)]
    recs = [bytearray(idx[27 * j:27 * j + 27]) for j in range(n)]
    wrong = [set() for _ in range(n)]
    fate = ['ok'] * n
    tail = b''
    cut = 0
    for op in case['idx_ops']:
        if op[0] == 'flip':
            for p, x in op[2]:
                recs[op[1]][p] ^= x
                wrong[op[1]].add(p)
        elif op[0] == 'rand':
            recs[op[1]] = bytearray(bytes.fromhex(op[2]))
            fate[op[1]] = 'lost'
        elif op[0] == 'craft':
            kind, spec = op[2], op[3]
            off = len(ecc) + int(spec[4:]) if isinstance(spec, str) else spec
            recs[op[1]] = bytearray(craft_record(kind, off))
            valid = kind in MARK and off + len(MARK[kind]) <= len(ecc)
            fate[op[1]] = 'wrong' if valid and (off, MARK[kind]) != spans[op[1]] else ('ok' if valid else 'lost')
        elif op[0] == 'copyrec':
            # records dst .. dst+count-1 replaced, record-aligned, by the (pristine) records src .. (a sector of the index overwritten
            # with a later sector): the replaced records are lost, every other record is intact and must still be used
            for i_ in range(op[3]):
                if op[1] + i_ < n and op[2] + i_ < n:
                    recs[op[1] + i_] = bytearray(idx[27 * (op[2] + i_):27 * (op[2] + i_) + 27])
                    fate[op[1] + i_] = 'lost'
        elif op[0] == 'cut':
            cut = op[1]
        elif op[0] == 'append':
            tail = bytes.fromhex(op[1])
    for j in range(n):
        if fate[j] == 'ok' and len(wrong[j]) > 9:
            fate[j] = 'lost'
    idx_d = b''.join(bytes(r) for r in recs)
    cut = min(cut, len(idx_d))
    if cut:
        idx_d = idx_d[:len(idx_d) - cut]
        full, part = divmod(cut, 27)
        for j in range(n - full, n):
            fate[j] = 'lost'
        if part:
            j = n - full - 1
            if j >= 0 and fate[j] != 'wrong':
                fate[j] = 'either'
    idx_d += tail
    return bytes(e), idx_d, fate, spans


def recover_predicate(ecc, ecc_d, fate, spans, rc, out, same, tail_dup=None):
    """C15, second sentence, straight from the statement."""
    probs = []
    if rc != 0:
        probs.append('abnormal termination: %r' % (rc,))
    if out is None:
        return probs + ['no output file']
    if not same:
        probs.append('input ecc/index file modified')
    if len(out) != len(ecc):
        return probs + ['output length %d, pristine %d' % (len(out), len(ecc))]
    covered = bytearray(len(ecc))
    for j, (o, mk) in enumerate(spans):
        for i in range(o, o + len(mk)):
            covered[i] = 1
        got, f = out[o:o + len(mk)], fate[j]
        if tail_dup == j and f == 'lost':
            f = 'either'
        if f == 'ok' and got != mk:
            probs.append('marker %d (record intact or within 9 wrong bytes) not restored' % j)
        elif f == 'lost' and got != ecc_d[o:o + len(mk)]:
            probs.append('marker %d: record beyond repair but bytes rewritten' % j)
        elif f == 'either' and got != mk and got != ecc_d[o:o + len(mk)]:
            probs.append('marker %d: neither restored nor left alone' % j)
    for i in range(len(ecc)):
        if not covered[i] and out[i] != ecc[i]:
            probs.append('byte %d outside every marker span changed' % i)
            break
    if all(f == 'ok' for f in fate) and out != ecc:
        probs.append('all records repairable but output differs from the pristine ecc file')
    return probs


def tables(rec):
    cm, ce, ca, seen = [], [], bytearray(), set()
    for m, e, r in rec.chk:
        if (m, e) not in seen:
            seen.add((m, e)); cm.append(m); ce.append(e); ca.append(1 if r else 0)
    dm, de, dv, seen = [], [], [], set()
    for m, e, r in rec.dec:
        if (m, e) not in seen:
            seen.add((m, e)); dm.append(m); de.append(e)
            dv.append(b'' if r is None else bytes([len(r[0])]) + r[0] + r[1])
    return '%s %s %s %s %s %s' % (hxl(cm), hxl(ce), hx(bytes(ca)), hxl(dm), hxl(de), hxl(dv))


def thresholds(t):
    return int(round(len(EM) * float(t), 0)), int(round(len(FD) * float(t), 0))


def eval_impl(ctx, case):
    """One full scenario: generate, check the index, damage, recover.  Returns (problems of the
    property predicate, model-vs-implementation problems or a pending (model request, rc, output), detail)."""
    tool, tree, gen_args = case['tool'], case['tree'], case.get('gen_args', [])
    rc, ecc, idx = generate(tool, tree, gen_args)
    detail = {}
    if rc != 0:
        return ['generation ended abnormally: %r' % (rc,)], [], {'gen_rc': repr(rc)}
    okey = (tool, repr(tree), repr(gen_args))
    if okey not in _off_cache:
        _off_cache[okey] = ['offsets: ' + p for p in offsets_predicate(ecc, idx, tree)]
    probs = _off_cache[okey]
    if probs:
        return probs, [], {'stage': 'generation'}
    if case.get('only_gen'):
        return [], gen_model_compare(ctx, case, ecc, idx), {'idx_len': len(idx)}
    ecc_d, idx_d, fate, spans = apply_damage(case, ecc, idx)
    thr = case.get('threshold', '0')
    rc, out, same, rec = run_recover(ecc_d, idx_d, algo=case.get('algo', 3), threshold=thr, verbose=case.get('verbose', False))
    # hypothesis check: a record meant to be beyond repair must have been rejected by the codec
    accepted = set()
    for m, e, r in rec.chk:
        if r and len(m) == 9 and m[0] in MARK and struct.unpack('>Q', m[1:])[0] + len(MARK[m[0]]) <= len(ecc):
            accepted.add((struct.unpack('>Q', m[1:])[0], MARK[m[0]]))
    dropped = any(f == 'wrong' for f in fate) or bool(accepted - set(spans))
    if accepted - set(spans) and not any(f == 'wrong' for f in fate):
        ctx.count('misdecode_to_valid_record_dropped')
    for j, f in enumerate(fate):
        if f == 'lost' and spans[j] in accepted:
            fate[j] = 'either'
    line = 'idx_recover %s %s %d %d %d %s' % ((hx(ecc_d), hx(idx_d)) + thresholds(thr) + (BS, tables(rec)))
    # records within capacity (<= 9 wrong bytes) on which the real decoder raised: dec_complete falsified
    raised = set((m, e) for m, e, r in rec.dec if r is None)
    refused = [j for j, f in enumerate(fate) if f == 'ok' and 27 * j + 27 <= len(idx_d)
               and (idx_d[27 * j:27 * j + 9], idx_d[27 * j + 9:27 * j + 27]) in raised]
    pprobs = []
    if not dropped and float(thr) == 0:
        pprobs = recover_predicate(ecc, ecc_d, fate, spans, rc, out, same, case.get('tail_dup'))
        pprobs = [p + (' [decoder refused this record]' if any(p.startswith('marker %d ' % j) for j in refused) else '') for p in pprobs]
    detail = {'rc': repr(rc), 'fates': ''.join(f[0] for f in fate), 'records': len(fate),
              'chk_calls': len(rec.chk), 'dec_calls': len(rec.dec), 'predicate_skipped_misdecode': dropped,
              'decoder_refused_within_capacity': refused, 'algo': case.get('algo', 3)}
    return pprobs, (line, rc, out), detail


def model_compare(mo, rc, out):
    mprobs = []
    if mo.startswith('ERR'):
        mprobs.append('model error: ' + mo[:200])
    else:
        mout, miss = mo.split(' ')
        if int(miss):
            mprobs.append('oracle-miss: %s model queries not asked by the implementation' % miss)
        if isinstance(rc, tuple) or out is None:
            mprobs.append('implementation ended abnormally (%r), model returns a file' % (rc,))
        elif unhx(mout) != out:
            diff = [i for i in range(min(len(out), len(unhx(mout)))) if out[i] != unhx(mout)[i]][:5]
            mprobs.append('model output differs from implementation output at %r (lengths %d / %d)' % (diff, len(unhx(mout)), len(out)))
    return mprobs


def eval_case(ctx, case):
    pprobs, pend, detail = eval_impl(ctx, case)
    if isinstance(pend, tuple):
        pend = model_compare(ctx.model.run([pend[0]])[0], pend[1], pend[2])
    return pprobs, pend, detail


def gen_model_compare(ctx, case, ecc, idx):
    """gen_index of the model (codec = real ECCMan.encode answering the model's queries) = real .idx."""
    from pyFileFixity.lib.eccman import ECCMan
    pre, fields = parse_ecc(ecc)
    if fields is None:
        ctx.count('ambiguous_layout_dropped')
        return []
    if case.get('nomodel'):
        ctx.count('generation_model_comparison_skipped (fields not readable back unambiguously)')
        return []
    sa = 0 if case['tool'] == 'he' else 1
    o = ctx.model.run(['idx_eccfile %s %s' % (hx(pre), hxl(fields)), 'idx_msgs %d %s %s' % (sa, hx(pre), hxl(fields))])
    probs = []
    if unhx(o[0]) != ecc:
        probs.append('model ecc_file differs from the real ecc file')
    msgs = [unhx(x) for x in o[1].split(',')] if o[1] != '.' else []
    man = ECCMan(27, 9, algo=3)
    par = [bytes(man.encode(m)) for m in msgs]
    g = ctx.model.run(['idx_gen %d %s %s %s %s' % (sa, hx(pre), hxl(fields), hxl(msgs), hxl(par))])[0]
    if unhx(g) != idx:
        probs.append('model gen_index differs from the real .idx (%d vs %d bytes)' % (len(unhx(g)), len(idx)))
    return probs


_pending = []


def check_case(ctx, case):
    try:
        pprobs, pend, detail = eval_impl(ctx, case)
    except Exception as e:  # harness-side trouble must be visible, never silent
        pprobs, pend, detail = ['harness exception %r' % (e,)], [], {}
    if case.get('nomodel') and isinstance(pend, tuple):
        pend = []          # property predicate only (the extracted model with table-driven codec oracles is quadratic in the number of records)
    _pending.append((case, pprobs, pend, detail))
    if len(_pending) >= 100:
        flush(ctx)


def flush(ctx):
    todo = [p for p in _pending if isinstance(p[2], tuple)]
    outs = ctx.model.run([p[2][0] for p in todo]) if todo else []
    res = {id(p): model_compare(o, p[2][1], p[2][2]) for p, o in zip(todo, outs)}
    for p in _pending:
        case, pprobs, pend, detail = p
        account(ctx, case, pprobs, res.get(id(p), pend if isinstance(pend, list) else []), detail)
    del _pending[:]


def account(ctx, case, pprobs, mprobs, detail):
    ctx.evaluations += 1
    ctx.count('tool=%s' % case['tool'])
    if case.get('only_gen'):
        ctx.count('generation_cases')
    else:
        ctx.count('recover_cases')
        ctx.count('markers_destroyed=%d' % len(case['markers']))
        for op in case['idx_ops']:
            ctx.count('idxop=%s%s' % (op[0], ('/%d' % len(op[2])) if op[0] == 'flip' else ''))
        for f in detail.get('fates', ''):
            ctx.count('record_fate=%s' % {'o': 'repairable', 'l': 'beyond_repair', 'e': 'truncated', 'w': 'valid_but_other'}[f])
        if case['markers'] or case['idx_ops']:
            ctx.nontriv(repr(case))
    if mprobs:
        ctx.disagree(case, mprobs, detail)
    if pprobs:
        ctx.fail(case, {'problems': pprobs[:6], 'detail': detail})
    elif not mprobs:
        ctx.traces += 1
    ctx.sample({'case': {k: (v if k != 'tree' else [[r, s[:40]] for r, s in v]) for k, v in case.items()}, 'detail': detail}, cap=5)


# ---------------------------------------------------------------- generators

def rb(rng, n):
    return bytes(rng.randrange(256) for _ in range(n))


def marker_damage(rng, j):
    """arbitrary bytes over the whole marker (1-, 5- or 10-byte pattern repeated), or a single wrong byte"""
    if rng.random() < 0.2:
        return [j, 'flip', rng.randrange(10), rng.randrange(1, 256)]
    return [j, rb(rng, rng.choice([1, 2, 5, 10])).hex()]


def hexfile(rng, n):
    return 'hex:' + rb(rng, n).hex()


def small_trees(rng):
    long_name = 'p' * 140 + '.bin'          # longer than one intra block (128) at the default geometry
    return [
        [['a.txt', 'hex:' + b'hello world'.hex()]],
        [['empty.bin', 'hex:']],
        [['a.txt', hexfile(rng, 37)], ['empty', 'hex:']],
        [['sub/deep/' + long_name, hexfile(rng, 300)], ['b', hexfile(rng, 1)]],
        [['z.dat', hexfile(rng, 999)], ['d1/x', hexfile(rng, 1000)], ['d1/d2/y', hexfile(rng, 10)], ['d0/e', 'hex:']],
        [['caf\xe9 \xe0 la cr\xe8me.txt', hexfile(rng, 99)], ['r\xe9p/\xfcber.b', hexfile(rng, 100)]],
        [['big.bin', 'zeros:1234567890'], ['s', hexfile(rng, 12345)]],
    ]


GEN_ARGS = {
    'he': [[], ['--max_block_size', '27'], ['-ri', '1.0', '--max_block_size', '40'], ['--ecc_algo', '2', '-s', '300'],
           ['--ecc_algo', '1', '--max_block_size', '60', '-r', '0.5'], ['--hash', 'shortmd5', '-ri', '0.2']],
    'sa': [[], ['--max_block_size', '27'], ['-ri', '1.0', '--max_block_size', '40'], ['--ecc_algo', '2', '-s', '300'],
           ['--ecc_algo', '1', '--max_block_size', '60', '-r1', '0.5'], ['--hash', 'shortmd5', '-ri', '0.2']],
}


def usable(tool, tree):
    # the whole-file tool reads every byte of every file: keep sparse giants for the header tool
    return tool == 'he' or all(content_size(s) < 10 ** 6 for _, s in tree)


def flips(rng, k):
    return [[p, rng.randrange(1, 256)] for p in rng.sample(range(27), k)]


def random_idx_ops(rng, nrec, mode):
    ops = []
    if mode == 'clean':
        return ops
    for j in range(nrec):
        r = rng.random()
        if mode == 'nine':
            ops.append(['flip', j, flips(rng, 9)])
        elif mode == 'light':
            if r < 0.7:
                ops.append(['flip', j, flips(rng, rng.randrange(0, 10))])
        elif mode == 'mixed':
            if r < 0.45:
                ops.append(['flip', j, flips(rng, rng.choice([1, 2, 5, 8, 9, 9]))])
            elif r < 0.6:
                ops.append(['rand', j, rb(rng, 27).hex()])
            elif r < 0.7:
                ops.append(['flip', j, flips(rng, rng.choice([10, 11, 14, 19, 27]))])
            elif r < 0.78:
                ops.append(['craft', j, rng.choice([0x30, 0x33, 0x37, 0x39, 0x00, 0x41, 0x20, 0xb2, 0x31, 0x32]),
                            rng.choice(['size+0', 'size-1', 'size-4', 'size-9', 'size+1', 'size+100', 2 ** 40, 2 ** 63 - 1, 2 ** 63, 2 ** 64 - 1])])
    if mode == 'mixed' and nrec:
        r = rng.random()
        if r < 0.25:
            ops.append(['cut', rng.choice([1, 5, 8, 9, 10, 17, 18, 19, 24, 26, 27, 28, 40, 54 + 3])])
        elif r < 0.4:
            ops.append(['append', rb(rng, rng.randrange(1, 27)).hex()])
    return ops


def run(ctx):
    from props import cli_proc
    cli_proc.stream(ctx, ['C15', 'C15@recover', 'C15@repair_ecc', 'C15-badrecord'])
    rng = ctx.rng
    thorough = ctx.tier == 'thorough'
    try:
        # 0. be64 against struct.pack
        vals = [0, 1, 255, 256, 65535, 65536, 2 ** 32 - 1, 2 ** 32, 2 ** 56 - 1, 2 ** 56, 2 ** 62 - 1] + [rng.randrange(2 ** 62) for _ in range(40)]
        for v, o in zip(vals, ctx.model.run(['idx_be64 %d' % v for v in vals])):
            ctx.evaluations += 1
            if o != '%s %d' % (hx(struct.pack('>Q', v)), v):
                ctx.disagree({'be64': v}, o, hx(struct.pack('>Q', v)))
        # 1. corpus of fixed cases (minimised earlier failures and boundary scenarios)
        t1 = [['a.txt', 'hex:' + b'hello world'.hex()], ['b/c.txt', 'hex:']]
        corpus = [
            {'tool': 'he', 'tree': t1, 'markers': [[j, 'aa'] for j in range(10)], 'idx_ops': [['rand', 1, '00' * 27]]},
            {'tool': 'sa', 'tree': t1, 'markers': [[j, '00'] for j in range(10)], 'idx_ops': [['rand', 0, 'ff' * 27], ['rand', 9, '31' * 27]]},
            {'tool': 'he', 'tree': t1, 'markers': [[9, 'aa']], 'idx_ops': [['cut', 24]]},
            {'tool': 'sa', 'tree': t1, 'markers': [[9, 'aa']], 'idx_ops': [['cut', 18]]},
            {'tool': 'he', 'tree': t1, 'markers': [[9, 'aa'], [8, '61']], 'idx_ops': [['cut', 9]]},
            {'tool': 'he', 'tree': t1, 'markers': [[9, 'aa'], [8, '61']], 'idx_ops': [['cut', 27 + 13]]},
            {'tool': 'he', 'tree': t1, 'markers': [[3, 'aa']], 'idx_ops': [['craft', 3, 0x37, 'size-9']]},
            {'tool': 'he', 'tree': t1, 'markers': [[3, 'aa']], 'idx_ops': [['craft', 3, 0x32, 'size-4']]},
            {'tool': 'he', 'tree': t1, 'markers': [[3, 'aa']], 'idx_ops': [['craft', 3, 0x32, 'size-5']]},
            {'tool': 'sa', 'tree': t1, 'markers': [[0, 'aa']], 'idx_ops': [['craft', 0, 0x31, 2 ** 63]]},
            {'tool': 'sa', 'tree': t1, 'markers': [[0, 'aa']], 'idx_ops': [['craft', 0, 0x30, 0]]},
            {'tool': 'he', 'tree': t1, 'markers': [[j, 'fe'] for j in range(10)], 'idx_ops': [['flip', j, [[p, 0xff] for p in range(9)]] for j in range(10)]},
            {'tool': 'he', 'tree': t1, 'markers': [[j, 'fe'] for j in range(10)], 'idx_ops': [['flip', j, [[p, 0x01] for p in range(18, 27)]] for j in range(10)], 'verbose': True},
            {'tool': 'he', 'tree': t1, 'markers': [[2, 'aa']], 'idx_ops': [['append', '31000000']], 'algo': 1},
            {'tool': 'he', 'tree': t1, 'markers': [[2, 'aa']], 'idx_ops': [['rand', 2, '5a' * 27], ['flip', 4, [[p, 7] for p in range(0, 27, 3)]]], 'algo': 2},
            {'tool': 'he', 'tree': [], 'markers': [], 'idx_ops': []},
            # names holding bytes of the field delimiter (latin-1 \xfa\xff...): the index is computed from the field LENGTHS at generation
            # and must still point at the five real markers of every entry (predicate only: the harness feeds the model with fields read
            # back by its own parser, which such names mislead - the open format finding of C03/C09)
            {'tool': 'he', 'tree': [['ab\xfa\xff', 'hex:4142'], ['x\xfa\xff\xfa\xff\xfacd', 'hex:43'], ['plain', 'hex:44']], 'markers': [], 'idx_ops': [], 'only_gen': True, 'nomodel': True},
            {'tool': 'sa', 'tree': [['ab\xfa\xff', 'hex:4142'], ['sub\xfa\xff/f.txt', 'hex:43'], ['plain', 'hex:44']], 'markers': [], 'idx_ops': [], 'only_gen': True, 'nomodel': True},
            # index records overwritten by LATER records of the same index (valid records, out of order), every marker destroyed
            {'tool': 'he', 'tree': [['f%02d' % i, 'hex:4142'] for i in range(12)], 'markers': [[j, 'aa'] for j in range(60)], 'idx_ops': [['copyrec', 5, 31, 9]]},
            {'tool': 'sa', 'tree': [['f%02d' % i, 'hex:4142'] for i in range(12)], 'markers': [[j, '00'] for j in range(60)], 'idx_ops': [['copyrec', 0, 40, 3], ['copyrec', 50, 10, 4]]},
            # an index larger than 65535 bytes (> 485 entries x 5 records x 27 bytes): records beyond that offset must be read as well
            {'tool': 'he', 'tree': [['f%03d' % i, 'hex:41'] for i in range(500)], 'markers': [[j, 'aa'] for j in range(5 * 486, 5 * 500)], 'idx_ops': [], 'nomodel': True},
        ]
        for c in corpus:
            check_case(ctx, c)
        # 2. generation: offsets predicate + gen_index correspondence, all trees x tools x parameter sets
        trees = small_trees(rng)
        combos = []
        for tool in ('he', 'sa'):
            for ti, tree in enumerate(trees):
                gas = GEN_ARGS[tool] if thorough else ([GEN_ARGS[tool][0]] if ti in (1, 2) else []) + [GEN_ARGS[tool][(ti + 1) % 6]]
                for ga in gas:
                    if usable(tool, tree):
                        combos.append((tool, tree, ga))
                        check_case(ctx, {'tool': tool, 'tree': tree, 'gen_args': ga, 'only_gen': True, 'markers': [], 'idx_ops': []})
        nrg = 4 if not thorough else 40
        for _ in range(nrg):
            tool = rng.choice(['he', 'sa'])
            tree = []
            for k in range(rng.randrange(0, 5)):
                depth = rng.randrange(0, 3)
                name = '/'.join(['d%d' % rng.randrange(3) for _ in range(depth)] + ['f%d_%s' % (k, 'n' * rng.choice([0, 1, 30, 125, 126, 127, 128, 129, 200]))])
                tree.append([name, hexfile(rng, rng.choice([0, 1, 9, 10, 99, 100, 999, 1000, 1023, 1024, 1025, 5000]))])
            ga = rng.choice(GEN_ARGS[tool])
            combos.append((tool, tree, ga))
            check_case(ctx, {'tool': tool, 'tree': tree, 'gen_args': ga, 'only_gen': True, 'markers': [], 'idx_ops': []})
        # 3. recovery: every subset of markers destroyed (1 file: 2^5, 2 files: 2^10)
        one = [['only.bin', hexfile(rng, 20)]]
        two = [['a.txt', hexfile(rng, 37)], ['s/empty', 'hex:']]
        for tool in ('he', 'sa'):
            for tree, modes in ((one, ['clean', 'nine', 'mixed']), (two, ['light'] if not thorough else ['light', 'mixed'])):
                m = 5 * len(tree)
                for mode in modes:
                    for bits in range(2 ** m):
                        if not thorough and m == 10 and bits % 4 != 3 and bits != 0:
                            continue
                        sub = [j for j in range(m) if bits >> j & 1]
                        markers = [marker_damage(rng, j) for j in sub]
                        check_case(ctx, {'tool': tool, 'tree': tree, 'markers': markers, 'idx_ops': random_idx_ops(rng, m, mode)})
        # 4. recovery: larger trees, random subsets, all parameter sets and codecs
        nrnd = 50 if not thorough else 1200
        for _ in range(nrnd):
            tool, tree, ga = rng.choice(combos)
            m = 5 * len(tree)
            sub = [j for j in range(m) if rng.random() < rng.choice([0.2, 0.5, 1.0])]
            markers = [marker_damage(rng, j) for j in sub]
            case = {'tool': tool, 'tree': tree, 'gen_args': ga, 'markers': markers,
                    'idx_ops': random_idx_ops(rng, m, rng.choice(['clean', 'nine', 'light', 'mixed', 'mixed'])),
                    'algo': rng.choice([3, 3, 3, 1, 2])}
            if rng.random() < 0.1:
                case['verbose'] = True
            if rng.random() < 0.15 and m:     # an extra partial copy of a genuine record after the last one
                rc, ecc, idx = generate(tool, tree, ga)
                j = rng.randrange(m)
                if rc == 0 and not any(op[0] in ('cut', 'append') for op in case['idx_ops']):
                    case['idx_ops'].append(['append', idx[27 * j:27 * j + rng.choice([3, 9, 17, 18, 22, 26])].hex()])
                    case['tail_dup'] = j
            check_case(ctx, case)
        flush(ctx)
        # 5. the Hamming stage of the model against the implementation at thresholds > 0 (correspondence only)
        for _ in range(10 if not thorough else 80):
            tool = rng.choice(['he', 'sa'])
            tool, tree, ga = rng.choice(combos)
            rc, ecc, idx = generate(tool, tree, ga)
            if rc != 0:
                continue
            e = bytearray(ecc)
            for _ in range(rng.randrange(0, 12)):
                e[rng.randrange(len(e))] = rng.choice([0xfe, 0xff, 0xfa, rng.randrange(256)])
            for j in range(len(idx) // 27):       # and some markers with one or two wrong bytes
                if rng.random() < 0.5:
                    o = struct.unpack('>Q', idx[27 * j + 1:27 * j + 9])[0]
                    for _ in range(rng.choice([1, 1, 2])):
                        e[o + rng.randrange(5)] ^= rng.randrange(1, 256)
            thr = rng.choice(['0', '0', '0.1', '0.3', '0.5', '0.25'])
            rc, out, same, rec = run_recover(bytes(e), b'', threshold=thr, use_index=False)
            mo = ctx.model.run(['idx_hamming %s %d %d %d' % ((hx(bytes(e)),) + thresholds(thr) + (BS,))])[0]
            ctx.evaluations += 1
            ctx.count('hamming_stage_cases')
            if rc != 0 or out is None or unhx(mo) != out:
                ctx.disagree({'hamming_stage': True, 'tool': tool, 'threshold': thr, 'ecc': bytes(e).hex()},
                             'model output %d bytes' % len(unhx(mo)), 'rc=%r' % (rc,))
            if thr == '0' and out != bytes(e):
                ctx.fail({'hamming_stage': True, 'tool': tool, 'threshold': thr, 'ecc': bytes(e).hex()},
                         {'problems': ['Hamming stage at threshold 0 changed the file']})
    finally:
        del _pending[:]
        cleanup()


def decoder_case(case):
    """Root-cause replay: ECCMan(27, 9, algo).decode on a received word within capacity of a codeword."""
    from pyFileFixity.lib.eccman import ECCMan
    cw, rx = bytes.fromhex(case['codeword']), bytes.fromhex(case['received'])
    wrong = sum(a != b for a, b in zip(cw, rx))
    try:
        o = ECCMan(27, 9, algo=case['algo']).decode(rx[:9], rx[9:])
        got = (bytes(o[0]) + bytes(o[1])).hex()
    except Exception as e:
        got = 'EXC ' + repr(e)[:120]
    return {'holds': wrong > 9 or got == cw.hex(), 'wrong_bytes': wrong, 'decoder_answer': got}


def replay_case(ctx, case):
    if isinstance(case, dict) and case.get('kind') == 'cli-process':
        from props import cli_proc
        return cli_proc.replay(case)
    if case.get('decoder'):
        return decoder_case(case)
    try:
        if case.get('hamming_stage'):
            e = bytes.fromhex(case['ecc'])
            rc, out, same, rec = run_recover(e, b'', threshold=case['threshold'], use_index=False)
            mo = ctx.model.run(['idx_hamming %s %d %d %d' % ((hx(e),) + thresholds(case['threshold']) + (BS,))])[0]
            holds = rc == 0 and (float(case['threshold']) != 0 or out == e)
            return {'holds': holds, 'implementation_rc': repr(rc), 'model_equals_implementation': out is not None and unhx(mo) == out}
        if 'be64' in case:
            o = ctx.model.run(['idx_be64 %d' % case['be64']])[0]
            return {'holds': True, 'model': o, 'implementation': hx(struct.pack('>Q', case['be64']))}
        pprobs, mprobs, detail = eval_case(ctx, case)
        return {'holds': not pprobs, 'property_problems': pprobs, 'model_vs_implementation': mprobs, 'detail': detail}
    finally:
        cleanup()


def shrink(ctx, case):
    if isinstance(case, dict) and case.get('kind') == 'cli-process':
        return case
    if 'tree' not in case or case.get('algo') == 2:    # codec-2 cases depend on the exact error pattern
        return case
    if len(case['tree']) > 60:                        # the large-index case: its size IS the point; shrinking would rebuild hundreds of trees
        return case

    def bad(c):
        try:
            return bool(eval_case(ctx, c)[0])
        except Exception:
            return True
    cur = dict(case)
    improved = True
    while improved:
        improved = False
        cands = []
        for i in range(len(cur['idx_ops'])):
            cands.append(dict(cur, idx_ops=cur['idx_ops'][:i] + cur['idx_ops'][i + 1:]))
        for i in range(len(cur['markers'])):
            cands.append(dict(cur, markers=cur['markers'][:i] + cur['markers'][i + 1:]))
        for k in ('verbose', 'gen_args'):
            if cur.get(k):
                cands.append({kk: v for kk, v in cur.items() if kk != k})
        for i, op in enumerate(cur['idx_ops']):
            if op[0] == 'flip' and len(op[2]) > 1:
                cands.append(dict(cur, idx_ops=cur['idx_ops'][:i] + [['flip', op[1], op[2][:-1]]] + cur['idx_ops'][i + 1:]))
        for c in cands:
            if bad(c):
                cur, improved = c, True
                break
    return cur


def classify(case, detail):
    if isinstance(case, dict) and case.get('kind') == 'cli-process':
        return None
    """C15-codec2-decoder-incomplete: codec 2 only, and every complaint is a marker whose record
    (<= 9 wrong bytes) the third-party decoder refused, or the resulting difference from the pristine file."""
    if case.get('decoder'):
        return 'C15-codec2-decoder-incomplete' if case.get('algo') == 2 else None
    if case.get('algo') != 2 or 'tree' not in case:
        return None
    probs = detail.get('problems') if isinstance(detail, dict) else None
    inner = detail.get('detail', {}) if isinstance(detail, dict) else {}
    if probs is None:      # a model/implementation disagreement is never explained by this finding
        return None
    if not inner.get('decoder_refused_within_capacity'):
        return None
    for p in probs:
        if p.endswith('[decoder refused this record]') and 'not restored' in p:
            continue
        if p == 'all records repairable but output differs from the pristine ecc file':
            continue
        return None
    return 'C15-codec2-decoder-incomplete'
