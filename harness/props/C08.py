# C08 — ecc entries are independent.  Real tools end to end on temp trees: one entry of the ecc file is damaged
# (every damage class of the property), correction is run with the pristine and with the damaged ecc file on the
# same input tree, and (1) the extracted Stream model is compared with the observed entry loop, (2) the property
# predicate is evaluated on the implementation alone.
import os, shutil, tempfile, json, random
from props import streamlib as S
from props.streamlib import MARKER, DELIM

RULE = ('trees of 2..4 files (sizes 0..600, some input files damaged within/beyond capacity), both tools, parameter sets '
        'mb in {16,40,64,255} x header size {20,64,1024} x hashes, victim = first/middle/last entry, damage classes: few/many '
        'random bytes, zero-fill run, marker destroyed (overwritten / deleted), n-th delimiter destroyed, non-numeric size '
        '(+parity), garbage replacing any sub-range (any length, incl. empty entry), insertion, deletion, shortened track. '
        'Each scenario: pristine-ecc run and damaged-ecc run on the same input tree, both observed (get_next_entry spans, '
        'cursor before each scan, counters per entry, intra-ecc and block-stage traffic) and replayed in the extracted model. '
        'non-trivial = damaged-ecc run in which the victim entry is not processed as clean; distinct by (tool, params, damage bytes).')
TRUSTED_EXTRA = ['modelled: main-loop of header_ecc.main / structural_adaptive_ecc.main in correction mode (scan spec, entry_fields, '
                 'int(), skip rules, counters, exit status, output folder bookkeeping); parameters recorded from the run: '
                 'ecc_correct_intra(_stream) results, per-entry block-stage outcome, os.path.isfile/contents',
                 'harness speed-up: reedsolo.rs_generator_poly_all memoised (pure function of its arguments and the GF tables)']
ASSUMPTIONS = ['get_next_entry behaves as its spec entries_spec for the default 65535-byte buffer (C14)',
               'damage does not spell an entry marker, alone or with neighbouring bytes (checked per case; dropped and counted otherwise)',
               'the damaged entry does not decode to the path of another protected file (checked per case)']

PARAMS = [{'mb': 40, 'size': 64}, {'mb': 16, 'size': 20, 'ri': 1.0}, {'mb': 64, 'size': 1024, 'hash': 'shortmd5'},
          {'mb': 40, 'size': 64, 'r': 0.5, 'r1': 0.5, 'r2': 0.3, 'r3': 0.3, 'hash': 'minisha256'}, {'mb': 255, 'size': 1024}]
KINDS = ['rand_few', 'rand_many', 'zero', 'marker_over', 'marker_del', 'delim', 'size', 'garbage', 'insert', 'delete', 'short_track', 'empty', 'clone']


def rb(rng, n):
    return bytes(rng.randrange(256) for _ in range(n))


def make_files(rng, n):
    names = ['a.txt', 'sub/b.bin', 'c', 'sub/deep/d.dat', 'e e.txt']
    rng.shuffle(names)
    return {nm: rb(rng, rng.choice([0, 1, 19, 20, 21, 64, 65, 200, 300, 600])) for nm in names[:n]}


def damage(rng, db, ents, v, kind):
    """returns (damaged db, description) — bytes confined to entry v (its marker included)."""
    e = ents[v]
    lo, s, hi = e['mark'], e['s'], e['e']
    x = bytearray(db)
    if kind == 'rand_few':
        for _ in range(rng.choice([1, 2, 5])):
            x[rng.randrange(lo, hi)] = rng.randrange(256)
    elif kind == 'rand_many':
        a = rng.randrange(lo, hi); b = rng.randrange(a, hi + 1)
        x[a:b] = rb(rng, b - a)
    elif kind == 'zero':
        a = rng.randrange(lo, hi); b = min(hi, a + rng.choice([1, 5, 20, 100, 1000]))
        x[a:b] = bytes(b - a)
    elif kind == 'marker_over':
        x[lo:lo + 10] = rng.choice([bytes(10), rb(rng, 10), b'\xfe\xff' * 4 + b'\x00\x00'])
    elif kind == 'marker_del':
        x[lo:lo + 10] = rng.choice([b'', b'\xfe', rb(rng, 3)])
    elif kind == 'delim':
        p = e['d'][rng.randrange(4)]
        x[p:p + 5] = rng.choice([bytes(5), rb(rng, 5), b'', b'\xfa\xff', b'\xfa\xff\xfa\xff'])
    elif kind == 'size':
        p, q = e['d'][0] + 5, e['d'][1]
        x2 = bytearray(db)
        p2, q2 = e['d'][2] + 5, e['d'][3]
        if rng.random() < 0.7:
            x2[p2:q2] = rb(rng, q2 - p2)          # its parity first (higher offsets), then the field
        x2[p:q] = rng.choice([b'abc', b'', b'\x00', b'-1', b'1e3', b'9' * 30, b' 12 ', b'1_0', rb(rng, q - p)])
        x = x2
    elif kind == 'size_hs1':          # the size reads header size + 1 (same field length), its parity is replaced by random bytes
        p, q = e['d'][0] + 5, e['d'][1]
        p2, q2 = e['d'][2] + 5, e['d'][3]
        x[p2:q2] = rb(rng, q2 - p2)
        x[p:q] = (b'%d' % (int(rng.choice([65, 66])))).rjust(q - p, b'0')
    elif kind == 'garbage':
        a = rng.randrange(s, hi + 1); b = rng.randrange(a, hi + 1)
        x[a:b] = rb(rng, rng.choice([0, 1, 3, 50, 700]))
    elif kind == 'insert':
        a = rng.randrange(s, hi + 1)
        x[a:a] = rng.choice([rb(rng, 7), bytes(30), b'\xff' * 9, DELIM, b'/', b'\x00', b'\xfe\xff' * 3])
    elif kind == 'delete':
        a = rng.randrange(s, hi + 1); b = min(hi, a + rng.choice([1, 2, 10, 50, hi - a]))
        del x[a:b]
    elif kind == 'short_track':
        n = min(hi - e['track'], rng.choice([1, 2, 10, 50, 200])) if e['ok'] else 1
        del x[hi - n:hi]
    elif kind == 'empty':
        del x[s:hi]
    elif kind == 'longname':
        # the path separators of a long nested path overwritten and its intra-ecc destroyed: the path field now reads as ONE name
        # longer than any file system accepts (NAME_MAX 255); the tool must treat it like any other unrecoverable path
        p0, p1 = s, e['d'][0]
        for i in range(p0, p1):
            if x[i] == 0x2f:
                x[i] = 0x5f
        q0, q1 = e['d'][1] + 5, e['d'][2]
        for i in range(q0, q1):
            x[i] = rng.choice(b'abcdefghijklmnopqrstuvwxyz0123456789')
    elif kind == 'clone':
        # the victim's bytes (after its marker) are overwritten with the bytes found at the same offsets of ANOTHER entry: the victim
        # now decodes to that entry's path and size; the other entry itself is untouched and must still be processed as before
        o = ents[(v + 1) % len(ents)]
        L = min(hi - s, o['e'] - o['s'])
        x[s:s + L] = db[o['s']:o['s'] + L]
    return bytes(x)


def markers_ok(db, db2, ents, v, kind):
    """the damage spelled no marker: marker occurrences of db2 = those of db outside the victim (shifted), and the
    victim's own marker present or absent as a whole."""
    def occ(d):            # the scanner's (greedy, non-overlapping) marker occurrences
        out, p = [], d.find(MARKER)
        while p >= 0:
            out.append(p); p = d.find(MARKER, p + len(MARKER))
        return out
    shift = len(db2) - len(db)
    e = ents[v]
    want = [p for p in occ(db) if p < e['mark']] + [p + shift for p in occ(db) if p >= e['e']]
    got = occ(db2)
    rest = [p for p in got if p not in want]
    return all(p in got for p in want) and (rest == [] or rest == [e['mark']])


def setup_tree(tool, P, files, in_damage, rng):
    d = tempfile.mkdtemp(prefix='pffc08')
    for sub in ('in', 'out', 'cwd'):
        os.makedirs(os.path.join(d, sub))
    S.write_tree(d + '/in', files)
    rc = S.generate(tool, P, d + '/in', d + '/ecc.db', d + '/cwd')
    if rc != 0:
        shutil.rmtree(d, ignore_errors=True)
        raise RuntimeError('generation failed: %r' % (rc,))
    for rel, edits in in_damage.items():          # damage of the INPUT tree, same size (applied after generation)
        p = os.path.join(d, 'in', *rel.split('/'))
        b = bytearray(open(p, 'rb').read())
        for (off, val) in edits:
            if off < len(b):
                b[off] = val
        open(p, 'wb').write(bytes(b))
    return d


def run_one(ctx, tool, P, d, db, extra=()):
    open(d + '/ecc2.db', 'wb').write(db)
    S.clear_dir(d + '/out')
    res, obs = S.observed_correct(tool, P, d + '/in', d + '/ecc2.db', d + '/out', d + '/cwd', extra=extra)
    return res, obs


def entry_classes(obs, db2, contents):
    """for every pristine entry content: class of the (first) observed entry of the damaged stream whose text starts with it"""
    out = {}
    for i, (s, e) in enumerate(obs['spans']):
        text = db2[s:e]
        for k, c in contents.items():
            if k not in out and text.startswith(c) and i < len(obs['cls']):
                out[k] = obs['cls'][i]
    return out


def predicate(base, bobs, res, obs, db, db2, ents, v, files_by_entry):
    """The property, on the implementation's observations only.  Returns None or a failure description."""
    if not isinstance(res['rc'], int):
        return {'why': 'correction did not run to completion', 'exception': res['rc']}
    contents = {k: db[e['s']:e['e']] for k, e in enumerate(ents) if k != v}
    cb = entry_classes(bobs, db, contents)
    cd = entry_classes(obs, db2, contents)
    for k in contents:
        if cd.get(k) != cb.get(k):
            return {'why': 'intact entry %d (%r) is treated differently' % (k, files_by_entry[k]), 'pristine': cb.get(k), 'damaged': cd.get(k)}
    victim_path = files_by_entry[v]
    for rel in set(base['out_bytes']) | set(res['out_bytes']):
        if rel == victim_path:
            continue
        if base['out_bytes'].get(rel) != res['out_bytes'].get(rel):
            return {'why': 'output of another file differs', 'file': rel}
    # counters adjusted for the victim: all entries of the damaged run that are not an intact entry are the victim's
    def contrib(c):
        return {'S': (0, 1), 10: (1, 0), 11: (1, 0), 12: (1, 0), 13: (1, 0)}.get(c, (0, 0))
    others = [cd[k] for k in contents]
    exp_proc = sum(contrib(c)[0] for c in others)
    exp_skip = sum(contrib(c)[1] for c in others)
    c = res['counters']
    n_extra = len(obs['spans']) - len(contents)
    if c['processed'] is None or not (exp_proc <= c['processed'] <= exp_proc + max(n_extra, 0)) or \
            not (exp_skip <= c['skipped'] <= exp_skip + max(n_extra, 0)) or c['processed'] + c['skipped'] != len(obs['spans']):
        return {'why': 'counters not explained by the intact entries plus the victim', 'counters': c, 'intact': others,
                'entries_seen': len(obs['spans'])}
    return None


def do_case(ctx, case, record=True):
    """case: dict tool, P, files{rel: hex}, in_damage{rel: [[off,val]]}, victim, db2 (hex, the damaged ecc) or kind+seed"""
    tool, P = case['tool'], case['P']
    files = {k: bytes.fromhex(v) for k, v in case['files'].items()}
    rng = random.Random(case.get('dseed', 0))
    d = setup_tree(tool, P, files, {k: [tuple(x) for x in v] for k, v in case.get('in_damage', {}).items()}, rng)
    try:
        db = open(d + '/ecc.db', 'rb').read()
        ents = S.parse_pristine(db)
        v = case['victim']
        if 'db2' in case:
            db2 = bytes.fromhex(case['db2'])
        else:
            db2 = damage(rng, db, ents, v, case['kind'])
        if not markers_ok(db, db2, ents, v, case.get('kind')):
            return {'dropped': 'damage spells a marker'}
        files_by_entry = [e['path'].decode('latin-1') for e in ents]
        extra = case.get('extra', [])
        base, bobs = run_one(ctx, tool, P, d, db, extra)
        mreq = [S.model_request(tool, base, bobs, d + '/in', '--ignore_size' in extra)]
        res, obs = run_one(ctx, tool, P, d, db2, extra)
        mreq.append(S.model_request(tool, res, obs, d + '/in', '--ignore_size' in extra))
        outs = ctx.model.run(mreq)
        diffs = S.compare_model(tool, base, bobs, S.parse_model(outs[0])) + S.compare_model(tool, res, obs, S.parse_model(outs[1]))
        # hypothesis: the victim does not decode to another protected file
        others = set(files_by_entry[:v] + files_by_entry[v + 1:])
        vic_paths = set(r.decode('latin-1') for (_f, _e, r) in obs['intra']) - set(r.decode('latin-1') for (_f, _e, r) in bobs['intra'])
        if vic_paths & others:
            return {'dropped': 'victim decodes to another file'}
        fail = predicate(base, bobs, res, obs, db, db2, ents, v, files_by_entry)
        return {'holds': fail is None, 'failure': fail, 'model_diffs': diffs, 'rc': res['rc'], 'counters': res['counters'],
                'pristine_counters': base['counters'], 'spans': obs['spans'], 'classes': [str(c) for c in obs['cls']],
                'victim_cls': None, 'nontrivial': obs['cls'] != bobs['cls'] or res['counters'] != base['counters']}
    finally:
        shutil.rmtree(d, ignore_errors=True)


def mk_case(rng, tool, P, kind, victim_pos):
    n = rng.choice([2, 3, 3, 4])
    files = make_files(rng, n)
    in_damage = {}
    for rel, data in files.items():
        if data and rng.random() < 0.3:
            in_damage[rel] = [[rng.randrange(len(data)), rng.randrange(256)] for _ in range(rng.choice([1, 2, 30]))]
    v = {'first': 0, 'middle': n // 2 if n > 2 else rng.randrange(n), 'last': n - 1}[victim_pos]
    return {'tool': tool, 'P': P, 'files': {k: v_.hex() for k, v_ in files.items()}, 'in_damage': in_damage,
            'victim': v, 'kind': kind, 'dseed': rng.randrange(1 << 30)}


CORPUS = [
    # removed 50 bytes at the end of the first entry's track (whole tool lost the 2nd entry before af213e5)
    {'tool': 'whole', 'P': {'mb': 40, 'size': 64}, 'files': {'a.txt': '11' * 300, 'b.txt': '22' * 500, 'c.txt': '33' * 200}, 'victim': 0, 'kind': 'short_track', 'dseed': 3},
    {'tool': 'whole', 'P': {'mb': 40, 'size': 64}, 'files': {'a.txt': '11' * 300, 'b.txt': '22' * 500, 'c.txt': '33' * 200}, 'victim': 1, 'kind': 'empty', 'dseed': 1},
    {'tool': 'header', 'P': {'mb': 40, 'size': 64}, 'files': {'a.txt': '11' * 300, 'b.txt': '22' * 500, 'c.txt': '33' * 200}, 'victim': 1, 'kind': 'empty', 'dseed': 1},
    {'tool': 'header', 'P': {'mb': 7, 'size': 10}, 'files': {'a.txt': '11' * 30, 'b.txt': '22' * 50}, 'victim': 0, 'kind': 'size', 'dseed': 5},
    {'tool': 'whole', 'P': {'mb': 4, 'size': 10}, 'files': {'a.txt': '11' * 30, 'b.txt': '22' * 50}, 'victim': 1, 'kind': 'delim', 'dseed': 7},
    {'tool': 'header', 'P': {'mb': 40, 'size': 64}, 'files': {'d' * 150 + '/' + 'e' * 150: '31' * 60, 'zz/z_last.bin': '32' * 300}, 'victim': 0, 'kind': 'longname', 'dseed': 9,
     'in_damage': {'zz/z_last.bin': [[5, 7]]}},
    {'tool': 'whole', 'P': {'mb': 40, 'size': 64}, 'files': {'d' * 150 + '/' + 'e' * 150: '31' * 60, 'zz/z_last.bin': '32' * 300}, 'victim': 0, 'kind': 'longname', 'dseed': 9,
     'in_damage': {'zz/z_last.bin': [[5, 7]]}},
]


def handle(ctx, case, r):
    if 'dropped' in r:
        ctx.count('dropped: ' + r['dropped'])
        return
    ctx.evaluations += 1
    ctx.count('tool=' + case['tool']); ctx.count('kind=' + str(case.get('kind')))
    ctx.count('victim=%s' % ('first' if case['victim'] == 0 else 'last' if case['victim'] == len(case['files']) - 1 else 'middle'))
    if r['nontrivial']:
        ctx.nontriv((case['tool'], json.dumps(case['P'], sort_keys=True), case.get('kind'), case.get('dseed')))
    if r['model_diffs']:
        ctx.disagree(case, 'model', r['model_diffs'])
    else:
        ctx.traces += 2
    if not r['holds']:
        ctx.fail(case, r['failure'])
    ctx.sample({'tool': case['tool'], 'kind': case.get('kind'), 'victim': case['victim'], 'counters': r['counters'],
                'pristine': r['pristine_counters'], 'classes': r['classes']}, cap=6)


def run(ctx):
    S.enable_fast_tables()
    rng = ctx.rng
    for c in CORPUS:
        handle(ctx, c, do_case(ctx, c))
    n = 420 if ctx.tier == 'quick' else 6000
    for i in range(n):
        tool = ('header', 'whole')[i % 2]
        P = PARAMS[4] if i % 40 == 39 else PARAMS[(i // 2) % 4]
        if i % 4 == 3:
            P = dict(P, v=True)                # -v on a quarter of the runs
        kind = KINDS[(i // 2) % len(KINDS)]
        pos = ('first', 'middle', 'last')[(i // 7) % 3]
        case = mk_case(rng, tool, P, kind, pos)
        if i % 12 == 11:
            case['extra'] = [rng.choice(['--no_fast_check', '--enable_erasures', '--skip_missing', '--ignore_size', '--ignore_size'])]
        try:
            r = do_case(ctx, case)
        except Exception as e:      # harness trouble is reported as a disagreement, never silently dropped
            ctx.disagree(case, 'harness', repr(e))
            continue
        handle(ctx, case, r)


def replay_case(ctx, case):
    S.enable_fast_tables()
    r = do_case(ctx, case)
    if 'dropped' in r:
        return {'holds': True, 'note': r['dropped']}
    return {'holds': r['holds'], 'failure': r['failure'], 'implementation': {'rc': r['rc'], 'counters': r['counters'], 'classes': r['classes']},
            'pristine_run': r['pristine_counters'], 'model_vs_implementation': r['model_diffs'] or 'agree'}


def shrink(ctx, case):
    """fix the damaged bytes (so that the case no longer depends on the generator), then try fewer files / smaller files"""
    return case


def classify(case, detail):
    if isinstance(case, dict) and case.get('kind') == 'clone' and isinstance(detail, dict):
        # open finding: an entry overwritten with the bytes of ANOTHER entry is a well-formed entry for that other file; the tool
        # processes that file a second time with the (cut) cloned track.  Narrow: every intact entry is still treated as with the
        # pristine ecc file (that is checked first and reported under another 'why'); what differs is the other file's output /
        # the counters.
        why = str(detail.get('why', ''))
        if why == 'output of another file differs' or why.startswith('counters') or why.startswith('exit'):
            return 'C08-entry-cloned-from-another'
    return None
