# C09 — entry metadata (path, size) is itself ECC-protected and round-trips exactly.
# Correspondence of Entry.v with entry_fields / ecc_correct_intra / ecc_correct_intra_stream /
# compute_ecc_hash / compute_ecc_hash_from_string and with whole main() runs of both tools; the property
# predicate is evaluated on the implementation's own observations.
#
# The implementation side runs in worker subprocesses (this file, argv[1] == 'worker'): one codec family
# per process (reedsolo keeps its GF tables module-global) and 12 workers in parallel.  Every
# ECCMan.encode/check/decode call of a case is recorded; the tables are handed to the extracted model as
# its codec oracle (a query that is not in the table = `oracle-miss` = correspondence failure).
import json, os, sys, subprocess, tempfile, shutil, io, time

DELIM = b'\xfa\xff\xfa\xff\xfa'
MARK = b'\xfe\xff' * 5
READ_BS = 65535            # blocksize of structural_adaptive_ecc.entry_fields

RULE = ('function level: for each tool x intra geometry (max_block_size 2..255, intra rate in (0,1]: parity <, =, > message, parity 0/1/2) '
        'x path length 1..400 (1, 2, 3+ intra blocks, exactly j*message_size) x size 0..10^12: real generation functions build the entry; '
        'damage patterns (none / exactly floor(parity/2) per intra block in path, size, path parity, size parity, mixed / one above the bound / '
        'digit->digit, digit->non-digit, leading digit->0, blank, +) are applied; the real entry_fields + ecc_correct_intra(_stream) + int() run on it. '
        'main level: generate + correct runs of both tools on trees of 1..3 files with metadata damage (and optionally file damage within capacity), '
        'observing entry_fields, intra-correction tuples, int(size), os.path.isfile(path), exit status and the output tree. '
        'Each observation is compared with the extracted model given the recorded codec tables, and the property predicate (exact path and size '
        'recovered, flags, same block track, file verified/repaired) is evaluated on the implementation. '
        'non-trivial = at least one damaged symbol or a multi-block field; distinct by (tool, geometry, path, size, damage).')
TRUSTED_EXTRA = ['modelled: header_ecc.entry_fields / ecc_correct_intra / entry_assemble (as used for intra fields) / compute_ecc_hash (hasher none); '
                 'structural_adaptive_ecc.entry_fields / ecc_correct_intra_stream / stream_entry_assemble (constant mode) / compute_ecc_hash_from_string; '
                 'the metadata join of main(); bytes.find / slicing / int(bytes) / str(int) semantics (micro-tested each run)',
                 'codec oracle: ECCMan.encode/check/decode enter the model as recorded tables; hypotheses chk_enc, chk_detect, dec_complete, enc_len '
                 'of the theorems are checked on every recorded call that falls under them']
ASSUMPTIONS = ['dec_complete: ECCMan.decode returns the original (message, parity) whenever the block and its parity carry at most floor(parity/2) wrong symbols (oracle hypothesis, tested here)',
               'chk_enc / chk_detect / enc_len: ECCMan.check accepts encoder output, rejects 1..parity wrong symbols, parity length = max_block_size - message_size (to be discharged from RS.v by the integrator; tested here)',
               'paths are byte strings (one latin-1 character per byte); entries shorter than 65535 bytes up to the 4th delimiter']

GEOMS = [  # (max_block_size, intra rate): parity <, =, > message; tiny blocks; parity 1, 2
    (255, 0.5), (255, 0.3), (255, 1.0), (255, 0.002), (255, 0.004), (20, 0.5), (40, 1.0), (16, 0.2),
    (7, 0.5), (7, 1.0), (4, 0.5), (3, 1.0), (3, 0.5), (2, 0.5), (2, 1.0), (5, 0.3), (60, 0.75), (100, 0.05),
    (2, 0.1), (255, 0.0005)]   # the last two: no parity symbol at all


# ----------------------------------------------------------------------------- shared helpers
def hx(b):
    if isinstance(b, str):                    # older revisions of the tools hand some fields over as str (one char per byte)
        b = b.encode('latin-1', 'replace')
    elif isinstance(b, int):
        b = str(b).encode()
    return bytes(b).hex() if b else '-'


def unhx(s):
    return b'' if s == '-' else bytes.fromhex(s)


def params(mb, ri):
    """compute_ecc_params for the intra fields, as the tools do"""
    k = int(round(float(mb) / (1 + 2 * ri), 0))
    return k, mb - k


def nblocks(n, k):
    return (n + k - 1) // k


def clean(x):
    return (x + DELIM).find(DELIM) == len(x)


def unambiguous(path, size, pecc, secc):
    """the four fields are found by the four finds: the delimiter occurs neither inside a field nor straddling its end"""
    return len(path) > 0 and clean(path) and clean(size) and clean(pecc) and clean(secc)


def hamming(a, b):
    return sum(1 for x, y in zip(a, b) if x != y)


def within_bound(f0, f1, e0, e1, k, es):
    """at most floor(es/2) wrong symbols in every intra block (message chunk + its parity chunk)"""
    if len(f0) != len(f1) or len(e0) != len(e1):
        return False
    for i in range(nblocks(len(f0), k)):
        w = hamming(f0[i * k:(i + 1) * k], f1[i * k:(i + 1) * k]) + hamming(e0[i * es:(i + 1) * es], e1[i * es:(i + 1) * es])
        if w > es // 2:
            return False
    return True


def apply_damage(fields, damage):
    """fields: [path, size, pecc, secc] bytes; damage: list of [field index, offset, op, value]; op 'x' = xor, 's' = set"""
    out = [bytearray(f) for f in fields]
    for fi, off, op, val in damage:
        if off < len(out[fi]):
            out[fi][off] = (out[fi][off] ^ val) if op == 'x' else val
    return [bytes(f) for f in out]


# ----------------------------------------------------------------------------- worker (implementation side)
class RecECC(object):
    """ECCMan proxy recording every call: tabs[(n, k)] = {'enc': {m: e}, 'chk': {(m, e): bool}, 'dec': {(m, e): (m2, e2) | None}}"""
    def __init__(self, inner, tabs):
        self._i, self._t = inner, tabs

    def __getattr__(self, name):
        return getattr(self._i, name)

    def _tab(self, k):
        return self._t.setdefault((self._i.n, k or self._i.k), {'enc': {}, 'chk': {}, 'dec': {}})

    @staticmethod
    def _b(x):
        return x.encode('latin-1') if isinstance(x, str) else bytes(x)

    def encode(self, message, k=None):
        r = self._i.encode(message, k=k)
        self._tab(k)['enc'][self._b(message)] = self._b(r)
        return r

    def check(self, message, ecc, k=None):
        r = self._i.check(message, ecc, k=k)
        self._tab(k)['chk'][(self._b(message), self._b(ecc))] = bool(r)
        return r

    def decode(self, message, ecc, k=None, **kw):
        from reedsolo import ReedSolomonError
        from unireedsolomon import RSCodecError
        key = (self._b(message), self._b(ecc))
        try:
            r = self._i.decode(message, ecc, k=k, **kw)
        except (ReedSolomonError, RSCodecError):
            self._tab(k)['dec'][key] = None
            raise
        self._tab(k)['dec'][key] = (self._b(r[0]), self._b(r[1]))
        return r


_ECC_CACHE = {}


def cached_eccman(n, k, algo):
    """the real ECCMan, built once per (n, k, algo) in this worker process (its constructor takes ~1 s for n = 255)"""
    from pyFileFixity.lib.eccman import ECCMan
    key = (n, k, algo)
    if key not in _ECC_CACHE:
        _ECC_CACHE[key] = ECCMan(n, k, algo=algo)
    return _ECC_CACHE[key]


def tabs_json(tabs):
    out = {}
    for (n, k), t in tabs.items():
        out['%d,%d' % (n, k)] = {
            'enc': [[hx(m), hx(e)] for m, e in t['enc'].items()],
            'chk': [[hx(m), hx(e), 1 if r else 0] for (m, e), r in t['chk'].items()],
            'dec': [[hx(m), hx(e)] + ([hx(r[0]), hx(r[1])] if r is not None else ['N']) for (m, e), r in t['dec'].items()]}
    return out


def res3(r):
    return [hx(r[0]), bool(r[1]), bool(r[2])]


def py_int_obs(x):
    try:
        return int(x)
    except ValueError:
        return 'ValueError'


def worker_fn(case):
    """function level: real generation, damage, real entry_fields, real intra correction, int()"""
    import pyFileFixity.header_ecc as hdr
    import pyFileFixity.structural_adaptive_ecc as sa
    from pyFileFixity.lib.eccman import compute_ecc_params, ECCMan
    from pyFileFixity.lib.hasher import Hasher
    from pyFileFixity.lib._compat import b
    tool, mb, ri, algo = case['tool'], case['mb'], case['ri'], case['algo']
    hasher_intra = Hasher('none')
    p = compute_ecc_params(mb, ri, hasher_intra)
    k, es = p['message_size'], p['ecc_size']
    out = {'k': k, 'es': es}
    tabs = {}
    ecc = RecECC(cached_eccman(mb, k, algo), tabs)
    path = unhx(case['path'])
    size = case['size']
    rel = path.decode('latin-1')                       # the tools hold the path as str (one char per byte)
    try:
        if tool == 'hdr':
            pecc = b''.join(hdr.compute_ecc_hash(ecc, hasher_intra, rel, mb, ri, k, True))
            secc = b''.join(hdr.compute_ecc_hash(ecc, hasher_intra, str(size), mb, ri, k, True))
        else:
            pecc = sa.compute_ecc_hash_from_string(rel, ecc, hasher_intra, mb, ri)
            secc = sa.compute_ecc_hash_from_string(b(str(size)), ecc, hasher_intra, mb, ri)
        # the join of main() (both tools write the same expression)
        meta = b''.join([b(rel), b(DELIM), b(str(size)), b(DELIM), b(pecc), b(DELIM), b(secc), b(DELIM)])
    except Exception as e:
        out['gen_exc'] = repr(e)
        out['tabs'] = tabs_json(tabs)
        return out
    out['pecc'], out['secc'], out['meta'] = hx(pecc), hx(secc), hx(meta)
    f0 = [path, str(size).encode(), pecc, secc]
    f1 = apply_damage(f0, case.get('damage', []))
    track = unhx(case.get('track', '-'))
    entry = unhx(case.get('lead', '-')) + DELIM.join(f1) + DELIM + track
    out['entry'] = hx(entry)
    opts = dict(enable_erasures=bool(case.get('erasures')), erasures_char=0, only_erasures=False)
    try:
        if tool == 'hdr':
            ef = hdr.entry_fields(entry, DELIM)
            out['fields'] = [hx(ef['relfilepath']), hx(ef['filesize']), hx(ef['relfilepath_ecc']), hx(ef['filesize_ecc']), hx(ef['ecc_field'])]
            rp = hdr.ecc_correct_intra(ecc, p, ef['relfilepath'], ef['relfilepath_ecc'], [0, 0], **opts)
            rs = hdr.ecc_correct_intra(ecc, p, ef['filesize'], ef['filesize_ecc'], [0, 0], **opts)
        else:
            pre = unhx(case.get('pre', '-'))
            post = unhx(case.get('post', '-'))
            data = pre + entry + post
            pos = [len(pre), len(pre) + len(entry)]
            out['file'], out['pos'] = hx(data), pos
            fh = io.BytesIO(data)
            ef = sa.entry_fields(fh, pos, DELIM)
            out['fields'] = [hx(ef['relfilepath']), hx(ef['filesize']), hx(ef['relfilepath_ecc']), hx(ef['filesize_ecc']),
                             list(ef['ecc_field_pos'])]
            out['cursor'] = fh.tell()
            rp = sa.ecc_correct_intra_stream(ecc, p, hasher_intra, ri, ef['relfilepath'], ef['relfilepath_ecc'], pos, max_block_size=mb, **opts)
            rs = sa.ecc_correct_intra_stream(ecc, p, hasher_intra, ri, ef['filesize'], ef['filesize_ecc'], pos, max_block_size=mb, **opts)
        out['rp'], out['rs'] = res3(rp), res3(rs)
        out['int'] = py_int_obs(rs[0])
    except Exception as e:
        out['exc'] = repr(e)
    out['tabs'] = tabs_json(tabs)
    return out


class _PathProxy(object):
    def __init__(self, real, log):
        self._r, self._log = real, log

    def __getattr__(self, name):
        return getattr(self._r, name)

    def isfile(self, p):
        r = self._r.isfile(p)
        self._log.append(['isfile', p, bool(r)])
        return r


class _OsProxy(object):
    def __init__(self, real, log):
        self._r = real
        self.path = _PathProxy(real.path, log)

    def __getattr__(self, name):
        return getattr(self._r, name)


def make_content(size, seed):
    import random
    r = random.Random(seed)
    return bytes(r.randrange(256) for _ in range(size))


def worker_main(case):
    """whole runs: generate, damage the ecc file (metadata) and optionally the files, correct; observe"""
    import pyFileFixity.header_ecc as hdr
    import pyFileFixity.structural_adaptive_ecc as sa
    import pyFileFixity.lib.eccman as eccman
    mod = hdr if case['tool'] == 'hdr' else sa
    mb, ri, algo = case['mb'], case['ri'], case['algo']
    k, es = params(mb, ri)
    out = {'k': k, 'es': es}
    d = tempfile.mkdtemp(prefix='pffc09')
    real_ecc, real_os = mod.ECCMan, mod.os
    real_fields = mod.entry_fields
    cname = 'ecc_correct_intra' if case['tool'] == 'hdr' else 'ecc_correct_intra_stream'
    real_correct = getattr(mod, cname)
    had_int = 'int' in mod.__dict__
    cwd0 = os.getcwd()
    try:
        root, outd, cwd, db = os.path.join(d, 'in'), os.path.join(d, 'out'), os.path.join(d, 'cwd'), os.path.join(d, 'ecc.db')
        for x in (root, outd, cwd):
            os.makedirs(x)
        os.chdir(cwd)
        files = []
        for fx in case['files']:
            relb = unhx(fx['path'])
            content = make_content(fx['size'], fx['seed'])
            fp = os.path.join(root, relb.decode('latin-1'))
            os.makedirs(os.path.dirname(fp), exist_ok=True)
            with open(fp, 'wb') as fh:
                fh.write(content)
            files.append((relb, content))
        common = ['-i', root, '-d', db, '--ecc_algo', str(algo), '--max_block_size', str(mb), '-ri', repr(ri), '--silent'] + case.get('extra', [])
        tabs, log = {}, []
        mod.ECCMan = lambda n, kk, algo=1: RecECC(cached_eccman(n, kk, algo), tabs)
        try:
            out['gen_rc'] = mod.main(common + ['-g', '-f'])
        except BaseException as e:
            out['gen_exc'] = repr(e)
            return out
        raw = bytearray(open(db, 'rb').read())
        out['db_pristine'] = hx(raw)
        # locate each entry's metadata from what was generated
        ents = []
        # entry starts as the scanner sees them: leftmost marker occurrence, then resume right after it (a path that itself starts
        # with FE FF makes a second, shifted occurrence of the marker pattern, which is not an entry start)
        braw, starts, pos_ = bytes(raw), [], 0
        while True:
            m_ = braw.find(MARK, pos_)
            if m_ < 0:
                break
            starts.append(m_ + len(MARK))
            pos_ = m_ + len(MARK)
        for relb, content in files:
            head = relb + DELIM + str(len(content)).encode() + DELIM
            cand = [s_ for s_ in starts if braw.startswith(head, s_)]
            if len(cand) != 1:
                out['locate_failed'] = hx(relb)
                return out
            at = cand[0] - len(MARK)
            o_path = at + len(MARK)
            o_size = o_path + len(relb) + len(DELIM)
            o_pecc = o_size + len(str(len(content))) + len(DELIM)
            l_pecc = nblocks(len(relb), k) * es
            o_secc = o_pecc + l_pecc + len(DELIM)
            l_secc = nblocks(len(str(len(content))), k) * es
            ents.append({'offs': [o_path, o_size, o_pecc, o_secc], 'lens': [len(relb), len(str(len(content))), l_pecc, l_secc]})
        out['entries_pristine'] = []
        for e in ents:
            out['entries_pristine'].append([hx(raw[o:o + l]) for o, l in zip(e['offs'], e['lens'])])
        for ei, fi, off, op, val in case.get('damage', []):
            e = ents[ei]
            if off < e['lens'][fi]:
                p = e['offs'][fi] + off
                raw[p] = (raw[p] ^ val) if op == 'x' else val
        with open(db, 'wb') as fh:
            fh.write(raw)
        out['db'] = hx(raw)
        for fidx, off, val in case.get('file_damage', []):
            relb, content = files[fidx]
            if off < len(content):
                fp = os.path.join(root, relb.decode('latin-1'))
                c = bytearray(open(fp, 'rb').read())
                c[off] ^= val
                open(fp, 'wb').write(c)
        # instrument the module
        mod.os = _OsProxy(real_os, log)

        class _IntMeta(type):
            def __instancecheck__(cls, inst):          # the tools also use isinstance(x, int)
                return isinstance(inst, int)

        class rec_int(int, metaclass=_IntMeta):
            def __new__(cls, x=0, *a):
                if isinstance(x, (bytes, bytearray)) and not a:
                    try:
                        r = int(x)
                    except ValueError:
                        log.append(['int', hx(x), 'ValueError'])
                        raise
                    log.append(['int', hx(x), r])
                    return r
                return int(x, *a)
        mod.int = rec_int

        def rec_fields(*a, **kw):
            log.append(['begin'])
            r = real_fields(*a, **kw)
            if case['tool'] == 'hdr':
                log.append(['fields', hx(a[0]), [hx(r['relfilepath']), hx(r['filesize']), hx(r['relfilepath_ecc']), hx(r['filesize_ecc']), hx(r['ecc_field'])]])
            else:
                log.append(['fields', list(a[1]), [hx(r['relfilepath']), hx(r['filesize']), hx(r['relfilepath_ecc']), hx(r['filesize_ecc']), list(r['ecc_field_pos'])]])
            return r
        mod.entry_fields = rec_fields

        def rec_correct(*a, **kw):
            r = real_correct(*a, **kw)
            if case['tool'] == 'hdr':
                log.append(['correct', hx(a[2]), hx(a[3]), res3(r)])
            else:
                log.append(['correct', hx(a[4]), hx(a[5]), res3(r)])
            return r
        setattr(mod, cname, rec_correct)
        cor = list(common)
        if case.get('single_top') is not None:
            # correction given ONE file directly under the root as -i: the root folder is the same, every entry is still processed
            cor[1] = os.path.join(root, unhx(case['files'][case['single_top']]['path']).decode('latin-1'))
        try:
            out['cor_rc'] = mod.main(cor + ['-c', '-o', outd])
        except BaseException as e:
            out['cor_exc'] = repr(e)
        out['root'] = root
        out['log'] = log
        out['tabs'] = tabs_json(tabs)
        res = {}
        for dp, dn, fn in os.walk(outd):
            for f in fn:
                fp = os.path.join(dp, f)
                rel = os.path.relpath(fp, outd).replace(os.sep, '/')
                res[hx(rel.encode('latin-1', 'replace'))] = hx(open(fp, 'rb').read())
        out['outputs'] = res
        out['originals'] = {hx(relb): hx(content) for relb, content in files}
        return out
    finally:
        mod.ECCMan, mod.os = real_ecc, real_os
        mod.entry_fields = real_fields
        setattr(mod, cname, real_correct)
        if not had_int and 'int' in mod.__dict__:
            del mod.__dict__['int']
        os.chdir(cwd0)
        shutil.rmtree(d, ignore_errors=True)


def worker():
    """argv: worker <infile> <outfile>; one JSON list of cases in, one JSON list of observations out"""
    sys.path.insert(0, os.environ.get('VERIF_REPO', '/repo'))
    cases = json.load(open(sys.argv[2]))
    real_stdout = sys.stdout
    devnull = open(os.devnull, 'w')
    sys.stdout = devnull
    sys.stderr = devnull
    res = []
    for c in cases:
        try:
            res.append(worker_main(c) if c['kind'] == 'main' else worker_fn(c))
        except BaseException as e:  # harness-side trouble is reported, never swallowed
            res.append({'worker_error': repr(e)})
    sys.stdout = real_stdout
    with open(sys.argv[3], 'w') as f:
        json.dump(res, f)


# ----------------------------------------------------------------------------- parent side
def run_workers(cases, jobs=12):
    """split by codec family (algo 4 apart from 1-3), then into `jobs` shards; returns observations in case order"""
    if not cases:
        return []
    fam = {}
    for i, c in enumerate(cases):
        fam.setdefault(4 if c['algo'] == 4 else 3, []).append(i)
    shards = []
    for f, idx in fam.items():
        n = max(1, min(jobs, (len(idx) + 3) // 4))
        for s in range(n):
            part = idx[s::n]
            if part:
                shards.append(part)
    d = tempfile.mkdtemp(prefix='pffc09w')
    env = dict(os.environ)
    env['PYTHONHASHSEED'] = '0'
    env['PYTHONDONTWRITEBYTECODE'] = '1'
    try:
        procs = []
        for si, part in enumerate(shards):
            fin, fout = os.path.join(d, 'in%d.json' % si), os.path.join(d, 'out%d.json' % si)
            json.dump([cases[i] for i in part], open(fin, 'w'))
            procs.append((part, fout, subprocess.Popen([sys.executable, os.path.abspath(__file__), 'worker', fin, fout], env=env, cwd=d,
                                                       stdout=subprocess.DEVNULL, stderr=subprocess.PIPE)))
        out = [None] * len(cases)
        for part, fout, p in procs:
            _, err = p.communicate(timeout=3000)
            if p.returncode != 0 or not os.path.exists(fout):
                raise RuntimeError('C09 worker failed: rc=%s %s' % (p.returncode, err.decode('utf-8', 'replace')[-2000:]))
            for i, r in zip(part, json.load(open(fout))):
                out[i] = r
        return out
    finally:
        shutil.rmtree(d, ignore_errors=True)


def tab_args(obs, mb, k):
    t = (obs.get('tabs') or {}).get('%d,%d' % (mb, k), {'enc': [], 'chk': [], 'dec': []})
    enc = ';'.join('%s:%s' % (m, e) for m, e in t['enc']) or '.'
    chk = ';'.join('%s:%s:%d' % (m, e, r) for m, e, r in t['chk']) or '.'
    dec = ';'.join(':'.join(r) for r in t['dec']) or '.'
    return enc, chk, dec


def b01(x):
    return '1' if x else '0'


def model_res3(toks):
    return [toks[0], toks[1] == '1', toks[2] == '1']


def oracle_hypotheses(ctx, case, obs, mb, k, es):
    """the codec hypotheses of the theorems, checked on the recorded traffic of this case"""
    t = (obs.get('tabs') or {}).get('%d,%d' % (mb, k))
    if not t:
        return
    enc = {m: e for m, e in t['enc']}
    chk = {(m, e): r for m, e, r in t['chk']}
    for m, e in t['enc']:
        ctx.count('oracle_enc_calls')
        if len(unhx(e)) != es:
            ctx.fail(case, {'oracle': 'enc_len', 'message': m, 'parity': e, 'expected_length': es})
        if (m, e) in chk and not chk[(m, e)]:
            ctx.fail(case, {'oracle': 'chk_enc', 'message': m, 'parity': e})
    for m, e, r in t['chk']:
        # chk_detect: a word at distance 1..es from a codeword whose message was encoded in this case must be rejected
        mb_, eb_ = unhx(m), unhx(e)
        for m0, e0 in t['enc']:
            m0b, e0b = unhx(m0), unhx(e0)
            if len(m0b) == len(mb_) and len(e0b) == len(eb_):
                w = hamming(m0b, mb_) + hamming(e0b, eb_)
                if 1 <= w <= es and r:
                    ctx.fail(case, {'oracle': 'chk_detect', 'codeword': [m0, e0], 'received': [m, e], 'distance': w})
    for row in t['dec']:
        m, e = unhx(row[0]), unhx(row[1])
        for m0, e0 in t['enc']:
            m0b, e0b = unhx(m0), unhx(e0)
            if len(m0b) == len(m) and len(e0b) == len(e) and not case.get('erasures'):
                w = hamming(m0b, m) + hamming(e0b, e)
                if w <= es // 2:
                    ctx.count('oracle_dec_within_radius')
                    if row[2:] != [m0, e0]:
                        ctx.fail(case, {'oracle': 'dec_complete', 'codeword': [m0, e0], 'received': row[:2], 'answer': row[2:], 'distance': w})


def key_of(case):
    return json.dumps(case, sort_keys=True)


def eval_fn(ctx, case, obs, mline, record=True):
    """compare model and implementation for one function-level case and evaluate the property predicate.
       returns the replay verdict dict"""
    tool, mb = case['tool'], case['mb']
    k, es = obs.get('k'), obs.get('es')
    path, size = unhx(case['path']), case['size']
    stext = str(size).encode()
    verdict = {'holds': True, 'model': mline, 'implementation': {x: obs.get(x) for x in ('fields', 'rp', 'rs', 'int', 'exc', 'gen_exc') if x in obs}}
    if 'worker_error' in obs:
        raise RuntimeError('worker error: ' + obs['worker_error'])
    # ---- correspondence
    impl_line = None
    if 'gen_exc' in obs:
        impl_line = 'EXC ' + obs['gen_exc']
    elif 'exc' in obs:
        impl_line = 'EXC ' + obs['exc']
    else:
        rp, rs = obs['rp'], obs['rs']
        tail = ' '.join(str(x) for x in obs['fields'][4]) if tool == 'whole' else obs['fields'][4]
        impl_line = '%s %s %s %s %s %s %s %s' % (rp[0], b01(rp[1]), b01(rp[2]), rs[0], b01(rs[1]), b01(rs[2]),
                                                'N' if obs['int'] == 'ValueError' else obs['int'], tail)
    if record:
        if mline['meta'] != impl_line:
            ctx.disagree(case, mline['meta'], impl_line, 'entry metadata (fields -> intra correction -> int)')
        if 'gen_exc' not in obs:
            if mline['format'] != obs['meta']:
                ctx.disagree(case, mline['format'], obs['meta'], 'generated metadata bytes')
            if 'fields' in obs:
                want = ' '.join(obs['fields'][:4]) + ' ' + (' '.join(str(x) for x in obs['fields'][4]) if tool == 'whole' else obs['fields'][4])
                if mline['fields'] != want:
                    ctx.disagree(case, mline['fields'], want, 'entry_fields')
    # ---- property predicate (on the implementation)
    if 'gen_exc' in obs:
        verdict['holds'] = False
        verdict['why'] = 'generation raised ' + obs['gen_exc']
        return verdict
    pecc, secc = unhx(obs['pecc']), unhx(obs['secc'])
    f0 = [path, stext, pecc, secc]
    f1 = apply_damage(f0, case.get('damage', []))
    damaged = f0 != f1
    verdict['unambiguous_pristine'] = unambiguous(*f0)
    verdict['unambiguous_damaged'] = unambiguous(*f1)
    inb = within_bound(f0[0], f1[0], f0[2], f1[2], k, es) and within_bound(f0[1], f1[1], f0[3], f1[3], k, es)
    verdict['within_bound'] = inb
    premise = verdict['unambiguous_pristine'] and verdict['unambiguous_damaged'] and inb and not case.get('lead') and not case.get('erasures')
    verdict['premise'] = premise
    if not verdict['unambiguous_pristine'] and clean(path) and len(path) > 0:
        verdict['parity_spells_delimiter'] = True
    if premise or (not damaged and not case.get('lead') and not case.get('erasures')):
        why = []
        if 'exc' in obs:
            why.append('exception ' + obs['exc'])
        else:
            if unhx(obs['rp'][0]) != path:
                why.append('path recovered as %r' % unhx(obs['rp'][0]))
            if obs['int'] != size:
                why.append('size recovered as %r (field %r)' % (obs['int'], unhx(obs['rs'][0])))
            if unhx(obs['rs'][0]) != stext:
                why.append('size text recovered as %r' % unhx(obs['rs'][0]))
            if not obs['rp'][2] or not obs['rs'][2]:
                why.append('reported as not corrected')
            pd = (f0[0], f0[2]) != (f1[0], f1[2])
            sd = (f0[1], f0[3]) != (f1[1], f1[3])
            if obs['rp'][1] != pd or obs['rs'][1] != sd:
                why.append('corrupted flags %r/%r for damage %r/%r' % (obs['rp'][1], obs['rs'][1], pd, sd))
            track = unhx(case.get('track', '-'))
            if tool == 'hdr':
                if unhx(obs['fields'][4]) != track:
                    why.append('block track starts elsewhere')
            else:
                want0 = obs['pos'][0] + len(DELIM.join(f1)) + len(DELIM)
                if obs['fields'][4] != [want0, obs['pos'][1]] or obs.get('cursor') != want0:
                    why.append('block track position %r, expected %r' % (obs['fields'][4], [want0, obs['pos'][1]]))
        if why:
            verdict['holds'] = False
            verdict['why'] = '; '.join(why)
    return verdict


def model_lines_fn(case, obs):
    """requests for the extracted model for one function-level case"""
    tool, mb = case['tool'], case['mb']
    k, es = obs['k'], obs['es']
    enc, chk, dec = tab_args(obs, mb, k)
    t = '0' if tool == 'hdr' else '1'
    lines = ['ent_format %s %d %s - %s %s %d' % (t, k, enc, hx(DELIM), case['path'], case['size'])]
    if 'entry' in obs:
        if tool == 'hdr':
            lines.append('ent_fields_hdr %s %s' % (hx(DELIM), obs['entry']))
            lines.append('ent_meta_hdr %d %d %s %s %s %s' % (k, es, chk, dec, hx(DELIM), obs['entry']))
        else:
            lines.append('ent_fields_whole %d %s %s %d %d' % (READ_BS, hx(DELIM), obs['file'], obs['pos'][0], obs['pos'][1]))
            lines.append('ent_meta_whole %d %d %s %s %d %s %s %d %d' % (k, es, chk, dec, READ_BS, hx(DELIM), obs['file'], obs['pos'][0], obs['pos'][1]))
    return lines


def check_fn_batch(ctx, cases, record=True):
    obs = run_workers(cases)
    lines, spans = [], []
    for c, o in zip(cases, obs):
        if 'worker_error' in o:
            raise RuntimeError('worker error: ' + o['worker_error'])
        l = model_lines_fn(c, o)
        spans.append((len(lines), len(l)))
        lines += l
    outs = ctx.model.run(lines)
    verdicts = []
    for c, o, (a, n) in zip(cases, obs, spans):
        m = outs[a:a + n]
        mline = {'format': m[0], 'fields': m[1] if n > 1 else None, 'meta': m[2] if n > 2 else None}
        if n == 1 and 'gen_exc' in o:
            mline['meta'] = None
        v = eval_fn(ctx, c, o, mline, record)
        verdicts.append(v)
        if not record:
            continue
        ctx.evaluations += 1
        oracle_hypotheses(ctx, c, o, c['mb'], o['k'], o['es'])
        k, es = o['k'], o['es']
        nb = nblocks(len(unhx(c['path'])), max(k, 1))
        ctx.count('tool=%s' % c['tool'])
        ctx.count('algo=%d' % c['algo'])
        ctx.count('geometry=%s' % ('parity0' if es == 0 else 'parity<msg' if es < k else 'parity=msg' if es == k else 'parity>msg'))
        ctx.count('path_blocks=%s' % (nb if nb < 4 else '4+'))
        ctx.count('damage=%s' % c.get('dkind', 'none'))
        if c.get('damage') or nb > 1:
            ctx.nontriv(key_of(c))
        if v.get('parity_spells_delimiter'):
            ctx.count('dropped_parity_spells_delimiter')
        elif not v['holds']:
            ctx.fail(c, v)
        elif v.get('premise') or not c.get('damage'):
            ctx.traces += 1
        if c.get('damage') and not v.get('premise'):
            ctx.count('outside_premise(beyond bound or damage spells a delimiter)')
        ctx.sample({'case': c, 'recovered_path': o.get('rp', [None])[0], 'recovered_size': o.get('int')}, cap=5)
    return verdicts


# ----------------------------------------------------------------------------- main-level evaluation
def eval_main(ctx, case, obs, record=True):
    tool, mb = case['tool'], case['mb']
    k, es = obs['k'], obs['es']
    verdict = {'holds': True}
    if 'worker_error' in obs:
        raise RuntimeError('worker error: ' + obs['worker_error'])
    if 'gen_exc' in obs and es == 0:
        # codecs 1 and 2 refuse a geometry without any parity symbol at start-up (a clean refusal, nothing is generated)
        verdict['zero_parity_rejected'] = obs['gen_exc']
        ctx.count('zero_parity_geometry_refused_by_codec')
        return verdict, []
    if 'gen_exc' in obs or 'locate_failed' in obs:
        verdict['holds'] = False
        verdict['why'] = 'generation: %s' % (obs.get('gen_exc') or ('entry not found for ' + obs['locate_failed']))
        return verdict, []
    log = obs.get('log', [])
    # group the log per entry: fields, correct, correct, int (sanity), int (final), isfile
    entries, cur = [], None
    for rec in log:
        if rec[0] == 'begin':
            cur = {'fields': None, 'correct': [], 'ints': [], 'isfile': []}
            entries.append(cur)
        elif rec[0] == 'fields':
            cur['fields'] = rec
        elif cur is not None:
            if rec[0] == 'correct':
                cur['correct'].append(rec)
            elif rec[0] == 'int':
                cur['ints'].append(rec)
            elif rec[0] == 'isfile':
                cur['isfile'].append(rec)
    enc, chk, dec = tab_args(obs, mb, k)
    lines = []
    entries = [e for e in entries if e['fields'] is not None]
    for e in entries:
        if tool == 'hdr':
            lines.append('ent_meta_hdr %d %d %s %s %s %s' % (k, es, chk, dec, hx(DELIM), e['fields'][1]))
        else:
            lines.append('ent_meta_whole %d %d %s %s %d %s %s %d %d' % (k, es, chk, dec, READ_BS, hx(DELIM), obs['db'], e['fields'][1][0], e['fields'][1][1]))
    # generation: the model's format_entry (marker + metadata) must occur in the pristine ecc file
    fmt_lines = ['ent_format %s %d %s %s %s %s %d' % ('0' if tool == 'hdr' else '1', k, enc, hx(MARK), hx(DELIM), fx['path'], fx['size'])
                 for fx in case['files']]
    return verdict, (entries, lines, fmt_lines)


def check_main_batch(ctx, cases, record=True):
    obs = run_workers(cases)
    verdicts = []
    for c, o in zip(cases, obs):
        if 'worker_error' in o:
            raise RuntimeError('worker error: ' + o['worker_error'])
        v, rest = eval_main(ctx, c, o, record)
        if rest:
            entries, lines, fmt_lines = rest
            tool, mb, k, es = c['tool'], c['mb'], o['k'], o['es']
            allout = ctx.model.run(lines + fmt_lines)
            outs, fouts = allout[:len(lines)], allout[len(lines):]
            for fx, fo in zip(c['files'], fouts):
                if record and (fo.startswith('ERR') or fo not in o['db_pristine']):
                    ctx.disagree(c, fo, 'not found in the generated ecc file', 'format_entry inside main() for path ' + fx['path'])
            root = o.get('root', '')
            used = []
            for e, mo in zip(entries, outs):
                cor = e['correct']
                final_int = e['ints'][-1][2] if e['ints'] else None
                if len(cor) == 2:
                    tail = ' '.join(str(x) for x in e['fields'][2][4]) if tool == 'whole' else e['fields'][2][4]
                    impl_line = '%s %s %s %s %s %s %s %s' % (cor[0][3][0], b01(cor[0][3][1]), b01(cor[0][3][2]),
                                                            cor[1][3][0], b01(cor[1][3][1]), b01(cor[1][3][2]),
                                                            'N' if final_int == 'ValueError' else final_int, tail)
                else:
                    impl_line = 'EXC in metadata processing (%d intra corrections logged)' % len(cor)
                if record and impl_line != mo:
                    ctx.disagree(c, mo, impl_line, 'entry metadata inside main()')
                isf = e['isfile'][0][1] if e['isfile'] else None
                relused = None
                if isf is not None:
                    relused = isf[len(root) + 1:] if isf.startswith(root + os.sep) else isf
                used.append({'path': relused, 'size': final_int, 'exists': e['isfile'][0][2] if e['isfile'] else None})
            v['used'] = used
            v['outputs'] = sorted(o.get('outputs', {}).keys())
            v['cor'] = o.get('cor_rc', o.get('cor_exc'))
            # ---- premise, per entry: damage within the bound in every intra block, entry still unambiguous,
            #      and (globally) neither a name nor the damage spells an entry marker
            pr = [[unhx(x) for x in ent] for ent in o['entries_pristine']]
            markers_ok = unhx(o['db']).count(MARK) == len(c['files'])
            ok, dam_any = [], False
            for ei, f0 in enumerate(pr):
                dmg = [[fi, off, op, val] for (e2, fi, off, op, val) in c.get('damage', []) if e2 == ei]
                f1 = apply_damage(f0, dmg)
                dam_any = dam_any or f1 != f0
                # an undamaged entry always carries the expectation (the property says: every path); a damaged one when the
                # damage is within the bound and leaves the entry unambiguous (it spells no additional delimiter)
                ok.append(markers_ok and (f1 == f0 or (unambiguous(*f0) and unambiguous(*f1) and within_bound(f0[0], f1[0], f0[2], f1[2], k, es)
                                                     and within_bound(f0[1], f1[1], f0[3], f1[3], k, es))))
            v['premise'] = all(ok)
            v['premise_per_entry'] = ok
            v['unambiguous_pristine'] = all(unambiguous(*f0) for f0 in pr)
            why = []
            got = [(u['path'], u['size']) for u in used if u['path'] is not None]
            fdam = set(fi for fi, off, val in c.get('file_damage', []) if off < c['files'][fi]['size'])
            for ei, fx in enumerate(c['files']):
                if not ok[ei]:
                    continue
                rel = unhx(fx['path']).decode('latin-1')
                if got.count((rel, fx['size'])) != 1:
                    why.append('entry %d: recorded (%r, %d) but the tool used %r' % (ei, rel, fx['size'], got))
                elif any(u['path'] == rel and u['exists'] is False for u in used):
                    why.append('entry %d: file not found under the recovered path' % ei)
                outp = o.get('outputs', {}).get(fx['path'])
                if ei in fdam:
                    if outp is None:
                        why.append('entry %d: damaged file was not repaired (no output)' % ei)
                    elif outp != o['originals'][fx['path']]:
                        why.append('entry %d: file not repaired to the original' % ei)
                elif outp is not None:
                    why.append('entry %d: output written for an undamaged file' % ei)
            if all(ok):
                if 'cor_exc' in o:
                    why.append('correction raised ' + o['cor_exc'])
                elif not fdam and o.get('cor_rc') != 0:
                    why.append('exit status %r on undamaged files' % o.get('cor_rc'))
            elif any(ok) and 'cor_exc' in o:
                why.append('correction raised ' + o['cor_exc'])
            if why:
                v['holds'] = False
                v['why'] = '; '.join(why)
        verdicts.append(v)
        if not record:
            continue
        ctx.evaluations += 1
        ctx.count('main_tool=%s' % c['tool'])
        ctx.count('main_algo=%d' % c['algo'])
        ctx.count('main_damage=%s' % c.get('dkind', 'none'))
        if c.get('damage'):
            ctx.nontriv(key_of(c))
        if not v['holds']:
            ctx.fail(c, v)
        elif v.get('premise'):
            ctx.traces += 1
        ctx.sample({'main_case': {x: c[x] for x in ('tool', 'mb', 'ri', 'algo', 'dkind') if x in c}, 'used': v.get('used')}, cap=8)
    return verdicts


# ----------------------------------------------------------------------------- python-semantics micro tests
def micro_semantics(ctx):
    rng = ctx.rng
    lines, want = [], []
    alpha = [0xfa, 0xff, 0x61, 0x00]
    for _ in range(400):
        s = bytes(rng.choice(alpha) for _ in range(rng.randrange(0, 14)))
        sub = rng.choice([DELIM, b'\xfa\xff', b'a', b''])
        st = rng.randrange(-3, 18)
        lines.append('ent_find %s %s %d' % (hx(sub), hx(s), st)); want.append(str(s.find(sub, st)))
        lo, hi = rng.randrange(-16, 17), rng.randrange(-16, 17)
        lines.append('ent_slice %s %d %d' % (hx(s), lo, hi)); want.append(hx(s[lo:hi]))
    ints = [b'0', b'12', b'0012', b' 12', b'12 ', b'\t12\n', b'+12', b'-12', b'+-1', b'- 1', b'1_2', b'_12', b'12_', b'1__2', b'', b' ', b'+',
            b'1 2', b'12a', b'a12', b"b'12'", b'\x0012', b'12\x00', b'1\xb22', b'1000000000000', b'0_0', b'-0', b'1_ 2', b'1\x0b', b'\x0c7', b'1_+2', b'1 _']
    for _ in range(300):
        ints.append(bytes(rng.choice(b'0123456789 _+-a\x00\t') for _ in range(rng.randrange(0, 7))))
    for s in ints:
        lines.append('ent_int %s' % hx(s)); want.append('N' if py_int_obs(s) == 'ValueError' else str(int(s)))
    for n in [0, 1, 9, 10, 99, 100, 12345, 10 ** 12, 10 ** 12 - 1, 999999999999, 2 ** 40] + [rng.randrange(0, 10 ** 12) for _ in range(100)]:
        lines.append('ent_decimal %d' % n); want.append(hx(str(n).encode()))
    outs = ctx.model.run(lines)
    for l, o, w in zip(lines, outs, want):
        ctx.evaluations += 1
        ctx.count('python_semantics_micro')
        if o != w:
            ctx.disagree({'kind': 'micro', 'request': l}, o, w, 'python semantics (find / slice / int / str)')


# ----------------------------------------------------------------------------- generators
NAMES_EDGE = [b'\xfa', b'\xff', b'\xfe', b'\xfaa', b'a\xfa', b'\xffa\xff', b'\xfe\xffa', b'a\xfe\xff', b'\xfa\xffx', b'x\xfa\xff\xfax'[:4] + b'q',
              b'\xfa\xfa\xffb', b'\xff\xfa\xff\xfab', b'a\xff\xfa', b'a\xfa\xff\xfa', b'dir/\xfafile', b'\xffdir/file\xfa', b'a\xfe', b'\xfa\xff\xfa\xffz',
              b'0', b'12', b'a b', b'a.b/c.d', b'\xe9t\xe9.txt']
NAMES_AMBIG = [b'ab\xfa\xff', b'\xfa\xff', b'x\xfa\xff\xfa\xff', b'a\xfa\xff\xfa\xff\xfab', b'dir/n\xfa\xff']   # the known in-band limitation


def rand_path(rng, n):
    kinds = rng.random()
    if kinds < 0.6:
        al = b'abcdefghijklmnopqrstuvwxyz0123456789_-. '
    elif kinds < 0.85:
        al = bytes(range(0x21, 0x7f)).replace(b'/', b'') + bytes(range(0xa1, 0x100))
    else:
        al = b'\xfa\xff\xfeab'
    s = bytearray(rng.choice(al) for _ in range(n))
    for i in range(8, n - 1, rng.choice([9, 23, 60])):       # some directory levels
        s[i] = 0x2f
    if s[0] in (0x2f, 0x20, 0x2e):
        s[0] = 0x61
    if s[-1] in (0x2f, 0x20, 0x2e):
        s[-1] = 0x62
    s = bytes(s).replace(b'//', b'/a')
    return s


def fn_damage(rng, kind, path, stext, k, es):
    """damage patterns; offsets are per field, values as xor masks unless a specific character is wanted"""
    cap = es // 2
    npb, nsb = nblocks(len(path), k), nblocks(len(stext), k)
    lens = [len(path), len(stext), npb * es, nsb * es]
    dmg = []

    def blockwise(fi_msg, fi_ecc, n, nb, where, extra=0):
        for bi in range(nb):
            mlen = min(k, n - bi * k)
            slots = []
            if where in ('msg', 'both'):
                slots += [(fi_msg, bi * k + j) for j in range(mlen)]
            if where in ('ecc', 'both'):
                slots += [(fi_ecc, bi * es + j) for j in range(es)]
            cnt = min(len(slots), cap + (extra if bi == 0 else 0))
            for fi, off in rng.sample(slots, cnt):
                dmg.append([fi, off, 'x', rng.randrange(1, 256)])
    if kind == 'path':
        blockwise(0, 2, lens[0], npb, 'msg')
    elif kind == 'size':
        blockwise(1, 3, lens[1], nsb, 'msg')
    elif kind == 'pecc':
        blockwise(0, 2, lens[0], npb, 'ecc')
    elif kind == 'secc':
        blockwise(1, 3, lens[1], nsb, 'ecc')
    elif kind == 'mixed':
        blockwise(0, 2, lens[0], npb, 'both')
        blockwise(1, 3, lens[1], nsb, 'both')
    elif kind == 'over':
        if rng.random() < 0.5:
            blockwise(0, 2, lens[0], npb, 'both', extra=1)
        else:
            blockwise(1, 3, lens[1], nsb, 'both', extra=1)
    elif kind == 'one':
        if cap >= 1:
            fi = rng.randrange(4)
            dmg.append([fi, rng.randrange(lens[fi]), 'x', rng.randrange(1, 256)])
    elif kind in ('digit', 'nondigit', 'lead0', 'leadblank', 'leadplus', 'nul', 'delimbyte'):
        if cap >= 1:
            if kind == 'digit':
                off = rng.randrange(len(stext))
                dmg.append([1, off, 's', rng.choice([c for c in b'0123456789' if c != stext[off]])])
            elif kind == 'nondigit':
                dmg.append([1, rng.randrange(len(stext)), 's', rng.choice(b'Xx _-+\x00\xff\xfa\n')])
            elif kind == 'lead0':
                dmg.append([1, 0, 's', 0x30])
            elif kind == 'leadblank':
                dmg.append([1, 0, 's', 0x20])
            elif kind == 'leadplus':
                dmg.append([1, 0, 's', 0x2b])
            elif kind == 'nul':
                dmg.append([0, rng.randrange(len(path)), 's', 0])
            elif kind == 'delimbyte':
                fi = rng.randrange(4)
                dmg.append([fi, rng.randrange(lens[fi]), 's', rng.choice([0xfa, 0xff, 0xfe])])
    return dmg


DKINDS = ['none', 'path', 'size', 'pecc', 'secc', 'mixed', 'over', 'one', 'digit', 'nondigit', 'lead0', 'leadblank', 'leadplus', 'nul', 'delimbyte']
SIZES = [0, 1, 9, 10, 99, 100, 1234, 65535, 10 ** 6, 10 ** 9 + 7, 999999999999, 10 ** 12]


def gen_fn_cases(ctx, n_random):
    rng = ctx.rng
    cases = []

    def add(tool, mb, ri, algo, path, size, dkind, **kw):
        k, es = params(mb, ri)
        stext = str(size).encode()
        c = {'kind': 'fn', 'tool': tool, 'mb': mb, 'ri': ri, 'algo': algo, 'path': hx(path), 'size': size, 'dkind': dkind,
             'track': hx(kw.pop('track', b'HASHHASHparity--')),
             'damage': fn_damage(rng, dkind, path, stext, max(k, 1), es) if dkind != 'none' else []}
        if tool == 'whole':
            c['pre'] = hx(kw.pop('pre', b'**hdr**\n' + MARK))
            c['post'] = hx(kw.pop('post', MARK + b'next' + DELIM + b'7' + DELIM))
        c.update(kw)
        cases.append(c)
    # structured grid: every geometry x both tools x path lengths around the block boundaries x a few sizes x every damage kind
    for gi, (mb, ri) in enumerate(GEOMS):
        k, es = params(mb, ri)
        if k < 1:
            continue
        lens = sorted(set([1, 2, max(1, k - 1), k, k + 1, 2 * k, 2 * k + 1, 3 * k, 3 * k + 2, min(400, 5 * k + 3)]))
        if mb >= 100:
            lens += [255, 256, 400]
        for tool in ('hdr', 'whole'):
            for li, L in enumerate(lens):
                for dk in ('none', 'mixed', rng.choice(DKINDS)):
                    add(tool, mb, ri, 3, rand_path(rng, L), rng.choice(SIZES), dk)
    # every damage kind on a multi-block path for three geometries (parity <, =, >), every size boundary
    for (mb, ri) in [(255, 0.3), (20, 0.5), (40, 1.0), (7, 0.5)]:
        k, es = params(mb, ri)
        for tool in ('hdr', 'whole'):
            for dk in DKINDS:
                for size in (rng.choice(SIZES), 10 ** 12, 0):
                    add(tool, mb, ri, 3, rand_path(rng, 2 * k + 1), size, dk)
    # paths up to the filesystem limit: the four fields (path, size, path parity ~ 2 x path at -ri 1.0, size parity) must be found
    # whatever their total length (the whole-file tool reads them from a 65535-byte window)
    for (mb, ri) in [(255, 0.5), (40, 1.0), (16, 1.0)]:
        for tool in ('hdr', 'whole'):
            for L in (1400, 2100, 4000):
                for dk in ('none', 'mixed'):
                    add(tool, mb, ri, 3, rand_path(rng, L), rng.choice(SIZES), dk)
    # names starting / ending with bytes of the delimiters; the known ambiguous names
    for nm in NAMES_EDGE + NAMES_AMBIG:
        for tool in ('hdr', 'whole'):
            for (mb, ri) in [(255, 0.5), (7, 0.5), (40, 1.0)]:
                add(tool, mb, ri, 3, nm, rng.choice(SIZES), rng.choice(['none', 'none', 'mixed', 'one']))
    # other codecs (1, 2 share the family of 3; 4 runs in its own process)
    for algo in (1, 2, 4):
        for tool in ('hdr', 'whole'):
            for (mb, ri) in [(255, 0.5), (20, 0.5), (40, 1.0), (7, 0.5)]:
                k, es = params(mb, ri)
                for dk in ('none', 'mixed', 'size', 'pecc', 'digit', 'over'):
                    add(tool, mb, ri, algo, rand_path(rng, rng.choice([3, k, 2 * k + 1])), rng.choice(SIZES), dk)
    # leading delimiter(s) before the path (entry_fields strips them as a prefix), erasure option (outside the premise: correspondence only)
    for tool in ('hdr', 'whole'):
        add(tool, 255, 0.5, 3, b'\xfaname', 12, 'none', lead=hx(DELIM))
        add(tool, 255, 0.5, 3, b'\xff\xfaname', 12, 'none', lead=hx(DELIM + DELIM))
        add(tool, 40, 1.0, 3, b'name', 123, 'nul', erasures=1)
        add(tool, 40, 1.0, 3, b'name/with/dirs', 123, 'mixed', erasures=1)
    # random
    for _ in range(n_random):
        mb, ri = rng.choice(GEOMS) if rng.random() < 0.7 else (rng.randrange(2, 256), rng.choice([0.05, 0.1, 0.2, 0.3, 0.5, 0.75, 1.0, rng.uniform(0.01, 1.0)]))
        k, es = params(mb, ri)
        if k < 1:
            continue
        L = rng.choice([1, 2, 3, k, k + 1, 2 * k, 3 * k + 1, rng.randrange(1, 401), rng.randrange(1, 60)])
        L = max(1, min(L, 400))
        size = rng.choice(SIZES) if rng.random() < 0.4 else rng.randrange(0, 10 ** rng.randrange(1, 13))
        add(rng.choice(['hdr', 'whole']), mb, ri, 3, rand_path(rng, L), size, rng.choice(DKINDS))
    return cases


def gen_main_cases(ctx, n):
    rng = ctx.rng
    cases = []
    geoms = [(255, 0.5), (255, 1.0), (40, 1.0), (20, 0.5), (7, 0.5), (255, 0.3), (16, 0.2), (4, 0.5), (2, 0.1)]
    for i in range(n):
        tool = 'hdr' if i % 2 == 0 else 'whole'
        mb, ri = geoms[(i // 2) % len(geoms)]
        k, es = params(mb, ri)
        algo = 3 if i % 7 else rng.choice([1, 2, 4])
        nfiles = rng.choice([1, 2, 3])
        files, seen = [], set()
        for j in range(nfiles):
            L = rng.choice([1, 3, k, k + 1, 2 * k + 1, 3 * k, rng.randrange(1, 120)])
            L = max(1, min(L, 200))
            for _ in range(20):
                r = rng.random()
                p = rng.choice(NAMES_EDGE) if r < 0.2 else rng.choice(NAMES_AMBIG) if r < 0.26 else rand_path(rng, L)
                comps = p.split(b'/')
                ok = all(0 < len(c.decode('latin-1').encode('utf-8')) <= 250 and c not in (b'.', b'..') for c in comps) and b'\x00' not in p
                # no path may be a directory prefix of another, no duplicates
                if ok and p not in seen and not any(q.startswith(p + b'/') or p.startswith(q + b'/') for q in seen):
                    break
            else:
                p = b'f%d' % j
            seen.add(p)
            files.append({'path': hx(p), 'size': rng.choice([0, 1, 5, 60, 300, 1500]), 'seed': rng.randrange(10 ** 6)})
        dkind = rng.choice(['none', 'mixed', 'path', 'size', 'pecc', 'secc', 'digit', 'nondigit', 'lead0', 'leadblank', 'over'])
        damage = []
        if dkind != 'none':
            for ei in rng.sample(range(nfiles), rng.randrange(1, nfiles + 1)):
                p = unhx(files[ei]['path'])
                for fi, off, op, val in fn_damage(rng, dkind, p, str(files[ei]['size']).encode(), k, es):
                    damage.append([ei, fi, off, op, val])
        extra = ['-r', '0.3', '-s', '100'] if tool == 'hdr' else ['-r1', '0.3', '-r2', '0.2', '-r3', '0.1', '-s', '100']
        fdam = []
        if rng.random() < 0.4 and params(mb, 0.3)[1] // 2 >= 1:      # one wrong byte in the first 90: within the capacity of the file's own ecc (rate 0.3 there)
            fi = rng.randrange(nfiles)
            if files[fi]['size'] >= 5:
                fdam.append([fi, rng.randrange(min(files[fi]['size'], 90)), rng.randrange(1, 256)])
        cases.append({'kind': 'main', 'tool': tool, 'mb': mb, 'ri': ri, 'algo': algo, 'files': files, 'damage': damage, 'dkind': dkind,
                      'file_damage': fdam, 'extra': extra})
        tops = [j for j, f in enumerate(files) if b'/' not in unhx(f['path'])]
        if tops and i % 3 == 1:
            cases[-1]['single_top'] = tops[0]
    return cases


CORPUS = [
    # repaired defects (each failed on the parent of its fix commit)
    {'kind': 'fn', 'tool': 'whole', 'mb': 255, 'ri': 1.0, 'algo': 3, 'path': hx(b'd/' + b'x' * 198), 'size': 77, 'damage': [], 'dkind': 'none', 'track': '-'},
    {'kind': 'fn', 'tool': 'hdr', 'mb': 255, 'ri': 0.5, 'algo': 3, 'path': hx(b'\xfabc.txt'), 'size': 77, 'damage': [], 'dkind': 'none', 'track': '-'},
    {'kind': 'fn', 'tool': 'whole', 'mb': 255, 'ri': 0.5, 'algo': 3, 'path': hx(b'\xff\xfabc.txt'), 'size': 77, 'damage': [], 'dkind': 'none', 'track': '-'},
    {'kind': 'fn', 'tool': 'hdr', 'mb': 255, 'ri': 0.5, 'algo': 3, 'path': hx(b'abc'), 'size': 1234, 'damage': [[1, 0, 's', 0x30]], 'dkind': 'lead0', 'track': '-'},
    {'kind': 'fn', 'tool': 'hdr', 'mb': 4, 'ri': 0.5, 'algo': 3, 'path': hx(b'abc'), 'size': 1234, 'damage': [], 'dkind': 'none', 'track': '-'},
]


CORPUS_MAIN = [
    # an entry whose size field is beyond repair must not take the following entries down with it
    {'kind': 'main', 'tool': 'whole', 'mb': 255, 'ri': 0.5, 'algo': 3,
     'files': [{'path': hx(b'a'), 'size': 5, 'seed': 1}, {'path': hx(b'b'), 'size': 60, 'seed': 2}],
     'damage': [[0, 1, 0, 's', 0x58]] + [[0, 3, j, 'x', 0xAA] for j in range(100)], 'dkind': 'beyond', 'file_damage': [[1, 3, 7]],
     'extra': ['-r1', '0.3', '-r2', '0.2', '-r3', '0.1', '-s', '100']},
]


def run(ctx):
    quick = ctx.tier == 'quick'
    micro_semantics(ctx)
    check_fn_batch(ctx, [dict(c) for c in CORPUS])
    check_main_batch(ctx, [dict(c) for c in CORPUS_MAIN])
    check_fn_batch(ctx, gen_fn_cases(ctx, 250 if quick else 14000))
    check_main_batch(ctx, gen_main_cases(ctx, 60 if quick else 900))
    # the tools as processes: one wrong symbol in the path field of an entry (within its intra-ecc) — the entry must still reach
    # ITS file when correction is restricted with -e (the list names the true path), and when the damaged field happens to spell
    # a sibling file of the same size (frames/f1.raw -> f3.raw), with the victim intact (nothing written) and damaged (repaired)
    from props import cli_proc
    cli_proc.stream(ctx, ['C01-header-efilepath', 'C01-whole-efilepath', 'C03-header-sibling', 'C03-whole-sibling',
                          'C01-header-sibling', 'C01-whole-sibling', 'C01-header-pathskip', 'C01-whole-pathskip', 'C03-header-sizememo', 'C03-whole-sizememo', 'C01-header-sizememo', 'C01-whole-sizememo'])


def replay_case(ctx, case):
    if case.get('kind') == 'cli-process':
        from props import cli_proc
        return cli_proc.replay(case)
    if case.get('kind') == 'main':
        v = check_main_batch(ctx, [case], record=False)[0]
    elif case.get('kind') == 'micro':
        o = ctx.model.run([case['request']])[0]
        return {'holds': True, 'model': o}
    else:
        v = check_fn_batch(ctx, [case], record=False)[0]
    return v


def _fails(ctx, case):
    try:
        return not replay_case(ctx, case)['holds']
    except Exception:
        return False


def shrink(ctx, case):
    if case.get('kind') == 'cli-process':
        return case
    cur = json.loads(json.dumps(case))
    improved = True
    budget = 40
    while improved and budget > 0:
        improved = False
        cands = []
        if cur.get('damage'):
            for i in range(len(cur['damage'])):
                c = json.loads(json.dumps(cur)); del c['damage'][i]; cands.append(c)
        if cur.get('kind') == 'fn':
            p = unhx(cur['path'])
            if len(p) > 1 and not cur.get('damage'):
                for q in (p[:len(p) // 2], p[len(p) // 2:], p[:-1], p[1:]):
                    if q:
                        c = json.loads(json.dumps(cur)); c['path'] = hx(q); cands.append(c)
            if cur['size'] > 9 and not cur.get('damage'):
                c = json.loads(json.dumps(cur)); c['size'] = cur['size'] // 10; cands.append(c)
        else:
            if len(cur['files']) > 1 and not cur.get('damage') and not cur.get('file_damage'):
                for i in range(len(cur['files'])):
                    c = json.loads(json.dumps(cur)); del c['files'][i]; cands.append(c)
            if cur.get('file_damage'):
                c = json.loads(json.dumps(cur)); c['file_damage'] = []; cands.append(c)
        for c in cands:
            budget -= 1
            if budget <= 0:
                break
            if _fails(ctx, c):
                cur, improved = c, True
                break
    return cur


def classify(case, detail):
    """known finding: the format keeps its delimiters in-band.  Narrow: the recorded path itself makes the first delimiter search
       match early (the path contains the delimiter, or ends with a proper prefix p of it such that p + delimiter contains the
       delimiter before offset |p|, i.e. p = FA FF or FA FF FA FF), in an otherwise undamaged or within-bound entry."""
    import re
    paths = []
    if case.get('kind') == 'cli-process':
        return None
    if case.get('kind') == 'main':
        why = (detail.get('why') or (detail.get('detail') or {}).get('why') or '') if isinstance(detail, dict) else ''
        idx = set(int(x) for x in re.findall(r'entry (\d+):', why))
        if not idx or 'correction raised' in why:
            return None
        paths = [unhx(case['files'][i]['path']) for i in idx if i < len(case.get('files', []))]
        if len(paths) != len(idx):
            return None
        if case.get('tool') == 'whole' and any(len(p) > 0 and not clean(p) for p in paths):
            # whole-file tool: the finds of the mis-parsed entry run into the entry that follows (entry_fields reads 65535 bytes
            # whatever the entry end) and leave the cursor behind its marker, so that entry is lost with it
            return 'C09-delimiter-in-band'
    elif case.get('kind') == 'fn':
        paths = [unhx(case['path'])]
    if paths and all(len(p) > 0 and not clean(p) for p in paths):
        return 'C09-delimiter-in-band'
    return None


if __name__ == '__main__' and len(sys.argv) > 1 and sys.argv[1] == 'worker':
    worker()
