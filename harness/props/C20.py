# C20 — resilience-tester metrics: correspondence of Diff.v with resiliency_tester and the metric
# predicate evaluated on the implementation's own output.
import itertools, os, shutil, tempfile, io, contextlib
from common import hx, hxl

RULE = ('file level: every pair over alphabet {0,1} with lengths 0..4 x chunk sizes 1..5,8 (exhaustive), plus random pairs '
        '(equal / prefix / different lengths / empty, lengths to 300, chunk sizes 1..9,64,65535, start offsets); tree level: '
        'random reference trees (nested, empty files) against trees with missing, extra, truncated, extended and altered '
        'files, with the default chunk size patched to 1..7 and 65535; restest main() on stub configs (tamper + repair shell '
        'scripts) for the exit status. Each case runs the real function on real files and the extracted Diff model and '
        'evaluates the metric formula on the implementation output. non-trivial = files/trees differ; distinct by full input.')
TRUSTED_EXTRA = ['modelled: resiliency_tester.diff_bytes_files, diff_count_files, diff_bytes_dir, diff_count_dir, the exit rule '
                 'of main (error == 0); not modelled: config parsing, command execution, running averages, repair_power',
                 'float step diff/total*100 == 0 <=> diff == 0 for total > 0 is argued in DESIGN.md, not proved in Coq']
ASSUMPTIONS = ['regular files: read() returns the bytes in order, fstat size is the length',
               'recwalk enumerates each file of the reference tree once',
               'restest main(): the reference tree holds at least one byte (on an all-empty tree the error rate is 0/0 and the tester '
               'raises ZeroDivisionError instead of reporting; the statement is an "only if" about runs that do report)']


def spec_bytes(a, b):
    n = min(len(a), len(b))
    return (sum(1 for i in range(n) if a[i] != b[i]) + abs(len(a) - len(b)), max(len(a), len(b)))


FIXED_TIME = 1500000000


def write_tree(root, tree):
    for rel, c in tree.items():
        p = os.path.join(root, rel)
        os.makedirs(os.path.dirname(p), exist_ok=True)
        with open(p, 'wb') as f:
            f.write(c)
        os.utime(p, (FIXED_TIME, FIXED_TIME))   # identical timestamps everywhere: a comparison that trusts size+mtime instead of reading the bytes is exposed


def run_files(ctx, cases, d):
    """cases: (bs, st1, st2, f1, f2)"""
    import pyFileFixity.resiliency_tester as rt
    outs = ctx.model.run(['diff %d %d %d %s %s' % (bs, s1, s2, hx(a), hx(b)) for bs, s1, s2, a, b in cases])
    p1, p2 = os.path.join(d, 'a'), os.path.join(d, 'b')
    for (bs, s1, s2, a, b), o in zip(cases, outs):
        md, mt, msame = (int(x) for x in o.split())
        open(p1, 'wb').write(a); open(p2, 'wb').write(b)
        os.utime(p1, (FIXED_TIME, FIXED_TIME)); os.utime(p2, (FIXED_TIME, FIXED_TIME))
        try:
            impl = tuple(rt.diff_bytes_files(p1, p2, blocksize=bs, startpos1=s1, startpos2=s2))
        except Exception as e:
            impl = ('EXC', repr(e))
        try:
            same = bool(rt.diff_count_files(p1, p2, blocksize=bs, startpos1=s1, startpos2=s2))
        except Exception as e:
            same = repr(e)
        ctx.evaluations += 1
        case = {'kind': 'files', 'bs': bs, 'st1': s1, 'st2': s2, 'f1': a.hex(), 'f2': b.hex()}
        if a != b:
            ctx.nontriv((bs, s1, s2, a, b))
        ctx.count('rel=' + ('equal' if a == b else 'prefix' if a.startswith(b) or b.startswith(a) else 'samelen' if len(a) == len(b) else 'other'))
        if impl != (md, mt) or same != bool(msame):
            ctx.disagree(case, [md, mt, msame], [impl, same])
        want = spec_bytes(a[s1:], b[s2:])
        wsame = a[s1:] == b[s2:]
        if impl != want or same != wsame:
            ctx.fail(case, {'expected': [want, wsame], 'got': [impl, same]})
        else:
            ctx.traces += 1
        ctx.sample({'bs': bs, 'f1': a.hex(), 'f2': b.hex(), 'metric': want}, cap=3)


def tree_expect(ref, other):
    d = t = c = 0
    for rel, cont in ref.items():
        if rel not in other:
            d += len(cont); t += len(cont); c += 1
        else:
            x, y = spec_bytes(cont, other[rel])
            d += x; t += y; c += (cont != other[rel])
    return (d, t), (c, len(ref))


def run_trees(ctx, cases, d):
    import pyFileFixity.resiliency_tester as rt
    lines = []
    for bs, ref, other in cases:
        rk = sorted(ref); ok = sorted(other)
        lines.append('diffdir %d %s %s %s %s' % (bs, hxl([k.encode() for k in rk]), hxl([ref[k] for k in rk]),
                                                 hxl([k.encode() for k in ok]), hxl([other[k] for k in ok])))
    outs = ctx.model.run(lines)
    for (bs, ref, other), o in zip(cases, outs):
        md, mt, mc, mn, me = (int(x) for x in o.split())
        r1, r2 = os.path.join(d, 'ref'), os.path.join(d, 'oth')
        shutil.rmtree(r1, ignore_errors=True); shutil.rmtree(r2, ignore_errors=True)
        os.makedirs(r1); os.makedirs(r2)
        write_tree(r1, ref); write_tree(r2, other)
        old1, old2 = rt.diff_bytes_files.__defaults__, rt.diff_count_files.__defaults__
        rt.diff_bytes_files.__defaults__ = (bs, 0, 0); rt.diff_count_files.__defaults__ = (bs, 0, 0)
        try:
            try:
                ib = tuple(rt.diff_bytes_dir(r1, r2)); ic = tuple(rt.diff_count_dir(r1, r2))
            except Exception as e:
                ib, ic = ('EXC', repr(e)), None
        finally:
            rt.diff_bytes_files.__defaults__, rt.diff_count_files.__defaults__ = old1, old2
        ctx.evaluations += 1
        case = {'kind': 'trees', 'bs': bs, 'ref': {k: v.hex() for k, v in ref.items()}, 'other': {k: v.hex() for k, v in other.items()}}
        if ref != other:
            ctx.nontriv(repr(case))
        ctx.count('trees')
        if (ib, ic) != ((md, mt), (mc, mn)):
            ctx.disagree(case, [[md, mt], [mc, mn]], [ib, ic])
        want = tree_expect(ref, other)
        if (ib, ic) != want:
            ctx.fail(case, {'expected': want, 'got': [ib, ic]})
        else:
            ctx.traces += 1
            # exit rule: error == 0 as the code computes it
            if ib[1] > 0:
                err0 = (ib[0] / ib[1] * 100 == 0)
                if err0 != (me == 0):
                    ctx.disagree(case, {'exit': me}, {'error_is_zero': err0}, 'exit rule')
        ctx.sample({'ref': sorted(ref), 'other': sorted(other), 'bytes': want[0], 'count': want[1]}, cap=5)


def gen_tree(rng):
    # incl. names that file managers, version control and editors create or ignore: they are reference files like any other
    names = ['a.txt', 'b.bin', 'sub/c', 'sub/deep/d.dat', 'Sub2/e', 'z', 'sub/a.txt', 'photos/Thumbs.db', '.DS_Store', 'sub/desktop.ini', 'notes.tmp', '.gitignore', 'b.bin~']
    ref = {}
    for n in rng.sample(names, rng.randint(1, 5)):
        L = rng.choice([0, 1, 2, 5, 9, 30])
        ref[n] = bytes(rng.choice([0, 1, 65, 255]) for _ in range(L))
    other = {}
    for n, c in ref.items():
        m = rng.random()
        if m < 0.45:
            other[n] = c
        elif m < 0.55:
            continue
        elif m < 0.7:
            other[n] = c[:rng.randrange(len(c) + 1)]
        elif m < 0.8:
            other[n] = c + bytes(rng.choice([0, 66]) for _ in range(rng.choice([1, 4])))
        else:
            b = bytearray(c)
            for _ in range(rng.choice([1, 2])):
                if b:
                    b[rng.randrange(len(b))] ^= rng.choice([1, 255])
            other[n] = bytes(b)
    if rng.random() < 0.3:
        other['extra/x'] = b'xyz'
    return ref, other


RESTEST_CFG = """before_tamper:
    true
tamper:
    sh {t}/tamper.sh "{{inputdir}}"
after_tamper:
    true
repair:
    sh {t}/repair.sh "{{inputdir}}" "{{outputdir}}"
"""


def run_restest(ctx, n, d):
    """main() of the tester with stub commands: exit status 0 only if the final tree is identical."""
    import pyFileFixity.resiliency_tester as rt
    rng = ctx.rng
    for k in range(n):
        ref, final = gen_tree(rng)
        final = {p: c for p, c in final.items() if p in ref}   # repair output holds reference paths only
        if sum(max(len(c), len(final.get(p, c))) for p, c in ref.items()) == 0:
            continue
        t = os.path.join(d, 'rt%d' % k); os.makedirs(t)
        orig = os.path.join(t, 'orig'); fin = os.path.join(t, 'fin'); os.makedirs(orig); os.makedirs(fin)
        write_tree(orig, ref); write_tree(fin, final)
        # tamper: replace the tampered tree by garbage of the same names; repair: copy the prepared final tree
        open(os.path.join(t, 'tamper.sh'), 'w').write('for f in $(find "$1" -type f); do printf Q >> "$f"; done\n')
        open(os.path.join(t, 'repair.sh'), 'w').write('cp -r "%s"/. "$2"/\n' % fin)
        open(os.path.join(t, 'cfg'), 'w').write(RESTEST_CFG.format(t=t))
        buf = io.StringIO()
        try:
            with contextlib.redirect_stdout(buf), contextlib.redirect_stderr(buf):
                rc = rt.main(['-i', orig, '-o', os.path.join(t, 'out'), '-c', os.path.join(t, 'cfg'), '--silent', '-f'] + (['-p'] if k % 4 == 3 else []))   # -p: repair stages read the tampered tree (one stage here: same result)
        except BaseException as e:
            rc = 'EXC ' + repr(e)
        # files missing from the repair output are copied from the tampered tree (original + "Q")
        eff = {p: final.get(p, c + b'Q') for p, c in ref.items()}
        identical = all(eff[p] == ref[p] for p in ref)
        rk = sorted(ref)
        me = int(ctx.model.run(['diffdir 65535 %s %s %s %s' % (hxl([x.encode() for x in rk]), hxl([ref[x] for x in rk]),
                                                               hxl([x.encode() for x in rk]), hxl([eff[x] for x in rk]))])[0].split()[4])
        ctx.evaluations += 1
        ctx.count('restest_main_exit=%s' % (rc if isinstance(rc, int) else 'EXC'))
        case = {'kind': 'restest', 'ref': {p: c.hex() for p, c in ref.items()}, 'final': {p: c.hex() for p, c in eff.items()}}
        if not identical:
            ctx.nontriv(repr(case))
        if rc != me:
            ctx.disagree(case, {'exit': me}, {'exit': rc})
        if (rc == 0) != identical:
            ctx.fail(case, {'exit': rc, 'final_tree_identical': identical})
        else:
            ctx.traces += 1
        shutil.rmtree(t, ignore_errors=True)


def run_restest_counts(ctx, d):
    """The numbers `pff restest` PRINTS for the final stage — differing bytes a/b and differing files c/n from the original — against the
    model's tree metrics, on trees where a stage deletes files (an empty one, a non-empty one): compute_diff_stats is free to compute
    them any way it likes, the report must be the metric of the statement."""
    import re
    import pyFileFixity.resiliency_tester as rt
    scen = [('empty file deleted', {'a.bin': bytes(range(100)), 'sub/empty': b'', 'z': b'xyz'}, ['sub/empty'], {}),
            ('non-empty file deleted', {'a.bin': bytes(range(100)), 'sub/n': b'12345', 'z': b'xyz'}, ['sub/n'], {}),
            ('empty deleted, one byte wrong elsewhere', {'a.bin': bytes(range(100)), 'e1': b'', 'e2': b'', 'z': b'xyz'}, ['e2'], {'z': b'xyZ'}),
            ('nothing deleted, empty file grew', {'a.bin': bytes(range(50)), 'e': b''}, [], {'e': b'Q'}),
            # a reference file reached through a SYMBOLIC LINK (current.bin -> store/v3.bin): a reference file like any other; the tester
            # copies the tree with the links resolved, the final tree differs in that file only
            ('@symlink current.bin, final copy of it differs', {'store/v3.bin': bytes(range(60)), 'current.bin': bytes(range(60)), 'z': b'xyz'}, [],
             {'current.bin': bytes(range(59)) + b'!'})]
    for k, (name, ref, deleted, changed) in enumerate(scen):
        t = os.path.join(d, 'rc%d' % k); os.makedirs(t)
        orig = os.path.join(t, 'orig'); fdir = os.path.join(t, 'fin'); os.makedirs(orig); os.makedirs(fdir)
        final = {p: changed.get(p, c) for p, c in ref.items() if p not in deleted}
        write_tree(orig, ref); write_tree(fdir, final)
        if name.startswith('@symlink'):
            os.remove(os.path.join(orig, 'current.bin'))
            os.symlink(os.path.join('store', 'v3.bin'), os.path.join(orig, 'current.bin'))
        open(os.path.join(t, 'tamper.sh'), 'w').write(''.join('rm -f "$1/%s"\n' % p for p in deleted) or 'true\n')
        open(os.path.join(t, 'repair.sh'), 'w').write('cp -r "%s"/. "$2"/\n' % fdir)
        open(os.path.join(t, 'cfg'), 'w').write(RESTEST_CFG.format(t=t))
        log = os.path.join(t, 'log.txt')
        buf = io.StringIO()
        try:
            with contextlib.redirect_stdout(buf), contextlib.redirect_stderr(buf):
                rc = rt.main(['-i', orig, '-o', os.path.join(t, 'out'), '-c', os.path.join(t, 'cfg'), '--silent', '-f', '-l', log])
        except BaseException as e:
            rc = 'EXC ' + repr(e)
        text = open(log, errors='replace').read() if os.path.exists(log) else ''
        tail = text.split('FINAL AVERAGED RESULTS')[-1]
        i = tail.find('=> Stage: final')
        sect = tail[i:] if i >= 0 else ''
        mb_ = re.search(r'Differing bytes from original: (\d+)/(\d+)', sect)
        mf_ = re.search(r'Differing files from original: (\d+)/(\d+)', sect)
        shutil.rmtree(t, ignore_errors=True)
        rk, ok_ = sorted(ref), sorted(final)
        o = ctx.model.run(['diffdir 65535 %s %s %s %s' % (hxl([x.encode() for x in rk]), hxl([ref[x] for x in rk]),
                                                         hxl([x.encode() for x in ok_]) if ok_ else '.', hxl([final[x] for x in ok_]) if ok_ else '.')])[0].split()
        want = [int(x) for x in o[:4]]
        got = [int(mb_.group(1)), int(mb_.group(2)), int(mf_.group(1)), int(mf_.group(2))] if mb_ and mf_ else None
        ctx.evaluations += 1
        ctx.count('restest_report_counts')
        ctx.nontriv(('restest-counts', name))
        case = {'kind': 'restest-counts', 'scenario': name}
        nf = sum(1 for p in ref if final.get(p) != ref[p])
        if got != want:
            ctx.disagree(case, {'bytes': want[:2], 'files': want[2:]}, {'printed': got, 'exit': rc}, what='final-stage numbers printed by restest != tree metrics of the model')
        if got is not None and got[2] != nf:
            ctx.fail(case, {'printed_differing_files': got[2:], 'reference_files_without_identical_counterpart': nf, 'exit': rc})
        elif got == want:
            ctx.traces += 1


def run_restest_big(ctx, d):
    """A reference tree of ~3 MB whose final tree differs in ONE byte: the error rate is below 5e-5 %, still not 0: `pff restest`
    must not report 0 / exit 0.  Property predicate only (the byte lists are too long for the line protocol of the model)."""
    import hashlib
    import pyFileFixity.resiliency_tester as rt
    blob = b''.join(hashlib.sha256(b'c20big%d' % i).digest() for i in range(100000))      # 3.2 MB, deterministic
    ref = {'big.bin': blob, 'small.txt': b'hello'}
    fin = dict(ref, **{'big.bin': blob[:1234567] + bytes([blob[1234567] ^ 1]) + blob[1234568:]})
    t = os.path.join(d, 'rtbig'); os.makedirs(t)
    orig = os.path.join(t, 'orig'); fdir = os.path.join(t, 'fin'); os.makedirs(orig); os.makedirs(fdir)
    write_tree(orig, ref); write_tree(fdir, fin)
    open(os.path.join(t, 'tamper.sh'), 'w').write('for f in $(find "$1" -type f); do printf Q >> "$f"; done\n')
    open(os.path.join(t, 'repair.sh'), 'w').write('cp -r "%s"/. "$2"/\n' % fdir)
    open(os.path.join(t, 'cfg'), 'w').write(RESTEST_CFG.format(t=t))
    buf = io.StringIO()
    try:
        with contextlib.redirect_stdout(buf), contextlib.redirect_stderr(buf):
            rc = rt.main(['-i', orig, '-o', os.path.join(t, 'out'), '-c', os.path.join(t, 'cfg'), '--silent', '-f'])
    except BaseException as e:
        rc = 'EXC ' + repr(e)
    shutil.rmtree(t, ignore_errors=True)
    ctx.evaluations += 1
    ctx.count('restest_big_case')
    ctx.nontriv('restest-big')
    case = {'kind': 'restest-big', 'note': '3.2 MB reference, one byte of the final tree differs'}
    if rc == 0:
        ctx.fail(case, {'exit': rc, 'final_tree_identical': False, 'differing_bytes': 1, 'reference_bytes': len(blob) + 5})
    else:
        ctx.traces += 1


def restest_multi_once(ctx, t, ref, bad, m, bad_runs):
    """restest -m <m> with a repair stub that yields the tree `bad` in the runs listed in bad_runs and the original otherwise.
    Returns (exit status, averaged final error as printed, per-run model errors)."""
    import re
    import pyFileFixity.resiliency_tester as rt
    os.makedirs(t)
    orig = os.path.join(t, 'orig'); fin = os.path.join(t, 'fin'); os.makedirs(orig); os.makedirs(fin)
    write_tree(orig, ref); write_tree(fin, bad)
    open(os.path.join(t, 'tamper.sh'), 'w').write('for f in $(find "$1" -type f); do printf Q >> "$f"; done\n')
    open(os.path.join(t, 'repair.sh'), 'w').write(
        'n=$(cat "%s/cnt" 2>/dev/null || echo 0); n=$((n+1)); echo $n > "%s/cnt"\n'
        'case " %s " in *" $n "*) cp -r "%s"/. "$2"/ ;; *) cp -r "%s"/. "$2"/ ;; esac\n' % (t, t, ' '.join(str(x) for x in sorted(bad_runs)), fin, orig))
    open(os.path.join(t, 'cfg'), 'w').write(RESTEST_CFG.format(t=t))
    buf = io.StringIO()
    log = os.path.join(t, 'log.txt')
    try:
        with contextlib.redirect_stdout(buf), contextlib.redirect_stderr(buf):
            rc = rt.main(['-i', orig, '-o', os.path.join(t, 'out'), '-c', os.path.join(t, 'cfg'), '--silent', '-f', '-m', str(m), '-l', log])
    except BaseException as e:
        rc = 'EXC ' + repr(e)
    text = open(log, errors='replace').read() if os.path.exists(log) else ''
    tail = text.split('FINAL AVERAGED RESULTS')[-1] if 'FINAL AVERAGED RESULTS' in text else ''
    mfin = re.search(r'=> Stage: final\s*\n(?:\s*- [^\n]*\n)*?\s*- Error rate \(from original\): ([-+0-9.eE]+|nan|inf)', tail)
    reported = float(mfin.group(1)) if mfin else None
    rk = sorted(ref)
    errs = []
    for j in range(1, m + 1):
        eff = {p: (bad.get(p, c + b'Q') if j in bad_runs else c) for p, c in ref.items()}
        o = ctx.model.run(['diffdir 65535 %s %s %s %s' % (hxl([x.encode() for x in rk]), hxl([ref[x] for x in rk]),
                                                         hxl([x.encode() for x in rk]), hxl([eff[x] for x in rk]))])[0].split()
        errs.append(100.0 * int(o[0]) / int(o[1]) if int(o[1]) else 0.0)
    return rc, reported, errs


def run_restest_multi(ctx, n, d):
    """--multiple: the averaged final error the tester reports is the mean of the per-run final errors, so it is 0 (with exit 0)
    only if the final tree of EVERY run is identical to the original."""
    rng = ctx.rng
    for k in range(n):
        ref, bad = gen_tree(rng)
        bad = {p: c for p, c in bad.items() if p in ref}
        if sum(len(c) for c in ref.values()) == 0:
            continue        # a reference tree without a single byte: the error RATE is 0/0 (restest raises ZeroDivisionError); outside the statement
        m = rng.choice([2, 3])
        bad_runs = rng.choice([[1], [1], [m], list(range(1, m + 1)), [], [1, m]])
        case = {'kind': 'restest-multi', 'ref': {p: c.hex() for p, c in ref.items()}, 'bad': {p: c.hex() for p, c in bad.items()},
                'm': m, 'bad_runs': bad_runs}
        t = os.path.join(d, 'rm%d' % k)
        rc, reported, errs = restest_multi_once(ctx, t, ref, bad, m, set(bad_runs))
        shutil.rmtree(t, ignore_errors=True)
        ctx.evaluations += 1
        ctx.count('restest_multi_cases')
        ctx.count('restest_multi_bad_runs=%s' % ('none' if not bad_runs else 'first' if bad_runs == [1] else 'last' if bad_runs == [m] else 'several'))
        mean = sum(errs) / len(errs)
        if any(errs):
            ctx.nontriv(repr(case))
        if reported is None or abs(reported - mean) > 1e-4 * max(1.0, mean):
            ctx.disagree(case, {'averaged_final_error': mean, 'per_run': errs}, {'averaged_final_error': reported, 'exit': rc},
                         what='averaged final error printed by restest != mean of the per-run errors of the model')
        if reported == 0 and rc == 0 and any(errs):
            ctx.fail(case, {'exit': rc, 'reported_final_error': reported, 'per_run_final_errors': errs,
                            'what': 'final error 0 and exit 0 although the final tree of some run differs from the original'})
        else:
            ctx.traces += 1


def final_tree_of(outdir):
    """the tree of the LAST repair command of run 1 (numeric order), read from the tester's output folder"""
    import re
    r1 = os.path.join(outdir, 'run1')
    reps = sorted((int(m.group(1)), n) for n in (os.listdir(r1) if os.path.isdir(r1) else []) for m in [re.match(r'repair(\d+)$', n)] if m)
    if not reps:
        return None
    out = {}
    top = os.path.join(r1, reps[-1][1])
    for dp, _, fs in os.walk(top):
        for fn in fs:
            p = os.path.join(dp, fn)
            out[os.path.relpath(p, top).replace(os.sep, '/')] = open(p, 'rb').read()
    return out


def run_restest_cfg(ctx, d):
    """Shapes of the configuration file: (a) a repair stage of eleven commands, the last of which spoils one file (the final tree is
    the tree of the LAST command, the eleventh, not the tenth); (b) a before_tamper command that writes through {inputdir} (the
    reference of every metric is the -i tree as it is when the run ends).  Property predicate only: exit 0 <=> the final tree read
    from the output folder is identical to the -i tree."""
    import pyFileFixity.resiliency_tester as rt
    ref = {'a.bin': bytes(range(200)), 'sub/b.txt': b'hello world\n' * 10, 'MANIFEST.txt': b'one\n'}
    scen = []
    good = 'cp -r "{inputdir}"/. "{outputdir}"/'
    eleven = ''.join('    %s\n' % good for _ in range(10)) + '    sh -c \'cp -r "{inputdir}"/. "{outputdir}"/ && printf X >> "{outputdir}/sub/b.txt"\'\n'
    scen.append(('eleven repair commands, the last one spoils a file', 'before_tamper:\n    true\ntamper:\n    true\nafter_tamper:\n    true\nrepair:\n' + eleven, False))
    scen.append(('eleven repair commands, all good', 'before_tamper:\n    true\ntamper:\n    true\nafter_tamper:\n    true\nrepair:\n' + ''.join('    %s\n' % good for _ in range(11)), True))
    scen.append(('before_tamper appends to a file of {inputdir}', 'before_tamper:\n    sh -c \'printf two >> "{inputdir}/MANIFEST.txt"\'\ntamper:\n    true\nafter_tamper:\n    true\nrepair:\n    %s\n' % good, None))
    for k, (name, cfg, _) in enumerate(scen):
        t = os.path.join(d, 'cfg%d' % k); os.makedirs(t)
        orig = os.path.join(t, 'orig'); os.makedirs(orig)
        write_tree(orig, ref)
        open(os.path.join(t, 'cfg'), 'w').write(cfg)
        buf = io.StringIO()
        try:
            with contextlib.redirect_stdout(buf), contextlib.redirect_stderr(buf):
                rc = rt.main(['-i', orig, '-o', os.path.join(t, 'out'), '-c', os.path.join(t, 'cfg'), '--silent', '-f'])
        except BaseException as e:
            rc = 'EXC ' + repr(e)
        fin = final_tree_of(os.path.join(t, 'out'))
        now = {}
        for dp, _, fs in os.walk(orig):
            for fn in fs:
                p = os.path.join(dp, fn)
                now[os.path.relpath(p, orig).replace(os.sep, '/')] = open(p, 'rb').read()
        shutil.rmtree(t, ignore_errors=True)
        identical = fin is not None and all(fin.get(p) == c for p, c in now.items())
        ctx.evaluations += 1
        ctx.count('restest_config_shapes')
        ctx.nontriv(('restest-cfg', name))
        case = {'kind': 'restest-cfg', 'scenario': name}
        if not isinstance(rc, int) or (rc == 0) != identical:
            ctx.fail(case, {'exit': rc, 'final_tree_identical_to_input_tree': identical,
                            'differing': None if fin is None else sorted(p for p, c in now.items() if fin.get(p) != c)})
        else:
            ctx.traces += 1


def run(ctx):
    from props import cli_proc
    cli_proc.stream(ctx, ['C20', 'C20@restest'])
    rng = ctx.rng
    d = tempfile.mkdtemp(prefix='pffc20')
    try:
        corpus = [(65535, 0, 0, b'abcdefghij', b'abcdefghijKLMNO'), (10, 0, 0, b'abcdefghij', b'abcdefghijKLMNO'),
                  (4, 0, 0, b'', b'abc'), (3, 2, 1, b'xxabc', b'yabcd'), (7, 0, 0, b'', b'')]
        run_files(ctx, corpus, d)
        ws = [bytes(t) for n in range(0, 5 if ctx.tier == 'quick' else 6) for t in itertools.product([0, 1], repeat=n)]
        cases = [(bs, 0, 0, a, b) for a in ws for b in ws for bs in (1, 2, 3, 4, 5, 8)]
        ctx.extra['exhaustive_cases'] = len(cases)
        run_files(ctx, cases, d)
        cases = []
        for _ in range(2500 if ctx.tier == 'quick' else 40000):
            L = rng.choice([0, 1, 2, 9, 10, 11, 64, 150, 300])
            a = bytes(rng.choice([0, 1, 255]) for _ in range(L))
            m = rng.random()
            if m < 0.2: b = a
            elif m < 0.4: b = a[:rng.randrange(len(a) + 1)]
            elif m < 0.6: b = a + bytes(rng.randrange(256) for _ in range(rng.choice([1, 5, 70])))
            else:
                b = bytearray(a[:rng.randrange(len(a) + 1)] + bytes(rng.randrange(3) for _ in range(rng.choice([0, 0, 3, 40]))))
                for _ in range(rng.choice([0, 1, 3])):
                    if b: b[rng.randrange(len(b))] = rng.randrange(256)
                b = bytes(b)
            if rng.random() < 0.5: a, b = b, a
            s1, s2 = (0, 0) if rng.random() < 0.7 else (rng.choice([0, 1, 5, 400]), rng.choice([0, 2, 5]))
            cases.append((rng.choice([1, 2, 3, 4, 5, 6, 7, 8, 9, 10, 64, 65535]), s1, s2, a, b))
        run_files(ctx, cases, d)
        tcases = []
        for _ in range(300 if ctx.tier == 'quick' else 5000):
            ref, other = gen_tree(rng)
            tcases.append((rng.choice([1, 2, 3, 4, 7, 65535]), ref, other))
        run_trees(ctx, tcases, d)
        run_restest(ctx, 12 if ctx.tier == 'quick' else 150, d)
        run_restest_multi(ctx, 8 if ctx.tier == 'quick' else 80, d)
        run_restest_big(ctx, d)
        run_restest_counts(ctx, d)
        run_restest_cfg(ctx, d)
    finally:
        shutil.rmtree(d, ignore_errors=True)


def replay_case(ctx, case):
    if isinstance(case, dict) and case.get('kind') == 'cli-process':
        from props import cli_proc
        return cli_proc.replay(case)
    import pyFileFixity.resiliency_tester as rt
    d = tempfile.mkdtemp(prefix='pffc20r')
    try:
        if case['kind'] == 'files':
            a, b = bytes.fromhex(case['f1']), bytes.fromhex(case['f2'])
            p1, p2 = os.path.join(d, 'a'), os.path.join(d, 'b')
            open(p1, 'wb').write(a); open(p2, 'wb').write(b)
            os.utime(p1, (FIXED_TIME, FIXED_TIME)); os.utime(p2, (FIXED_TIME, FIXED_TIME))
            try:
                impl = tuple(rt.diff_bytes_files(p1, p2, blocksize=case['bs'], startpos1=case['st1'], startpos2=case['st2']))
            except Exception as e:
                impl = ('EXC', repr(e))
            try:
                same = bool(rt.diff_count_files(p1, p2, blocksize=case['bs'], startpos1=case['st1'], startpos2=case['st2']))
            except Exception as e:
                same = repr(e)
            want = spec_bytes(a[case['st1']:], b[case['st2']:])
            wsame = a[case['st1']:] == b[case['st2']:]
            m = ctx.model.run(['diff %d %d %d %s %s' % (case['bs'], case['st1'], case['st2'], hx(a), hx(b))])[0]
            return {'holds': impl == want and same == wsame, 'implementation': [impl, same], 'property_expects': [want, wsame], 'model': m}
        if case['kind'] == 'trees':
            ref = {k: bytes.fromhex(v) for k, v in case['ref'].items()}
            other = {k: bytes.fromhex(v) for k, v in case['other'].items()}
            r1, r2 = os.path.join(d, 'ref'), os.path.join(d, 'oth'); os.makedirs(r1); os.makedirs(r2)
            write_tree(r1, ref); write_tree(r2, other)
            try:
                got = (tuple(rt.diff_bytes_dir(r1, r2)), tuple(rt.diff_count_dir(r1, r2)))
            except Exception as e:
                got = ('EXC', repr(e))
            want = tree_expect(ref, other)
            return {'holds': got == want, 'implementation': got, 'property_expects': want}
        if case['kind'] == 'restest-big':
            sub = type('X', (), {'evaluations': 0, 'traces': 0, 'fails': [], 'count': lambda self, *a: None, 'nontriv': lambda self, *a: None,
                                 'fail': lambda self, c, det: self.fails.append(det)})()
            run_restest_big(sub, d)
            return {'holds': not sub.fails, 'implementation': sub.fails[:1]}
        if case['kind'] == 'restest-multi':
            ref = {k: bytes.fromhex(v) for k, v in case['ref'].items()}
            bad = {k: bytes.fromhex(v) for k, v in case['bad'].items()}
            rc, reported, errs = restest_multi_once(ctx, os.path.join(d, 'rm'), ref, bad, case['m'], set(case['bad_runs']))
            mean = sum(errs) / len(errs)
            return {'holds': not (reported == 0 and rc == 0 and any(errs)), 'implementation': {'exit': rc, 'averaged_final_error': reported},
                    'model': {'per_run_final_errors': errs, 'mean': mean},
                    'agree': reported is not None and abs(reported - mean) <= 1e-4 * max(1.0, mean)}
        return {'holds': True, 'note': 'restest cases are regenerated, not replayed'}
    finally:
        shutil.rmtree(d, ignore_errors=True)
