# C19 — filetamper damages only what it says: correspondence of Tamper.v with
# pyFileFixity/filetamper.py (tamper_file, tamper_dir, main / pff filetamper) and the property
# predicates evaluated directly on the implementation's before/after bytes.
import contextlib, gc, io, json, linecache, math, os, random, re, resource, shutil, signal, sys, tempfile
from fractions import Fraction
from common import hx, hxl, unhx

RULE = ('four entry levels: tamper_file called directly (block sizes 1..7,16,65535,65536, file sizes 0..40 and 0,1,2,100,'
        '65535,65536,65537,131073), tamper_dir on real nested trees, filetamper.main and pff.main(["filetamper",..]) on a '
        'file and on a directory; modes e/erasure/n/noise/other, probabilities 0, fractions (incl. exactly representable '
        'and tiny), >= 1 expected counts, negative; block probabilities none/0.0/fractions/1; burst ranges incl. [0,0], '
        'negative lower bound, longer than a block; header none/0/negative/around the file size/around the block. '
        'random.random/randint are replaced in the filetamper module by a recorder (Mersenne draws mixed with adversarial '
        'boundary values: 0.0, p, p+-1ulp, block_p, 1-2^-53, range ends); every recorded draw is replayed into the extracted '
        'model, which must return the same bytes, counts and consume exactly the recorded stream. Property predicates '
        '(length, region, zeros, count bounds, p=0 identity, unselected blocks, each file once, file = one-file directory, '
        'exit status) are evaluated on the implementation alone. malformed stream: burst ranges lo>hi (ValueError <-> '
        'BadRange), truncated / wrong-kind / out-of-range draw streams into the model. non-trivial = at least one position '
        'selected; distinct by full case.')
TRUSTED_EXTRA = ['modelled: filetamper.tamper_file (lines 77-123), tamper_dir, the file/directory dispatch and the printed '
                 'counts of main; not modelled: argparse, Tee/log, tqdm, tamper_file_at (unused)',
                 'oracle: the random module = the stream of values its two entry points return, recorded by replacing '
                 'the name `random` in the filetamper module namespace; theorems quantify over every stream',
                 'the one float expression `1.0/max(1,size)*proba` (p >= 1 normalisation) is evaluated by the harness exactly '
                 'as written in the code and handed to the model as an exact rational (float.as_integer_ratio); float < float '
                 'is exact rational <',
                 'directory walk: the model takes the files in walk order; the harness computes the sorted top-down order '
                 'itself and checks it against the order in which tamper_file is really called']
ASSUMPTIONS = ['regular files opened r+b: read(n) returns the next min(n, remaining) bytes; seek/write overwrite in place',
               'recwalk/os.walk enumerate each regular file of the tree once (checked on every generated tree)',
               'random.random() returns a float in [0,1), random.randint(a,b) an integer in [a,b] (the model rejects '
               'anything else as BadDraw)']

BIG = (65535, 65536, 65537, 131073)
TIMEOUTS = [0]      # runs of the implementation stopped by the alarm; the sweep is cut short after a few
MAX_TIMEOUTS = 5


def _stack():
    try:
        resource.setrlimit(resource.RLIMIT_STACK, (resource.RLIM_INFINITY, resource.RLIM_INFINITY))
    except Exception:
        try:
            s, h = resource.getrlimit(resource.RLIMIT_STACK)
            resource.setrlimit(resource.RLIMIT_STACK, (h, h))
        except Exception:
            pass


# ---------------------------------------------------------------- oracle recorder
class Recorder:
    """Stands in for the name `random` inside pyFileFixity.filetamper."""
    def __init__(self, seed, adv, specials):
        self.src = random.Random(seed)
        self.adv = adv
        self.specials = [s for s in specials if isinstance(s, float) and 0.0 <= s < 1.0] or [0.0]
        self.draws = []      # ('u', float) | ('i', int)
        self.sites = []
        self._site = {}

    def _tag(self):
        f = sys._getframe(2)
        k = (f.f_code.co_filename, f.f_lineno)
        s = self._site.get(k)
        if s is None:
            t = linecache.getline(*k)
            s = ('block' if 'block_proba' in t else 'pos' if '< proba' in t else
                 'burst' if 'burst_length[' in t else 'noise' if 'randint(0' in t else '?')
            self._site[k] = s
        self.sites.append(s)

    def random(self):
        if self.adv and self.src.random() < self.adv:
            r = self.src.choice(self.specials)
        else:
            r = self.src.random()
        self.draws.append(('u', r)); self._tag()
        return r

    def randint(self, a, b):
        z = self.src.randint(a, b)          # raises ValueError for an empty range, as the real one
        if self.adv and self.src.random() < self.adv:
            z = self.src.choice([a, b, min(b, a + 1)])
        self.draws.append(('i', z)); self._tag()
        return z


class Replayer:
    """Feeds a recorded stream back to the implementation (file vs one-file-directory comparison)."""
    def __init__(self, draws):
        self.q = list(draws); self.i = 0
        self.draws = []; self.sites = []

    def _next(self, kind):
        if self.i >= len(self.q) or self.q[self.i][0] != kind:
            raise RuntimeError('REPLAY-MISMATCH at draw %d' % self.i)
        v = self.q[self.i][1]; self.i += 1
        self.draws.append((kind, v)); self.sites.append('?')
        return v

    def random(self):
        return self._next('u')

    def randint(self, a, b):
        return self._next('i')


def tok(d):
    k, v = d
    if k == 'i':
        return 'i%d' % v
    fr = Fraction(v)
    e = fr.denominator.bit_length() - 1
    assert fr.denominator == 1 << e
    if e <= 53:
        return 'u%d' % (fr.numerator << (53 - e))
    return 'v%d/%d' % (fr.numerator, e)


def rat(x):
    fr = Fraction(x)
    e = fr.denominator.bit_length() - 1
    assert fr.denominator == 1 << e
    return '%d/%d' % (fr.numerator, e)


def eff_p(p, size):
    """line 85 of filetamper.py, as written there (after the fix: max(1, size))."""
    if p >= 1:
        p = 1.0 / max(1, size) * p
    return p


# ---------------------------------------------------------------- cases
def gen_content(size, cseed, alpha):
    r = random.Random(cseed)
    if alpha == 0:
        return r.randbytes(size)
    if alpha == 2:
        return bytes(size)
    return bytes(r.choices([0, 0, 1, 65, 255], k=size))


def walk_order(rels):
    """sorted top-down walk: a directory's files (sorted), then its sub-directories (sorted), depth first."""
    tree = {}
    for rel in rels:
        parts = rel.split('/')
        d = tree
        for x in parts[:-1]:
            d = d.setdefault('d', {}).setdefault(x, {})
        d.setdefault('f', []).append(parts[-1])
    out = []

    def go(d, prefix):
        for f in sorted(d.get('f', [])):
            out.append(prefix + f)
        for n in sorted(d.get('d', {})):
            go(d['d'][n], prefix + n + '/')
    go(tree, '')
    return out


def hdr_active(h):
    return bool(h and h > 0)


def run_impl(case, rng_obj=None, as_one_file_dir=False):
    """Runs the real code on real files. Returns the observation dict."""
    import pyFileFixity.filetamper as ft
    level = case['level']
    files = {f[0]: gen_content(f[1], f[2], f[3]) for f in case['files']}
    d = tempfile.mkdtemp(prefix='pffc19')
    real_out, real_err, real_random, real_tf = sys.stdout, sys.stderr, ft.random, ft.tamper_file
    cwd = os.getcwd()
    obs = {'before': files, 'calls': []}
    try:
        root = os.path.join(d, 'tree'); os.makedirs(root)
        work = os.path.join(d, 'cwd'); os.makedirs(work); os.chdir(work)
        for rel, c in files.items():
            p = os.path.join(root, rel)
            os.makedirs(os.path.dirname(p), exist_ok=True)
            with open(p, 'wb') as f:
                f.write(c)
        single = (case.get('input') == 'file') or level == 'file'
        if single and as_one_file_dir:
            single = False
        target = os.path.join(root, case['files'][0][0]) if single else root
        p, bp, burst, header = case['p'], case.get('bp'), case.get('burst'), case.get('header')
        if rng_obj is None:
            sp = [0.0, 1.0 - 2.0 ** -53]
            for x in [p, bp] + [eff_p(p, len(c)) for c in files.values()]:
                if isinstance(x, float) and 0.0 < x < 1.0:
                    sp += [x, math.nextafter(x, 0.0), math.nextafter(x, 1.0)]
            rng_obj = Recorder(case['rseed'], case.get('adv', 0.0), sp)
        ft.random = rng_obj

        def wrapped(path, *a, **k):
            start = len(rng_obj.draws)
            r = real_tf(path, *a, **k)
            obs['calls'].append((os.path.relpath(path, root), list(r), start, len(rng_obj.draws)))
            return r
        buf = io.StringIO()
        limit = 4 + sum(len(c) for c in files.values()) // 5000

        def on_alarm(signum, frame):
            raise TimeoutError('implementation still running after %d s' % limit)
        old_handler = signal.signal(signal.SIGALRM, on_alarm)
        signal.alarm(limit)
        try:
            if level == 'file':
                start = 0
                r = ft.tamper_file(target, mode=case['mode'], proba=p, block_proba=bp, blocksize=case['bs'],
                                   burst_length=burst, header=header)
                obs['calls'].append((case['files'][0][0], list(r), 0, len(rng_obj.draws)))
                obs['result'] = list(r)
            elif level == 'dir':
                ft.tamper_file = wrapped
                r = ft.tamper_dir(target, mode=case['mode'], proba=p, block_proba=bp, blocksize=case['bs'],
                                  burst_length=burst, header=header, silent=True)
                obs['result'] = list(r)
            else:
                ft.tamper_file = wrapped
                argv = ['-i', target, '-m', case['mode'], '-p', repr(p)]
                if bp is not None:
                    argv += ['--block_probability', repr(bp)]
                if burst is not None:
                    argv += ['-b', '%d|%d' % tuple(burst)]
                if header is not None:
                    argv += ['--header', str(header)]
                log = None
                if case.get('silent'):
                    log = os.path.join(d, 'log.txt')
                    argv += ['--silent', '-l', log]
                with contextlib.redirect_stdout(buf), contextlib.redirect_stderr(io.StringIO()):
                    if level == 'pff':
                        from pyFileFixity import pff
                        rc = pff.main(['filetamper'] + argv)
                    else:
                        rc = ft.main(argv)
                obs['exit'] = rc
                text = buf.getvalue()
                if log:
                    gc.collect()
                    try:
                        text += open(log).read()
                    except OSError:
                        pass
                m = re.search(r'Tampering done: (\d+)/(\d+) files tampered and overall (\d+)/(\d+) ', text)
                m1 = re.search(r'Tampering done: (\d+)/(\d+) \(', text)
                if m:
                    obs['result'] = [int(x) for x in m.groups()]
                elif m1:
                    obs['result'] = [int(x) for x in m1.groups()]
                else:
                    obs['result'] = ('EXC', 'no count printed')
        except BaseException as e:       # SystemExit included: an observable, not a harness crash
            obs['result'] = ('EXC', type(e).__name__ + ': ' + str(e)[:200])
            obs['exit'] = 'EXC'
            if isinstance(e, TimeoutError):
                TIMEOUTS[0] += 1
        finally:
            signal.alarm(0)
            signal.signal(signal.SIGALRM, old_handler)
        obs['draws'] = list(rng_obj.draws)
        obs['sites'] = list(rng_obj.sites)
        after = {}
        for rel in files:
            with open(os.path.join(root, rel), 'rb') as f:
                after[rel] = f.read()
        obs['after'] = after
        seen = []
        for dp, dn, fn in os.walk(root):
            for x in fn:
                seen.append(os.path.relpath(os.path.join(dp, x), root))
        obs['tree_after'] = sorted(seen)
        return obs
    finally:
        ft.random, ft.tamper_file = real_random, real_tf
        gc.collect()
        sys.stdout, sys.stderr = real_out, real_err
        os.chdir(cwd)
        shutil.rmtree(d, ignore_errors=True)


def order_of(case):
    if case['level'] == 'file' or case.get('input') == 'file':
        return [case['files'][0][0]]
    return walk_order([f[0] for f in case['files']])


def model_line(case, obs, draws=None, as_dir=False):
    draws = obs['draws'] if draws is None else draws
    rnd = ','.join(tok(x) for x in draws) if draws else '.'
    bp = 'none' if case.get('bp') is None else rat(case['bp'])
    burst = 'none' if case.get('burst') is None else '%d,%d' % tuple(case['burst'])
    h = 'none' if case.get('header') is None else str(case['header'])
    mode = hx(case['mode'].encode())
    bs = case['bs'] if case['level'] in ('file', 'dir') else 65536
    single = (case['level'] == 'file' or case.get('input') == 'file') and not as_dir
    order = order_of(case)
    if single:
        c = obs['before'][order[0]]
        cmd = 'tfile' if case['level'] == 'file' else 'tmainfile'
        return '%s %s %s %s %s %s %d %s %s' % (cmd, mode, rat(eff_p(case['p'], len(c))), bp, burst, h, bs, hx(c), rnd)
    cs = [obs['before'][r] for r in order]
    ps = ','.join(rat(eff_p(case['p'], len(c))) for c in cs) if cs else '.'
    return 'tmaindir %s %s %s %s %d %s %s %s' % (mode, bp, burst, h, bs, ps, hxl(cs), rnd)


def parse_model(case, line, as_dir=False):
    """-> ('ERR', name) | {'after': [bytes...], 'result': [...], 'left': n, 'trace': ...}"""
    w = line.split(' ')
    if w[0] == 'ERR':
        return ('ERR', ' '.join(w[1:]))
    single = (case['level'] == 'file' or case.get('input') == 'file') and not as_dir
    if single and case['level'] == 'file':
        tr = [] if w[5] == '.' else [tuple(int(x) for x in t.split(':')) for t in w[5].split(';')]
        return {'after': [unhx(w[1])], 'result': [int(w[2]), int(w[3])], 'left': int(w[4]), 'trace': tr}
    if single:
        return {'after': [unhx(w[1])], 'result': [int(x) for x in w[2].split(',')], 'left': int(w[3])}
    cs = [] if w[1] == '.' else [unhx(x) for x in w[1].split(',')]
    return {'after': cs, 'result': [int(x) for x in w[2].split(',')], 'left': int(w[3])}


# ---------------------------------------------------------------- the property, from its statement
def ndiff(a, b):
    if a == b:
        return 0
    return sum(1 for x, y in zip(a, b) if x != y)


def predicate(case, obs):
    """Evaluated on the implementation's behaviour only. Returns the list of violated clauses."""
    bad = []
    before, after = obs['before'], obs['after']
    h = case.get('header')
    res = obs['result']
    exc = isinstance(res, tuple)
    expected_exc = case.get('burst') is not None and case['burst'][0] > case['burst'][1]
    if obs['tree_after'] != sorted(before):
        bad.append('set of files changed: %r' % (obs['tree_after'],))
    tot_diff = tot_region = 0
    for rel, b in before.items():
        a = after[rel]
        if len(a) != len(b):
            bad.append('length of %s changed %d -> %d' % (rel, len(b), len(a)))
            continue
        if hdr_active(h) and a[h:] != b[h:]:
            bad.append('bytes beyond header %d changed in %s' % (h, rel))
        if case['mode'] in ('e', 'erasure'):
            if any(x != y and x != 0 for x, y in zip(a, b)):
                bad.append('erasure mode: altered byte is not zero in %s' % rel)
        if case['p'] == 0 and a != b:
            bad.append('probability 0 but %s changed' % rel)
        tot_diff += ndiff(a, b)
        tot_region += min(h, len(b)) if hdr_active(h) else len(b)
    if exc:
        if not expected_exc:
            bad.append('no count reported: %s' % (res[1],))
        return bad
    cnt, scanned = res[-2], res[-1]
    if not (tot_diff <= cnt <= scanned <= tot_region):
        bad.append('count bounds: differing=%d count=%d scanned=%d region=%d' % (tot_diff, cnt, scanned, tot_region))
    if case['p'] == 0 and cnt != 0:
        bad.append('probability 0 but count %d' % cnt)
    # per call (each call = one visit of one file)
    for rel, r, s, e in obs['calls']:
        b, a = before[rel], after[rel]
        reg = min(h, len(b)) if hdr_active(h) else len(b)
        if len(a) == len(b) and not (ndiff(a, b) <= r[0] <= r[1] <= reg):
            bad.append('count bounds in %s: differing=%d count=%d scanned=%d region=%d' % (rel, ndiff(a, b), r[0], r[1], reg))
    if case['level'] != 'file':
        visited = [c[0] for c in obs['calls']]
        want = order_of(case)
        if sorted(visited) != sorted(want):
            bad.append('visits: %r for files %r' % (visited, want))
        if len(res) == 4:
            if res[1] != len(want):
                bad.append('files count %d for %d files' % (res[1], len(want)))
            nd = sum(1 for rel in before if before[rel] != after[rel])
            if not (nd <= res[0] <= res[1]):
                bad.append('files tampered %d, really differing %d, files %d' % (res[0], nd, res[1]))
        if case['level'] in ('main', 'pff') and obs.get('exit') != 0:
            bad.append('exit status %r' % (obs.get('exit'),))
    # unselected blocks (independent of the model: selection read off the recorded draws by call site)
    bp = case.get('bp')
    if bp and '?' not in obs['sites']:
        for rel, r, s, e in obs['calls']:
            b, a = before[rel], after[rel]
            if len(a) != len(b):
                continue
            bs = h if hdr_active(h) else (case['bs'] if case['level'] in ('file', 'dir') else 65536)
            k = 0
            for i in range(s, e):
                if obs['sites'][i] == 'block':
                    if not (obs['draws'][i][1] < bp) and bs > 0 and a[k * bs:(k + 1) * bs] != b[k * bs:(k + 1) * bs]:
                        bad.append('unselected block %d of %s changed' % (k, rel))
                    k += 1
    return bad


def compare(case, obs, mline, as_dir=False):
    """model answer vs implementation observation -> None or a description"""
    m = parse_model(case, mline, as_dir)
    res = obs['result']
    if isinstance(m, tuple):
        if isinstance(res, tuple) and m[1] == 'BadRange' and res[1].startswith('ValueError'):
            return None
        return 'model %r, implementation %r' % (m, res if isinstance(res, tuple) else list(res))
    if isinstance(res, tuple):
        return 'implementation raised %r, model returned %r' % (res, m['result'])
    order = order_of(case)
    if as_dir:
        order = [case['files'][0][0]]
    ia = [obs['after'][r] for r in order]
    if m['after'] != ia:
        k = next(i for i in range(len(ia)) if i >= len(m['after']) or m['after'][i] != ia[i])
        return 'file bytes differ (file %d %s)' % (k, order[k])
    if list(m['result']) != list(res):
        return 'counts: model %r implementation %r' % (m['result'], list(res))
    if m['left'] != 0:
        return 'model left %d draws unconsumed' % m['left']
    if 'trace' in m:
        if sum(t[1] for t in m['trace']) != res[0] or sum(t[2] for t in m['trace']) != res[1]:
            return 'trace sums %r vs %r' % (m['trace'], res)
    return None


# ---------------------------------------------------------------- generators
PROBS = [0.0, 0.0, 1e-5, 0.001, 0.03, 0.1, 0.25, 0.3, 0.5, 0.75, 0.999, 1.0, 2.0, 3.0, 5.5, 17.0, 1000.0, -0.5]
BPS = [None, None, None, None, 0.0, 0.3, 0.5, 0.5, 0.999, 1.0, -0.25]
BURSTS = [None, None, None, None, [1, 1], [1, 3], [2, 5], [0, 0], [0, 2], [3, 3], [-2, 1], [2, 9], [5, 70000]]
MODES = ['e', 'e', 'erasure', 'n', 'n', 'noise', 'x']
NAMES = ['a.txt', 'b.bin', 'sub/c', 'sub/deep/d.dat', 'Sub2/e', 'z', 'sub/a.txt', 'sub/deep/more/f', '0', 'sub.d/g', '50%d {x}.bin']


def gen_header(rng, size, bs):
    return rng.choice([None, None, None, None, 0, -3, 1, 2, max(1, size - 1), size, size + 1, 2 * size + 7, bs, bs + 1, max(1, bs - 1)])


def gen_case(rng, level, sizes, bss):
    n = 1 if level == 'file' else rng.choice([0, 1, 1, 2, 3, 4, 6])
    inp = None
    if level in ('main', 'pff'):
        inp = rng.choice(['file', 'dir'])
        if inp == 'file':
            n = 1
        elif n == 0:
            n = 1
    names = rng.sample(NAMES, n)
    files = [[nm, rng.choice(sizes), rng.randrange(1 << 30), rng.choice([0, 1, 1, 2])] for nm in names]
    bs = rng.choice(bss)
    size0 = files[0][1] if files else 0
    p = rng.choice(PROBS)
    if rng.random() < 0.15 and size0:
        p = float(rng.choice([size0, size0 + 3, max(1, size0 // 2)]))
    if rng.random() < 0.1:
        p = rng.random() * rng.choice([1, 0.1, 0.01])
    burst = rng.choice(BURSTS)
    if level in ('main', 'pff') and burst and burst[0] < 0:
        burst = [1, 2]
    hb = 65536 if level in ('main', 'pff') else bs
    case = {'level': level, 'mode': rng.choice(MODES), 'p': p, 'bp': rng.choice(BPS), 'burst': burst,
            'header': gen_header(rng, size0, hb), 'bs': bs, 'files': files, 'rseed': rng.randrange(1 << 30),
            'adv': rng.choice([0.0, 0.0, 0.1, 0.4])}
    if inp:
        case['input'] = inp
        case['silent'] = rng.random() < 0.15
        del case['bs']
        if case['mode'] == 'x' and rng.random() < 0.5:
            case['mode'] = 'e'
    return case


def classes(ctx, case):
    ctx.count('level=' + case['level'] + ('/' + case['input'] if case.get('input') else ''))
    ctx.count('mode=' + case['mode'])
    p = case['p']
    ctx.count('p=' + ('0' if p == 0 else 'neg' if p < 0 else 'frac' if p < 1 else '>=1'))
    bp = case.get('bp')
    ctx.count('block_p=' + ('none' if bp is None else '0.0' if bp == 0 else 'set'))
    b = case.get('burst')
    ctx.count('burst=' + ('none' if b is None else 'empty-range' if b[0] > b[1] else 'long' if b[1] > 1000 else 'range'))
    h = case.get('header')
    s0 = case['files'][0][1] if case['files'] else 0
    ctx.count('header=' + ('none' if h is None else '<=0' if h <= 0 else '<size' if h < s0 else '=size' if h == s0 else '>size'))
    for f in case['files']:
        ctx.count('size=' + (str(f[1]) if f[1] in (0, 1, 2) or f[1] in BIG else '3..40' if f[1] <= 40 else '41..1000' if f[1] <= 1000 else 'other'))
    ctx.count('files_per_case=%d' % len(case['files']))


def run_batch(ctx, cases, twin=False):
    obss = []
    for c in cases:
        if TIMEOUTS[0] >= MAX_TIMEOUTS:
            ctx.count('cases_skipped_after_timeouts', len(cases) - len(obss))
            break
        obss.append(run_impl(c))
    cases = cases[:len(obss)]
    lines = [model_line(c, o) for c, o in zip(cases, obss)]
    outs = ctx.model.run(lines)
    for case, obs, out in zip(cases, obss, outs):
        ctx.evaluations += 1
        classes(ctx, case)
        res = obs['result']
        ctx.count('draws', len(obs['draws']))
        if isinstance(res, tuple):
            ctx.count('impl_exception=' + res[1].split(':')[0])
        elif res[-2] > 0:
            ctx.nontriv(json.dumps(case, sort_keys=True))
        why = compare(case, obs, out)
        if why:
            ctx.disagree(case, out[:300], repr(res)[:300], why)
        bad = predicate(case, obs)
        if bad:
            ctx.fail(case, {'violated': bad[:6], 'result': repr(res)[:200]})
        elif not why:
            ctx.traces += 1
        ctx.sample({'case': {k: v for k, v in case.items() if k != 'files'}, 'sizes': [f[1] for f in case['files']],
                    'draws': len(obs['draws']), 'result': repr(res)[:80]}, cap=6)
    # file input = one-file directory, on the implementation itself (same draws replayed)
    if twin:
        tl, tc = [], []
        for case, obs in zip(cases, obss):
            if case.get('input') == 'file' and not isinstance(obs['result'], tuple) and TIMEOUTS[0] < MAX_TIMEOUTS:
                o2 = run_impl(case, rng_obj=Replayer(obs['draws']), as_one_file_dir=True)
                ctx.evaluations += 1
                ctx.count('file_vs_one_file_dir')
                r1, r2 = obs['result'], o2['result']
                ok = (not isinstance(r2, tuple) and o2['after'] == obs['after'] and list(r2[2:]) == list(r1)
                      and r2[1] == 1 and r2[0] == (1 if r1[0] > 0 else 0) and len(o2['draws']) == len(obs['draws']))
                if not ok:
                    ctx.fail(dict(case, twin=True), {'violated': ['file input differs from one-file directory'],
                                                     'file': repr(r1), 'dir': repr(r2)[:200]})
                else:
                    ctx.traces += 1
                tl.append(model_line(case, o2, as_dir=True)); tc.append((case, o2))
        for (case, o2), out in zip(tc, ctx.model.run(tl)):
            why = compare(case, o2, out, as_dir=True)
            if why:
                ctx.disagree(dict(case, twin=True), out[:300], repr(o2['result'])[:300], why)


def run_malformed(ctx, n):
    """streams that are not what the implementation consumed: the model must say so explicitly."""
    rng = ctx.rng
    cases, lines, want = [], [], []
    while len(cases) < n and TIMEOUTS[0] < MAX_TIMEOUTS:
        case = gen_case(rng, 'file', [1, 2, 3, 5, 8, 13, 30], [1, 2, 3, 7, 16, 65536])
        if case['burst'] and case['burst'][0] > case['burst'][1]:
            continue
        obs = run_impl(case)
        d = obs['draws']
        if not d or isinstance(obs['result'], tuple):
            continue
        kind = rng.choice(['truncate', 'kind', 'range'])
        i = rng.randrange(len(d))
        if kind == 'truncate':
            d2, w = d[:i], 'OutOfStream'
        elif kind == 'kind':
            d2 = d[:i] + [('i', 3) if d[i][0] == 'u' else ('u', 0.5)] + d[i + 1:]
            w = 'BadDraw'
        else:
            if d[i][0] == 'u':
                d2 = d[:i] + [('u', rng.choice([1.0, 1.5, -0.25]))] + d[i + 1:]
            else:
                d2 = d[:i] + [('i', rng.choice([-1000001, 1000001]))] + d[i + 1:]
            w = 'BadDraw'
        cases.append((case, kind)); lines.append(model_line(case, obs, draws=d2)); want.append(w)
    for (case, kind), out, w in zip(cases, ctx.model.run(lines), want):
        ctx.evaluations += 1
        ctx.count('malformed_stream=' + kind)
        if out != 'ERR ' + w:
            ctx.disagree(dict(case, malformed=kind), out[:200], 'expected ERR ' + w, 'malformed stream not rejected')
        else:
            ctx.traces += 1


CORPUS = [
    # single-file input through main (was: TypeError unexpected keyword 'silent')
    {'level': 'main', 'input': 'file', 'mode': 'e', 'p': 0.5, 'bp': None, 'burst': None, 'header': None,
     'files': [['a.txt', 100, 1, 0]], 'rseed': 1, 'adv': 0.0, 'silent': False},
    {'level': 'pff', 'input': 'file', 'mode': 'n', 'p': 3.0, 'bp': 0.5, 'burst': [1, 3], 'header': 40,
     'files': [['a.txt', 100, 2, 0]], 'rseed': 2, 'adv': 0.0, 'silent': False},
    # empty file with -p >= 1 (was: ZeroDivisionError)
    {'level': 'file', 'mode': 'e', 'p': 2.0, 'bp': None, 'burst': None, 'header': None, 'bs': 65536,
     'files': [['empty', 0, 3, 0]], 'rseed': 3, 'adv': 0.0},
    {'level': 'main', 'input': 'dir', 'mode': 'e', 'p': 1.0, 'bp': None, 'burst': None, 'header': None,
     'files': [['a', 5, 4, 0], ['sub/empty', 0, 5, 0], ['z', 3, 6, 0]], 'rseed': 4, 'adv': 0.0, 'silent': False},
    # burst cut at the block boundary, header boundary, block probability 0.0 (= disabled)
    {'level': 'file', 'mode': 'e', 'p': 0.3, 'bp': None, 'burst': [5, 9], 'header': None, 'bs': 3,
     'files': [['f', 20, 7, 0]], 'rseed': 5, 'adv': 0.0},
    {'level': 'file', 'mode': 'n', 'p': 0.5, 'bp': 0.5, 'burst': [2, 5], 'header': 7, 'bs': 4,
     'files': [['f', 20, 8, 1]], 'rseed': 6, 'adv': 0.4},
    {'level': 'file', 'mode': 'e', 'p': 0.5, 'bp': 0.0, 'burst': None, 'header': None, 'bs': 4,
     'files': [['f', 10, 9, 0]], 'rseed': 7, 'adv': 0.0},
    {'level': 'file', 'mode': 'e', 'p': 0.5, 'bp': None, 'burst': [3, 1], 'header': None, 'bs': 4,
     'files': [['f', 10, 9, 0]], 'rseed': 8, 'adv': 0.0},
]


def run(ctx):
    from props import cli_proc
    cli_proc.stream(ctx, ['C19'])
    _stack()
    rng = ctx.rng
    quick = ctx.tier == 'quick'
    run_batch(ctx, [dict(c) for c in CORPUS], twin=True)
    small = list(range(0, 41))
    mid = [0, 1, 2, 3, 100, 100, 257, 1000]
    # tamper_file directly, small block sizes: many blocks per file
    cases = [gen_case(rng, 'file', small, [1, 2, 3, 4, 5, 7, 16, 65535, 65536]) for _ in range(2000 if quick else 10000)]
    run_batch(ctx, cases)
    cases = [gen_case(rng, 'file', mid, [7, 64, 100, 101, 65536]) for _ in range(250 if quick else 1200)]
    run_batch(ctx, cases)
    # tamper_dir on real trees
    cases = [gen_case(rng, 'dir', small + [100], [1, 2, 3, 5, 16, 65536]) for _ in range(400 if quick else 2500)]
    run_batch(ctx, cases)
    # the command line, file and directory input
    cases = [gen_case(rng, rng.choice(['main', 'pff']), [0, 1, 2, 3, 5, 17, 100, 100, 300], [65536])
             for _ in range(180 if quick else 1000)]
    run_batch(ctx, cases, twin=True)
    # sizes around the 65536-byte block (few: each costs ~1 s in the extracted model)
    bigs = []
    for k in range(8 if quick else 32):
        lvl = ['main', 'file', 'pff', 'dir'][k % 4]
        sz = BIG[k % 4] if k < 8 else rng.choice(BIG)
        c = gen_case(rng, lvl, [sz], [65536, 65535] if lvl in ('file', 'dir') else [65536])
        c['files'] = c['files'][:1] if c['files'] else [['a.txt', sz, 11, 0]]
        if c.get('input') == 'dir' or lvl == 'dir':
            c['files'].append(['zz/small', rng.choice([0, 1, 2]), 12, 1])
        if c['p'] < 1 and c['p'] > 0.3 and k % 2:
            c['p'] = rng.choice([0.001, 0.03, 5.5, 70000.0])
        if c['header'] is not None and c['header'] > 70000:
            c['header'] = rng.choice([65535, 65536, 65537])
        bigs.append(c)
    for i in range(0, len(bigs), 6):
        run_batch(ctx, bigs[i:i + 6], twin=True)
    run_malformed(ctx, 100 if quick else 600)


def replay_case(ctx, case):
    if isinstance(case, dict) and case.get('kind') == 'cli-process':
        from props import cli_proc
        return cli_proc.replay(case)
    _stack()
    twin = case.get('twin')
    case = {k: v for k, v in case.items() if k not in ('twin', 'malformed')}
    obs = run_impl(case)
    out = ctx.model.run([model_line(case, obs)])[0]
    why = compare(case, obs, out)
    bad = predicate(case, obs)
    r = {'holds': not bad, 'violated': bad, 'implementation': repr(obs['result'])[:300], 'model': out[:300],
         'model_agrees': why is None, 'correspondence': why, 'draws_recorded': len(obs['draws'])}
    if twin and case.get('input') == 'file' and not isinstance(obs['result'], tuple):
        o2 = run_impl(case, rng_obj=Replayer(obs['draws']), as_one_file_dir=True)
        r1, r2 = obs['result'], o2['result']
        ok = (not isinstance(r2, tuple) and o2['after'] == obs['after'] and list(r2[2:]) == list(r1) and r2[1] == 1
              and r2[0] == (1 if r1[0] > 0 else 0))
        r['one_file_dir'] = repr(r2)[:200]
        if not ok:
            r['holds'] = False
            r['violated'] = bad + ['file input differs from one-file directory']
    return r


def shrink(ctx, case):
    if isinstance(case, dict) and case.get('kind') == 'cli-process':
        return case
    def fails(c):
        try:
            return not replay_case(ctx, c)['holds']
        except Exception:
            return False
    cur = json.loads(json.dumps(case))
    if not fails(cur):
        return case
    for _ in range(3):
        changed = False
        cands = []
        for k in ('bp', 'burst', 'header'):
            if cur.get(k) is not None:
                cands.append(dict(cur, **{k: None}))
        if cur.get('adv'):
            cands.append(dict(cur, adv=0.0))
        if cur.get('silent'):
            cands.append(dict(cur, silent=False))
        if len(cur['files']) > 1:
            for i in range(len(cur['files'])):
                cands.append(dict(cur, files=cur['files'][:i] + cur['files'][i + 1:]))
        for i, f in enumerate(cur['files']):
            for s in (0, 1, 2, 5, f[1] // 2):
                if s < f[1]:
                    cands.append(dict(cur, files=cur['files'][:i] + [[f[0], s, f[2], f[3]]] + cur['files'][i + 1:]))
        if cur.get('bs') and cur['bs'] > 4:
            cands.append(dict(cur, bs=4))
        for c in cands:
            if (c.get('input') == 'file' or c['level'] == 'file') and len(c['files']) != 1:
                continue
            if fails(c):
                cur, changed = c, True
                break
        if not changed:
            break
    return cur


def classify(case, detail):
    if isinstance(case, dict) and case.get('kind') == 'cli-process':
        return None
    return None
