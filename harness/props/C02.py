# C02 — the Reed-Solomon facade corrects every pattern within its capacity: property predicate on
# ECCMan.encode/decode for codecs 1-4 (decode within capacity returns exactly the original message and
# parity), correspondence of encode with the extracted model, and validation of every decoder answer with
# the model's acceptance relation decodes_to (the relation the uniqueness theorem is about).
import itertools
from common import hx, unhx
from props import rs_common as R

RULE = ('codecs 1-4. Exhaustive part: every (n,k) with n <= NMAX (quick: 7 for the slow codecs 1/2, 8 for 3/4; thorough: 8/9), '
        'every message length 1..k over {zeros, 0xFF, ramp, random}, EVERY error-position set of size 1..floor((n-k)/2) over '
        'message+parity (random magnitudes), and with erasure handling (symbol 0 and 255) every split of the budget into '
        'errors and erasures at the bound 2e+f = n-k where f counts every symbol equal to the erasure symbol. Random part: '
        '(n,k) up to 255 incl. k=1, k=n-1, e = floor((n-k)/2) exactly, 2e+f = n-k exactly, short messages (index shift), '
        'per-call k != constructor k, messages full of zeros.  Per case: ECCMan.encode = fac_encode (model), the original is '
        'within_capacity (model), ECCMan.decode returns exactly (original message, parity) [property predicate], and the answer '
        'satisfies decodes_to (model).  Beyond capacity (separate stream, no claim): an answer that the facade check accepts must '
        'still satisfy decodes_to (tests the dec_bounded oracle hypothesis; counted, not a violation of C02).  non-trivial = at '
        'least one symbol damaged; distinct by (codec, n, k, received word, erasure symbol).')
TRUSTED_EXTRA = ['modelled and verified: encoder, check, padding, erasure index shift (see C11); NOT modelled: the Berlekamp-Massey / '
                 'Chien / Forney decoders of reedsolo and unireedsolomon (third-party, site-packages) - oracle; what is proved is that any '
                 'answer passing decodes_to is the original (C02_decode_unique); completeness of the decoders is TESTED here, not proved']
ASSUMPTIONS = ['oracle hypothesis dec_complete: within capacity the third-party decoder returns an answer satisfying decodes_to (tested on every case)',
               'n <= 255, 1 <= k < n, 1 <= message length <= k']


def er_arg(er):
    return 256 if er is None else er


def decode(c, m, e, k, er):
    with R.quiet():
        if er is None:
            return c.decode(m, e, k=k or None)
        return c.decode(m, e, k=k or None, enable_erasures=True, erasures_char=er)


def run_cases(ctx, cases, claim=True):
    """cases: (algo, n, selfk, k, m0, m, e, er, note)"""
    lines = []
    for algo, n, sk, k, m0, m, e, er, note in cases:
        lines.append('enc %d %d %d %d %s' % (algo, n, sk, k, hx(m0)))
        lines.append('wcap %d %d %d %d %d %s %s %s' % (algo, n, sk, k, er_arg(er), hx(m), hx(e), hx(m0)))
    outs = ctx.model.run(lines)
    post = []
    for idx, (algo, n, sk, k, m0, m, e, er, note) in enumerate(cases):
        kk = k or sk
        case = {'algo': algo, 'n': n, 'selfk': sk, 'k': k, 'm0': m0.hex(), 'm': m.hex(), 'e': e.hex(), 'er': er, 'note': note}
        model_p, wcap = unhx(outs[2 * idx]), outs[2 * idx + 1] == '1'
        ctx.evaluations += 1
        ctx.count('algo%d' % algo); ctx.count(note.split(':')[0])
        try:
            c = R.codec(algo, n, sk)
            p0 = bytes(c.encode(m0, k=k or None))
        except Exception as ex:
            ctx.fail(case, {'encode_exception': repr(ex)}); continue
        if p0 != model_p:
            ctx.disagree(case, model_p.hex(), p0.hex(), what='encode: model != implementation')
        if len(p0) != n - kk:
            ctx.fail(case, {'parity_length': len(p0), 'expected': n - kk})
        if claim and not wcap:
            ctx.disagree(case, 'within_capacity = false', 'generator believes the case is within capacity', what='capacity accounting of the model differs from the generator')
            continue
        try:
            rm, re_ = decode(c, m, e, k, er)
            ans = (bytes(rm), bytes(re_))
        except Exception as ex:
            ans = ('EXC', repr(ex))
        if m != m0 or e != p0:
            ctx.nontriv((algo, n, kk, m, e, er))
        if claim:
            if ans != (m0, p0):
                ctx.fail(case, {'decode_returned': [ans[0].hex(), ans[1].hex()] if isinstance(ans[0], bytes) else list(ans),
                                'property_expects': [m0.hex(), p0.hex()]})
            else:
                ctx.traces += 1
        if isinstance(ans[0], bytes):
            post.append((case, claim, 'decto %d %d %d %d %d %s %s %s %s' % (algo, n, sk, k, er_arg(er), hx(m), hx(e), hx(ans[0]), hx(ans[1])), ans, c, k))
        else:
            ctx.count('decoder_exception' + ('' if claim else '_beyond'))
    outs2 = ctx.model.run([p[2] for p in post])
    for (case, claim, _, ans, c, k), o in zip(post, outs2):
        ok = (o == '1')
        if claim and not ok:
            ctx.disagree(case, 'decodes_to = false', [ans[0].hex(), ans[1].hex()], what='decoder answer rejected by the model acceptance relation')
        if not claim:
            with R.quiet():
                try:
                    acc = bool(c.check(ans[0], ans[1], k=k or None))
                except Exception:
                    acc = False
            ctx.count('beyond:accepted_by_check' if acc else 'beyond:rejected_by_check')
            if acc and not ok:
                ctx.count('beyond:accepted_but_outside_radius')
    if cases:
        algo, n, sk, k, m0, m, e, er, note = cases[len(cases) // 3]
        ctx.sample({'algo': algo, 'n': n, 'k': k or sk, 'm0': m0.hex(), 'received': (m + e).hex(), 'er': er, 'note': note}, cap=6)


def damage(rng, w, nerr, nera, er):
    """nerr wrong symbols (never the erasure symbol), nera additional positions set to the erasure symbol;
    returns the received word and (errors, erasures) as the property counts them."""
    pos = rng.sample(range(len(w)), min(len(w), nerr + nera))
    r = bytearray(w)
    for p in pos[:nerr]:
        v = rng.randrange(256)
        while v == w[p] or (er is not None and v == er):
            v = rng.randrange(256)
        r[p] = v
    for p in pos[nerr:]:
        r[p] = er
    f = sum(1 for x in r if er is not None and x == er)
    e = sum(1 for x, y in zip(r, w) if x != y and (er is None or x != er))
    return bytes(r), e, f


def gen_exhaustive(ctx, algos, nmax):
    rng = ctx.rng
    cases = []
    for algo in algos:
        for n, k in R.geometries_small(nmax):
            c = R.codec(algo, n, k)
            t = (n - k) // 2
            for L in range(1, k + 1):
                for m0 in R.messages(rng, L):
                    p0 = bytes(c.encode(m0))
                    w = m0 + p0
                    for wt in range(1, t + 1):
                        for s in itertools.combinations(range(len(w)), wt):
                            w2 = R.corrupt(rng, w, s)
                            cases.append((algo, n, k, 0, m0, w2[:L], w2[L:], None, 'exh-errors'))
                    for er in (0, 255):
                        f0 = sum(1 for x in w if x == er)
                        if f0 > n - k:
                            ctx.count('skipped:natural_erasures_exceed_capacity'); continue
                        for nerr in range(0, t + 1):
                            nera = n - k - 2 * nerr - f0          # exactly at the bound, counting natural erasure symbols
                            if nera < 0:
                                continue
                            free = [i for i in range(len(w)) if w[i] != er]
                            if nerr + nera > len(free):
                                nera = len(free) - nerr
                                if nera < 0:
                                    continue
                            pos = rng.sample(free, nerr + nera)
                            r = bytearray(w)
                            for p in pos[:nerr]:
                                v = rng.randrange(256)
                                while v == w[p] or v == er:
                                    v = rng.randrange(256)
                                r[p] = v
                            for p in pos[nerr:]:
                                r[p] = er
                            cases.append((algo, n, k, 0, m0, bytes(r[:L]), bytes(r[L:]), er, 'exh-erasures'))
    return cases


def gen_random(ctx, algos, count):
    rng = ctx.rng
    cases, beyond = [], []
    for algo in algos:
        for _ in range(count):
            n = rng.choice([10, 12, 20, 33, 64, 100, 255, rng.randrange(9, 40)])
            if algo in (1, 2) and n > 64 and rng.random() < 0.8:
                n = rng.randrange(9, 40)
            k = rng.choice([1, n - 1, n // 2, n - 2, rng.randrange(1, n)])
            sk, kcall = k, 0
            if n > 40:                      # building a large codec is slow (all generator polynomials): one object per (codec, n), geometry chosen per call
                sk = n // 2
                kcall = 0 if k == sk else k
            elif rng.random() < 0.25:
                sk, kcall = rng.randrange(1, n), k
            L = rng.choice([k, k, max(1, k - 1), rng.randrange(1, k + 1), 1])
            m0 = rng.choice(R.messages(rng, L) + [bytes(L)])
            c = R.codec(algo, n, sk)
            p0 = bytes(c.encode(m0, k=kcall or None))
            w = m0 + p0
            t = (n - k) // 2
            er = rng.choice([None, None, 0, 255, 0])
            if er is None:
                nerr = rng.choice([t, t, max(0, t - 1), rng.randrange(0, t + 1)])
                nerr = min(nerr, len(w))
                r, e, f = damage(rng, w, nerr, 0, None)
                cases.append((algo, n, sk, kcall, m0, r[:L], r[L:], None, 'rnd-errors'))
            else:
                f0 = sum(1 for x in w if x == er)
                if f0 > n - k:
                    ctx.count('skipped:natural_erasures_exceed_capacity'); continue
                nerr = rng.randrange(0, (n - k - f0) // 2 + 1)
                nera = rng.choice([n - k - f0 - 2 * nerr, rng.randrange(0, n - k - f0 - 2 * nerr + 1)])
                free = [i for i in range(len(w)) if w[i] != er]
                if nerr + nera > len(free):
                    continue
                pos = rng.sample(free, nerr + nera)
                r = bytearray(w)
                for p in pos[:nerr]:
                    v = rng.randrange(256)
                    while v == w[p] or v == er:
                        v = rng.randrange(256)
                    r[p] = v
                for p in pos[nerr:]:
                    r[p] = er
                r = bytes(r)
                cases.append((algo, n, sk, kcall, m0, r[:L], r[L:], er, 'rnd-erasures'))
            # beyond capacity (no claim)
            if rng.random() < 0.3 and len(w) > t + 1:
                r, e, f = damage(rng, w, min(len(w), t + rng.choice([1, 2, 5])), 0, None)
                beyond.append((algo, n, sk, kcall, m0, r[:L], r[L:], None, 'beyond'))
    return cases, beyond


def gen_large_mixed(ctx, count):
    """codecs 1/2, large code, errors AND erasures exactly at the bound (the region of the open finding)"""
    rng = ctx.rng
    cases = []
    for algo in (1, 2):
        n, sk = 172, 20
        c = R.codec(algo, n, sk)
        for _ in range(count):
            L = rng.choice([8, 20])
            m0 = bytes(rng.randrange(256) for _ in range(L))
            p0 = bytes(c.encode(m0)); w = m0 + p0
            er = 255
            f0 = sum(1 for x in w if x == er)
            budget = n - sk - f0
            if budget < 2:
                continue
            nerr = rng.randrange(1, budget // 2 + 1); nera = budget - 2 * nerr
            free = [i for i in range(len(w)) if w[i] != er]
            pos = rng.sample(free, nerr + nera)
            r = bytearray(w)
            for p in pos[:nerr]:
                v = rng.randrange(256)
                while v == w[p] or v == er:
                    v = rng.randrange(256)
                r[p] = v
            for p in pos[nerr:]:
                r[p] = er
            r = bytes(r)
            cases.append((algo, n, sk, 0, m0, r[:L], r[L:], er, 'large-mixed'))
    return cases


def run(ctx):
    corpus = [(1, 20, 11, 0, bytes(11), b'\x00\x00\x00\x07' + bytes(7), bytes(9), None, 'corpus:zero-codeword-codec1'),
              (2, 20, 11, 0, bytes(11), b'\x00\x00\x00\x07' + bytes(7), bytes(9), None, 'corpus:zero-codeword-codec2'),
              (3, 20, 11, 0, b'hello world', b'h\x00l\xffo world', bytes.fromhex('ceea91998dc4aa603f'), None, 'corpus:4-errors'),
              (3, 20, 11, 0, b'hello world', b'\x00\x00\x00lo wArld', bytes.fromhex('ceea00008dc4aa603f'), 0, 'corpus:2-errors-5-erasures')]
    run_cases(ctx, corpus)
    q = ctx.tier == 'quick'
    for algos, nmax, cnt in (((1, 2), 6 if q else 8, 150 if q else 1500), ((3,), 7 if q else 9, 400 if q else 6000), ((4,), 7 if q else 9, 400 if q else 6000)):
        cases = gen_exhaustive(ctx, algos, nmax)
        ctx.extra['exhaustive_cases_algos_%s' % ''.join(map(str, algos))] = len(cases)
        for i in range(0, len(cases), 4000):
            run_cases(ctx, cases[i:i + 4000])
        rc, beyond = gen_random(ctx, algos, cnt)
        run_cases(ctx, rc)
        run_cases(ctx, beyond, claim=False)
    run_cases(ctx, gen_large_mixed(ctx, 12 if q else 150))


def replay_case(ctx, case):
    algo, n, sk, k, er = case['algo'], case['n'], case['selfk'], case['k'], case['er']
    m0, m, e = bytes.fromhex(case['m0']), bytes.fromhex(case['m']), bytes.fromhex(case['e'])
    c = R.codec(algo, n, sk)
    p0 = bytes(c.encode(m0, k=k or None))
    try:
        rm, re_ = decode(c, m, e, k, er)
        ans = [bytes(rm).hex(), bytes(re_).hex()]
    except Exception as ex:
        ans = ['EXC', repr(ex)]
    outs = ctx.model.run(['enc %d %d %d %d %s' % (algo, n, sk, k, hx(m0)),
                          'wcap %d %d %d %d %d %s %s %s' % (algo, n, sk, k, er_arg(er), hx(m), hx(e), hx(m0))])
    holds = ans == [m0.hex(), p0.hex()] and len(p0) == n - (k or sk)
    if outs[1] != '1':
        holds = True   # not within capacity: the property makes no claim
    return {'holds': holds, 'implementation': ans, 'decode_returned': ans, 'property_expects': [m0.hex(), p0.hex()], 'model_parity': outs[0],
            'model_within_capacity': outs[1] == '1'}


def classify(case, detail):
    """open finding C02-codec12-mixed-errata-incomplete (third-party decoder): codec 1/2, erasures on, the received word
    carries both erasure symbols and wrong non-erasure symbols, and the decoder refused with the Chien-search error."""
    try:
        if case.get('algo') not in (1, 2) or case.get('er') is None or not isinstance(detail, dict):
            return None
        ret = detail.get('decode_returned') or detail.get('implementation')
        if not ret or ret[0] != 'EXC' or 'Chien Search' not in str(ret[1]):
            return None
        er = case['er']
        m0, m, e = bytes.fromhex(case['m0']), bytes.fromhex(case['m']), bytes.fromhex(case['e'])
        r = m + e
        nera = sum(1 for x in r if x == er)
        # wrong non-erasure symbols in the message part are visible without the parity; in the parity part any symbol
        # that is neither the erasure symbol nor accounted for is only known through the original parity: recompute it
        from props import rs_common as R2
        p0 = bytes(R2.codec(case['algo'], case['n'], case['selfk']).encode(m0, k=case['k'] or None))
        nerr = sum(1 for x, y in zip(r, m0 + p0) if x != y and x != er)
        if nera >= 1 and nerr >= 1:
            return 'C02-codec12-mixed-errata-incomplete'
    except Exception:
        return None
    return None


def shrink(ctx, case):
    return case
