# C13 — every prefix of an ecc file is a usable ecc file.  Real tools end to end: the ecc file of a small tree is cut
# at EVERY byte offset (larger files: every field boundary +-2) and correction is run on each prefix; the observed
# entry loop is replayed in the extracted Stream model and the property predicate is evaluated on the implementation.
import os, shutil, tempfile, json, random
from props import streamlib as S
from props.C08 import setup_tree, run_one, entry_classes, rb

RULE = ('small trees (2..3 files, sizes 0..90 incl. exactly the header size, one input file damaged), header tool with --size 20..40 '
        'and --max_block_size 16..40, whole tool with mb 16: EVERY cut offset 0..len(ecc) (preamble, inside each marker, every '
        'field, between hash and parity, entry boundaries); larger trees (mb 40..255, sizes to 3000): all marker/delimiter/track '
        'block boundaries +-2. Each prefix: one observed correction run, compared with the complete-file run on the same tree '
        '(per-entry class and output bytes of every file whose entry ends at or before the cut; exception; input tree digest '
        'before/after) and replayed in the extracted model. non-trivial = prefix with at least one complete entry and an '
        'incomplete last entry; distinct by (tool, params, tree, offset).')
TRUSTED_EXTRA = ['modelled: as C08 (entry loop of both tools); parameters recorded from each run',
                 'harness speed-up: reedsolo.rs_generator_poly_all memoised']
ASSUMPTIONS = ['get_next_entry behaves as its spec for the default buffer (C14)',
               'what is written to the output folder for the file of the INCOMPLETE entry is recorded (histogram) and belongs to C04; '
               'C13 only requires that the input tree is untouched, the run terminates normally and complete entries are unaffected']

SMALL = [('header', {'mb': 16, 'size': 20}), ('whole', {'mb': 16, 'size': 20}), ('header', {'mb': 40, 'size': 40, 'ri': 1.0}),
         ('whole', {'mb': 16, 'size': 30, 'r1': 0.5, 'r2': 0.3, 'r3': 0.2, 'hash': 'shortmd5'}), ('header', {'mb': 24, 'size': 30, 'hash': 'minimd5'})]
LARGE = [('header', {'mb': 255, 'size': 1024}), ('whole', {'mb': 64, 'size': 256}), ('whole', {'mb': 255, 'size': 1024}), ('header', {'mb': 40, 'size': 512})]


def boundaries(db, ents, P, tool):
    pts = {0, len(db)}
    for e in ents:
        for p in [e['mark'], e['s'], e['e'], e['track']] + e['d'] + [x + 5 for x in e['d']]:
            pts.update(range(p - 2, p + 3))
        step = max(1, (e['e'] - e['track']) // 12)
        pts.update(range(e['track'], e['e'], step))
    # an interrupted write leaves whole sectors / pages: every multiple of 512 (and so of 4096, the page and mmap granularity), +-1
    for k in range(1, len(db) // 512 + 1):
        pts.update((512 * k - 1, 512 * k, 512 * k + 1))
    return sorted(p for p in pts if 0 <= p <= len(db))


def check_cuts(ctx, tool, P, files, in_damage, cuts=None, model_every=1, dseed=0, ref_len=None):
    """returns list of (cut, result dict)"""
    rng = random.Random(dseed)
    d = setup_tree(tool, P, files, in_damage, rng)
    out = []
    try:
        db = open(d + '/ecc.db', 'rb').read()
        ents = S.parse_pristine(db)
        paths = [e['path'].decode('latin-1') for e in ents]
        base, bobs = run_one(ctx, tool, P, d, db)
        contents = {k: db[e['s']:e['e']] for k, e in enumerate(ents)}
        cb = entry_classes(bobs, db, contents)
        digest0 = S.tree_digest(d + '/in')
        if cuts is None:
            cuts = range(len(db) + 1)
        elif cuts == 'boundaries':
            cuts = boundaries(db, ents, P, tool)
        elif ref_len is not None:      # a replayed absolute offset: the preamble (which quotes the temp paths) may have another length
            cuts = [min(max(c + len(db) - ref_len, 0), len(db)) for c in cuts]
        reqs, pend = [], []
        for n, c in enumerate(cuts):
            db2 = db[:c]
            res, obs = run_one(ctx, tool, P, d, db2)
            fail = None
            complete = [k for k, e in enumerate(ents) if e['e'] <= c]
            partial = [k for k, e in enumerate(ents) if e['mark'] < c < e['e']]
            if not isinstance(res['rc'], int):
                fail = {'why': 'correction of the cut ecc file did not terminate normally', 'exception': res['rc']}
            else:
                cd = entry_classes(obs, db2, {k: contents[k] for k in complete})
                for k in complete:
                    if cd.get(k) != cb.get(k):
                        fail = {'why': 'complete entry %d (%s) treated differently' % (k, paths[k]), 'complete_file_run': cb.get(k), 'cut_run': cd.get(k)}
                    if base['out_bytes'].get(paths[k]) != res['out_bytes'].get(paths[k]):
                        fail = {'why': 'output of %s (complete entry) differs from the complete-file run' % paths[k]}
                allowed = set(paths[k] for k in complete) | set(paths[k] for k in partial)
                extra_out = [r for r in res['out_bytes'] if r not in allowed]
                if extra_out and fail is None:
                    fail = {'why': 'output written for a file whose entry is not in the prefix', 'files': extra_out}
            if S.tree_digest(d + '/in') != digest0:
                fail = {'why': 'the input tree was modified'}
            obsn = 'none'
            for k in partial:
                o = res['out_bytes'].get(paths[k])
                if o is not None and len(o) != len(files[paths[k]]) and fail is None:
                    # "no file is damaged on account of the incomplete last entry": whatever is written for the file of the
                    # incomplete entry is a full-length copy (repaired where the prefix of its track allows), never a truncated one
                    fail = {'why': 'the output written for %s (incomplete last entry) has %d bytes, the input has %d' % (paths[k], len(o), len(files[paths[k]]))}
                if o is not None:
                    obsn = 'incomplete-entry output shorter than input' if len(o) < len(files[paths[k]]) else \
                           ('incomplete-entry output = input' if o == open(os.path.join(d, 'in', *paths[k].split('/')), 'rb').read() else 'incomplete-entry output written')
            r = {'holds': fail is None, 'failure': fail, 'rc': res['rc'], 'counters': res['counters'], 'complete': len(complete),
                 'partial': len(partial), 'incomplete_obs': obsn, 'model_diffs': None, 'spans': obs['spans']}
            if n % model_every == 0:
                reqs.append(S.model_request(tool, res, obs, d + '/in'))
                pend.append((r, res, obs))
            out.append((c, r))
        for (r, res, obs), line in zip(pend, ctx.model.run(reqs)):
            r['model_diffs'] = S.compare_model(tool, res, obs, S.parse_model(line))
        return out, len(db)
    finally:
        shutil.rmtree(d, ignore_errors=True)


def mk_tree(rng, small, P):
    hs = P['size']
    if small:
        sizes = [0, 1, hs - 1, hs, hs + 1, 2 * hs, 3 * hs + 5, 90]
        n = rng.choice([2, 3])
    else:
        sizes = [0, 1, hs, hs + 1, 700, 3000]
        n = rng.choice([2, 3, 4])
    names = ['a.txt', 'sub/b.bin', 'c', 'dd/e e.dat']
    files = {}
    for nm in names[:n]:
        files[nm] = rb(rng, rng.choice(sizes))
    if all(len(v) != hs for v in files.values()) and rng.random() < 0.6:
        files[names[0]] = rb(rng, hs)                  # a file of exactly the header size (track consumed to the byte)
    in_damage = {}
    cand = [k for k, v in files.items() if len(v) > 3]
    if cand:
        k = rng.choice(cand)
        in_damage[k] = [[rng.randrange(len(files[k])), rng.randrange(256)] for _ in range(rng.choice([1, 2]))]
    return files, in_damage


def handle(ctx, tool, P, files, in_damage, dseed, cuts, results, total):
    for c, r in results:
        ctx.evaluations += 1
        ctx.count('tool=' + tool)
        ctx.count('incomplete entry: ' + r['incomplete_obs'])
        ctx.count('complete_entries=%d' % r['complete'])
        case = {'tool': tool, 'P': P, 'files': {k: v.hex() for k, v in files.items()}, 'in_damage': in_damage, 'dseed': dseed, 'cut': c, 'ecc_len': total}
        if r['complete'] >= 1 and r['partial'] == 1:
            ctx.nontriv((tool, json.dumps(P, sort_keys=True), dseed, c))
        if r['model_diffs']:
            ctx.disagree(case, 'model', r['model_diffs'])
        elif r['model_diffs'] is not None:
            ctx.traces += 1
        if not r['holds']:
            ctx.fail(case, r['failure'])
    ctx.sample({'tool': tool, 'P': P, 'ecc_len': total, 'cuts': len(results), 'sizes': [len(v) for v in files.values()]}, cap=8)


CORPUS = [
    # cut inside the marker that follows the entry of a file of exactly the header size (ZeroDivisionError before the fix)
    {'tool': 'whole', 'P': {'mb': 16, 'size': 20}, 'files': {'a.txt': '41' * 20, 'b.txt': '42' * 33}, 'in_damage': {}, 'dseed': 0, 'cut': {'entry': 0, 'anchor': 'e', 'off': 3}},
    {'tool': 'header', 'P': {'mb': 16, 'size': 20}, 'files': {'a.txt': '41' * 20, 'b.txt': '42' * 33}, 'in_damage': {}, 'dseed': 0, 'cut': 0},
    # cut right after the first delimiter of the second entry: empty size field (uncaught ValueError before fc121bd)
    {'tool': 'header', 'P': {'mb': 16, 'size': 20}, 'files': {'a.txt': '41' * 20, 'b.txt': '42' * 33}, 'in_damage': {}, 'dseed': 0, 'cut': {'entry': 1, 'anchor': 's', 'off': 10}},
]


# a prefix of exactly one / two pages (4096 = page size and mmap allocation granularity): what an interrupted write leaves behind
_pg = {'f%d.bin' % i: bytes((i * 37 + j * 11) % 251 for j in range(2500 + 100 * i)).hex() for i in range(8)}
CORPUS += [{'tool': t, 'P': P, 'files': _pg, 'in_damage': {'f0.bin': [[3, 1]]}, 'dseed': 0, 'cut': c}
           for t, P in (('header', {'mb': 255, 'size': 1024}), ('whole', {'mb': 64, 'size': 256})) for c in (4096, 8192)]


def resolve_cut(case):
    return case['cut']


def run_case(ctx, case, model_every=1):
    files = {k: bytes.fromhex(v) for k, v in case['files'].items()}
    cut = case['cut']
    if isinstance(cut, dict):        # position relative to the entry structure (independent of the preamble length)
        d = setup_tree(case['tool'], case['P'], files, {}, random.Random(0))
        try:
            ents = S.parse_pristine(open(d + '/ecc.db', 'rb').read())
            cut = ents[cut['entry']][cut['anchor']] + cut['off']
        finally:
            shutil.rmtree(d, ignore_errors=True)
    res, total = check_cuts(ctx, case['tool'], case['P'], files, {k: [tuple(x) for x in v] for k, v in case.get('in_damage', {}).items()},
                            cuts=[cut], dseed=case.get('dseed', 0), ref_len=case.get('ecc_len') if not isinstance(case['cut'], dict) else None)
    return res, total


def run(ctx):
    S.enable_fast_tables()
    rng = ctx.rng
    for c in CORPUS:
        res, total = run_case(ctx, c)
        files = {k: bytes.fromhex(v) for k, v in c['files'].items()}
        handle(ctx, c['tool'], c['P'], files, c['in_damage'], c['dseed'], None, [(res[0][0], res[0][1])], total)
    quick = ctx.tier == 'quick'
    plan = SMALL[:2] + ([SMALL[2 + rng.randrange(3)]] if quick else SMALL[2:] + SMALL * 4)
    plan = [(t_, dict(P_, v=True) if i_ % 3 == 1 else P_) for i_, (t_, P_) in enumerate(plan)]      # -v on a third of the trees
    for (tool, P) in plan:                       # every offset
        files, in_damage = mk_tree(rng, True, P)
        dseed = rng.randrange(1 << 30)
        try:
            res, total = check_cuts(ctx, tool, P, files, in_damage, None, model_every=2 if quick else 1, dseed=dseed)
        except Exception as e:
            ctx.disagree({'tool': tool, 'P': P}, 'harness', repr(e))
            continue
        handle(ctx, tool, P, files, in_damage, dseed, None, res, total)
    for (tool, P) in (LARGE[:2] if quick else LARGE * 6):    # field boundaries +-2
        files, in_damage = mk_tree(rng, False, P)
        dseed = rng.randrange(1 << 30)
        try:
            res, total = check_cuts(ctx, tool, P, files, in_damage, 'boundaries', model_every=3 if quick else 1, dseed=dseed)
        except Exception as e:
            ctx.disagree({'tool': tool, 'P': P}, 'harness', repr(e))
            continue
        handle(ctx, tool, P, files, in_damage, dseed, None, res, total)


def replay_case(ctx, case):
    S.enable_fast_tables()
    res, total = run_case(ctx, case)
    c, r = res[0]
    return {'holds': r['holds'], 'failure': r['failure'], 'cut': c, 'ecc_length': total,
            'implementation': {'rc': r['rc'], 'counters': r['counters'], 'entries_seen': r['spans'], 'incomplete_entry_output': r['incomplete_obs']},
            'model_vs_implementation': r['model_diffs'] or 'agree'}


def shrink(ctx, case):
    return case


def classify(case, detail):
    return None
