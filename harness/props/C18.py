# C18 — replica repair with a hash database: correspondence of DbRepair.v with the database branch of
# replication_repair.synchronize_files (run through replication_repair.main on real trees) and the property
# predicate, written from the statement, evaluated on what the implementation did.
import common
import csv, hashlib, io, os, shutil, sys, tempfile
from common import hx, hxl, unhx

RULE = ('real temp trees: 1..5 files at depth 0..3 (mixed depths, a nested file sharing its base name with a top-level one, '
        'names with blank / | / " / non-ASCII), 3..5 replicas, per file a corruption pattern (none, first replica only, '
        'minority, majority with identical damage, all replicas at distinct offsets, all replicas at one offset, all but the '
        'last, truncated, whole content replaced, file missing in some replicas [uniform-depth trees only]), database written '
        'by the real rfigc.main -g over a pristine tree covering all / some / none of the files, stale rows, and a malformed '
        'stream (duplicated rows, one hash of a row altered, rows for paths not in the replicas), with and without --report. '
        'Each case runs replication_repair.main in its own cwd; per processed path the extracted DbRepair.merge_step is run on '
        'the same replica contents and database rows and compared on output bytes, report columns and error contribution; the '
        'run status is compared with DbRepair.run_status. The predicate (three clauses, from the statement) is evaluated on '
        'the implementation: output bytes against the hashes stored in the database file, report rows, exit status. '
        'rfigc.main single-file check is compared with DbRepair.rfigc_single on (replica file, database) pairs of a third of the cases (informational: counted, mismatches recorded in the evidence). '
        'non-trivial = path recorded in the database and at least one replica damaged; distinct by (path, contents, rows).')
TRUSTED_EXTRA = ['modelled: the per-path step of replication_repair.synchronize_files (single holder copy, pre-vote search with '
                 'check_file_with_database, copy or vote, post-merge check, report columns, error contribution), '
                 'check_file_with_database, the accumulation of the exit status; rfigc.main single-file check (row resolution '
                 'relative to the parent of the file, hash and size comparison). Not modelled here: the alignment of the '
                 'replica walks (C07), the vote itself is Vote.v (C06), csv quoting, the text of the errors column',
                 'md5 / sha1 are Section variables in Coq; the extracted model gets them as a finite table computed with hashlib '
                 'and cross-checked against what rfigc.generate_hashes returned during the run (a missing entry is reported)']
ASSUMPTIONS = ['database rows hold relative posix paths (as rfigc -g writes them); no path component contains "/"',
               'last clause of C18_majority_restores only: md5+sha1 collision-freedom at the original content; equal hashes for different contents are counted per case (hash_collision_dropped), none expected',
               'all holders of a path are regular readable files; the same path is not a file in one replica and a directory in another']

KF_NONE = None


def H(c):
    return hashlib.md5(c).hexdigest(), hashlib.sha1(c).hexdigest()


def write_tree(root, files):
    os.makedirs(root, exist_ok=True)
    for rel, c in files.items():
        p = os.path.join(root, *rel.split('/'))
        os.makedirs(os.path.dirname(p), exist_ok=True)
        with open(p, 'wb') as f:
            f.write(c)


def read_tree(root):
    res = {}
    for dp, _, fs in os.walk(root):
        for f in fs:
            p = os.path.join(dp, f)
            res[os.path.relpath(p, root).replace(os.sep, '/')] = open(p, 'rb').read()
    return res


def read_db(path):
    with open(path, 'rt', newline='', encoding='utf-8') as f:
        return [r for r in csv.DictReader(f, lineterminator='\n', delimiter='|', quotechar='"')]


def edit_db(path, ops):
    """the malformed stream: ops on the csv written by rfigc (dup / badmd5 / badsha1 / swap of a row)"""
    hdr = ['path', 'md5', 'sha1', 'last_modification_timestamp', 'last_modification_date', 'size', 'ext']
    rows = read_db(path)
    for op, p in ops:
        for i, r in enumerate(rows):
            if r['path'] == p:
                if op == 'dup':
                    rows.insert(i, dict(r))
                elif op == 'badmd5':
                    r['md5'] = 'f' * 32 if r['md5'][0] != 'f' else '0' * 32
                elif op == 'badsha1':
                    r['sha1'] = 'f' * 40 if r['sha1'][0] != 'f' else '0' * 40
                elif op == 'dupbad':
                    r2 = dict(r); r2['md5'] = '1' * 32
                    rows.insert(i + 1, r2)
                break
    with open(path, 'wt', newline='', encoding='utf-8') as f:
        w = csv.writer(f, lineterminator='\n', delimiter='|', quotechar='"')
        w.writerow(hdr)
        for r in rows:
            w.writerow([r[h] for h in hdr])


def parse_report(path):
    txt = open(path, 'rt', newline='', encoding='utf-8').read()
    body = txt.split('\n=> Input directories:')[0]
    rows = list(csv.reader(io.StringIO(body), delimiter='|', lineterminator='\n', quotechar='"'))
    return [r for r in rows[1:] if r]


def case_files(case):
    """-> list of (path, [bytes|None per replica])"""
    return [(f['path'], [None if r is None else bytes.fromhex(r) for r in f['reps']]) for f in case['files']]


def run_impl(case, want_traffic=False):
    """Runs the real tools.  Returns the observation dict."""
    import pyFileFixity.rfigc as rfigc
    import pyFileFixity.replication_repair as rep
    d = tempfile.mkdtemp(prefix='pffc18')
    cwd0 = os.getcwd()
    traffic = []
    orig_gen = rfigc.generate_hashes

    def rec_gen(filepath, *a, **k):
        r = orig_gen(filepath, *a, **k)
        try:
            traffic.append((open(filepath, 'rb').read(), tuple(r)))
        except Exception:
            pass
        return r
    obs = {}
    try:
        nrep = case['nrep']
        reps = [os.path.join(d, 'r%d' % (i + 1)) for i in range(nrep)]
        for r in reps:
            os.makedirs(r)
        for path, cs in case_files(case):
            for i, c in enumerate(cs):
                if c is not None:
                    write_tree(reps[i], {path: c})
        db = None
        if case.get('db') is not None:
            pristine = os.path.join(d, 'orig')
            write_tree(pristine, {p: bytes.fromhex(c) for p, c in case['db'].items()})
            db = os.path.join(d, 'db.csv')
            os.makedirs(os.path.join(d, 'cwdg'))
            os.chdir(os.path.join(d, 'cwdg'))
            rc = rfigc.main(['-i', pristine, '-d', db, '-g', '-f', '--silent'] + list(case.get('gen_extra', [])))
            if rc != 0:
                raise RuntimeError('rfigc -g failed')
            if case.get('db_ops'):
                edit_db(db, [tuple(o) for o in case['db_ops']])
            obs['db_rows'] = [[r['path'], r['md5'], r['sha1'], r['size']] for r in read_db(db)]
        else:
            obs['db_rows'] = None
        cw = os.path.join(d, 'cwd')
        os.makedirs(cw)
        os.chdir(cw)
        out = os.path.join(d, 'out')
        argv = ['-i'] + reps + ['-o', out, '-f', '--silent'] + (['-v'] if common.every_fourth(case) else [])
        if db:
            argv += ['-d', db]
        if case.get('report'):
            argv += ['-r', 'report.csv']
        rfigc.generate_hashes = rec_gen
        try:
            obs['exit'] = int(rep.main(argv))
        except BaseException as e:   # SystemExit from a nested argparse is an observable too
            obs['exit'] = ['EXC', type(e).__name__, str(e)[:200]]
        finally:
            rfigc.generate_hashes = orig_gen
        obs['out'] = {p: c.hex() for p, c in read_tree(out).items()} if os.path.isdir(out) else {}
        rp = os.path.join(cw, 'report.csv')
        obs['rows'] = None
        if case.get('report') and os.path.exists(rp):
            try:
                obs['rows'] = parse_report(rp)
            except Exception as e:
                obs['rows'] = [['UNPARSABLE', repr(e)]]
        # the legacy single-file check of rfigc on every replica file (model: DbRepair.rfigc_single)
        single = []
        if db and case.get('probe_single'):
            for path, cs in case_files(case):
                for i, c in enumerate(cs):
                    if c is not None:
                        fp = os.path.join(reps[i], *path.split('/'))
                        try:
                            r = int(rfigc.main(['-i', fp, '-d', db, '-m', '--silent']))
                        except BaseException as e:
                            r = ['EXC', type(e).__name__]
                        single.append([path, i, r])
        obs['single'] = single
        if want_traffic:
            obs['traffic'] = traffic
        for c, r in traffic:
            if tuple(r) != H(c):
                obs.setdefault('oracle_mismatch', []).append([c.hex(), list(r)])
        return obs
    finally:
        os.chdir(cwd0)
        shutil.rmtree(d, ignore_errors=True)


# ------------------------------------------------------------------ the property, from its statement
def vote_plurality(copies):
    """what a vote over the replicas gives (statement of C06): first value of maximal count per offset"""
    if len(copies) < 3:
        return copies[0] if copies else b''
    n = max(len(c) for c in copies)
    out = bytearray()
    for i in range(n):
        col = [c[i] for c in copies if i < len(c)]
        best = max(col.count(v) for v in col)
        out.append(next(v for v in col if col.count(v) == best))
    return bytes(out)


def recorded(obs, path):
    return [(r[1], r[2]) for r in (obs['db_rows'] or []) if r[0] == path]


def matches_some(obs, path, content):
    return content is not None and H(content) in recorded(obs, path)


def matches_all(obs, path, content):
    rec = recorded(obs, path)
    return content is not None and bool(rec) and all(H(content) == r for r in rec)


def predicate(case, obs):
    """-> list of violated clauses (empty = the property holds on this run)"""
    bad = []
    if case.get('db') is None:
        return bad                      # the statement speaks of runs with a database
    if not isinstance(obs['exit'], int):
        return [{'clause': 'run aborted: no report, no exit status, remaining paths not written', 'exception': obs['exit']}]
    files = dict(case_files(case))
    out = {p: bytes.fromhex(c) for p, c in obs['out'].items()}
    nrep = case['nrep']
    for row in obs['rows'] or []:
        if len(row) != nrep + 4:
            bad.append({'clause': 'report row malformed', 'row': row}); continue
        path, dirs, hc, ec = row[0], row[1:1 + nrep], row[-3], row[-2]
        # (1) marked hash-correct, no error contribution  =>  written file matches the recorded hashes
        if hc == 'OK' and ec == 'OK' and not matches_some(obs, path, out.get(path)):
            bad.append({'clause': 'marked-hash-correct', 'path': path, 'row': row,
                        'output_hashes': H(out[path]) if path in out else None, 'recorded': recorded(obs, path)})
        # (2) a replica used as the already-correct copy matches the recorded hashes
        if sum(1 for c in dirs if c != '-') >= 2:
            for i, c in enumerate(dirs):
                if c == 'O' and not matches_some(obs, path, files.get(path, [None] * nrep)[i]):
                    bad.append({'clause': 'replica-taken-as-correct', 'path': path, 'replica': i + 1, 'row': row,
                                'recorded': recorded(obs, path)})
    if obs['exit'] == 0:
        # (1') exit status 0 = no path contributed an error, with or without --report: every written file for which the
        # database records hashes matches them
        for path in sorted(out):
            if recorded(obs, path) and not matches_some(obs, path, out[path]):
                bad.append({'clause': 'exit-0-but-output-mismatches-database', 'path': path, 'report': bool(case.get('report')),
                            'output_hashes': H(out[path]), 'recorded': recorded(obs, path)})
    # (3) damaged first replica, and a vote or another replica would have restored the file => restored
    for path, cs in files.items():
        holders = [c for c in cs if c is not None]
        if len(holders) < 2 or not recorded(obs, path):
            continue
        if matches_some(obs, path, holders[0]):
            continue
        restorable = any(matches_all(obs, path, c) for c in holders[1:]) or \
            (len(holders) >= 3 and matches_all(obs, path, vote_plurality(holders)))
        if restorable and not matches_some(obs, path, out.get(path)):
            bad.append({'clause': 'first-replica-not-trusted', 'path': path,
                        'output_is_first_replica': out.get(path) == holders[0],
                        'output': out[path].hex()[:80] if path in out else None, 'recorded': recorded(obs, path)})
    return bad


# ------------------------------------------------------------------ the model side
def enc_path(p):
    return ','.join(hx(x.encode('utf-8')) for x in p.split('/'))


def enc_rows(rows):
    if not rows:
        return '.'
    return ';'.join('%s:%s:%s:%s' % (enc_path(r[0]), hx(r[1].encode()), hx(r[2].encode()),
                                     r[3] if r[3].isdigit() else '0') for r in rows)


def enc_tab(contents):
    cs = sorted(set(contents))
    return ';'.join('%s:%s:%s' % (hx(c), hx(H(c)[0].encode()), hx(H(c)[1].encode())) for c in cs) if cs else '.'


def model_steps(ctx, case, obs, bs=65535):
    """one merge_step per path of the case; returns {path: parsed answer}"""
    lines, keys = [], []
    usedb = 0 if case.get('db') is None else 1
    rows = obs['db_rows'] or []
    for path, cs in case_files(case):
        holders = [(i, c) for i, c in enumerate(cs) if c is not None]
        if not holders:
            continue
        contents = [c for _, c in holders]
        extra = [vote_plurality(contents)]
        if path in obs['out']:
            extra.append(bytes.fromhex(obs['out'][path]))
        lines.append('dbrepair %d %d %d %d %s %s %s %s %s' % (
            usedb, 1 if case.get('report') else 0, bs, case['nrep'], enc_path(path),
            ','.join(str(i) for i, _ in holders), hxl(contents), enc_rows(rows), enc_tab(contents + extra)))
        keys.append(path)
    res = {}
    for k, o in zip(keys, ctx.model.run(lines)):
        f = o.split(' ')
        if f[0] == 'ERR':
            res[k] = {'err': o}
            continue
        res[k] = {'out': unhx(f[0]), 'errcode': int(f[1]), 'dirs': f[2], 'hc': f[3], 'ec': f[4], 'msg': int(f[5]),
                  'taken': int(f[6]), 'miss': int(f[7])}
    return res


CELL = {'-': '-', 'X': 'X', 'O': 'O', 'OK': 'K', 'KO': 'N'}


def compare(ctx, case, obs, model):
    """-> list of differences between the model's per-path answers and the implementation's observables"""
    diffs = []
    if not isinstance(obs['exit'], int):
        return [{'what': 'implementation raised', 'exc': obs['exit']}]
    rows = {}
    for r in obs['rows'] or []:
        rows.setdefault(r[0], []).append(r)
    for path, m in model.items():
        if 'err' in m:
            diffs.append({'path': path, 'model_error': m['err']}); continue
        if m['miss']:
            diffs.append({'path': path, 'what': 'oracle-miss'})
        if obs['out'].get(path) != m['out'].hex():
            diffs.append({'path': path, 'what': 'output', 'model': m['out'].hex()[:80], 'impl': (obs['out'].get(path) or 'absent')[:80]})
        if case.get('report'):
            rr = rows.get(path, [])
            if len(rr) != 1:
                diffs.append({'path': path, 'what': 'report rows for path', 'n': len(rr)}); continue
            r = rr[0]
            n = case['nrep']
            got = (''.join(CELL.get(c, '?') for c in r[1:1 + n]), CELL.get(r[-3], '?'), CELL.get(r[-2], '?'), 0 if r[-1] == '-' else 1)
            want = (m['dirs'], m['hc'], m['ec'], m['msg'])
            if got != want:
                diffs.append({'path': path, 'what': 'report columns', 'model': want, 'impl': got})
    if set(obs['out']) != set(model):
        diffs.append({'what': 'output path set', 'impl': sorted(obs['out']), 'model': sorted(model)})
    codes = [m.get('errcode', 0) for m in model.values()]
    st = int(ctx.model.run(['dbstatus %s' % (','.join(str(c) for c in codes) if codes else '.')])[0])
    if st != obs['exit']:
        diffs.append({'what': 'exit status', 'model': st, 'impl': obs['exit']})
    return diffs


def compare_single(ctx, case, obs):
    """rfigc.main single-file check vs DbRepair.rfigc_single"""
    if not obs.get('single'):
        return []
    files = dict(case_files(case))
    lines = []
    for path, i, r in obs['single']:
        c = files[path][i]
        lines.append('rfigc1 %s %s %s %s' % (enc_path(path), hx(c), enc_rows(obs['db_rows']), enc_tab([c])))
    diffs = []
    for (path, i, r), o in zip(obs['single'], ctx.model.run(lines)):
        ctx.count('rfigc_single_checks')
        if str(r) != o:
            diffs.append({'what': 'rfigc single-file check', 'path': path, 'replica': i + 1, 'model': o, 'impl': r})
    return diffs


def classify(case, detail):
    return None


def check_case(ctx, case):
    obs = run_impl(case)
    ctx.evaluations += 1
    nfiles = len(case['files'])
    ctx.count('replicas=%d' % case['nrep'])
    ctx.count('report=%s' % bool(case.get('report')))
    ctx.count('database=%s' % ('not-supplied' if case.get('db') is None else case.get('cover', 'given')))
    for f in case['files']:
        ctx.count('depth=%d' % f['path'].count('/'))
        ctx.count('pattern=%s' % f.get('pattern', '?'))
        if case.get('db') is not None and f['path'] in case['db'] and len(set(f['reps'])) > 1:
            ctx.nontriv((f['path'], tuple(f['reps']), tuple(map(tuple, obs['db_rows'] or []))))
    if obs.get('oracle_mismatch'):
        ctx.disagree(case, None, obs['oracle_mismatch'], what='rfigc.generate_hashes differs from hashlib')
    model = model_steps(ctx, case, obs)
    diffs = compare(ctx, case, obs, model)
    # rfigc's own single-file check is no longer on the code path of the property (it documents why the
    # delegation was replaced): a mismatch with DbRepair.rfigc_single is recorded in the evidence, not reported
    legacy = compare_single(ctx, case, obs)
    if legacy:
        ctx.count('rfigc_single_mismatch', len(legacy))
        ctx.extra.setdefault('rfigc_single_mismatch_samples', [])
        if len(ctx.extra['rfigc_single_mismatch_samples']) < 5:
            ctx.extra['rfigc_single_mismatch_samples'].append(legacy[0])
    if diffs:
        ctx.disagree(case, {k: {a: (b.hex()[:60] if isinstance(b, bytes) else b) for a, b in v.items()} for k, v in model.items()},
                     {'exit': obs['exit'], 'rows': obs['rows'], 'diffs': diffs})
    bad = predicate(case, obs)
    if bad:
        ctx.fail(case, {'violated': bad, 'exit': obs['exit'], 'rows': obs['rows']})
    else:
        ctx.traces += 1
    # collision-freedom premise of C18_majority_restores, checked: equal hashes only for equal contents
    seen = {}
    for _, cs in case_files(case):
        for c in cs:
            if c is not None:
                if seen.setdefault(H(c), c) != c:
                    ctx.count('hash_collision_dropped')
    ctx.sample({'files': [[f['path'], f.get('pattern')] for f in case['files']], 'nrep': case['nrep'],
                'report': bool(case.get('report')), 'exit': obs['exit'], 'rows': obs['rows']}, cap=5)
    return obs, bad, diffs


# ------------------------------------------------------------------ generators
DIRS = ['a', 'b', 'sub', 'd.x', 'Z z', 'é']
NAMES = ['f.txt', 'n.txt', 'g', 'h.bin', '.hid', 'x.tar.gz', 'a b.txt', 'p|q.dat', 'ü.txt', 'q"r.txt', 'N.TXT', '100%s {0}.txt', 'path']
PATTERNS = ['none', 'first', 'first_xxxx', 'minority', 'majority_same', 'all_distinct', 'all_same_offset', 'all_but_last',
            'truncated_first', 'extended_first', 'two_of_n', 'missing']


def rand_content(rng):
    L = rng.choice([0, 1, 2, 5, 17, 40, 200])
    alpha = rng.choice([[0, 255], [97, 98, 99, 10], list(range(256))])
    return bytes(rng.choice(alpha) for _ in range(L))


def damage(rng, c, pos=None):
    if not c:
        return b'X'
    c = bytearray(c)
    i = rng.randrange(len(c)) if pos is None else pos % len(c)
    c[i] = (c[i] + 1 + rng.randrange(255)) % 256
    return bytes(c)


def apply_pattern(rng, pat, orig, n):
    reps = [orig] * n
    if pat == 'first':
        reps[0] = damage(rng, orig)
    elif pat == 'first_xxxx':
        reps[0] = b'X' * max(4, len(orig))
    elif pat == 'minority':
        k = (n - 1) // 2
        for i in rng.sample(range(n), k):
            reps[i] = damage(rng, orig)
    elif pat == 'majority_same':
        bad = damage(rng, orig)
        k = n // 2 + 1
        for i in rng.sample(range(n), k):
            reps[i] = bad
    elif pat == 'all_distinct':
        L = max(1, len(orig))
        offs = rng.sample(range(L), min(L, n)) if L >= n else [j % L for j in range(n)]
        reps = [damage(rng, orig, offs[j]) for j in range(n)]
    elif pat == 'all_same_offset':
        p = rng.randrange(max(1, len(orig)))
        reps = [damage(rng, orig, p) for _ in range(n)]
    elif pat == 'all_but_last':
        reps = [damage(rng, orig) for _ in range(n - 1)] + [orig]
    elif pat == 'truncated_first':
        reps[0] = orig[:len(orig) // 2] if orig else b'Y'
    elif pat == 'extended_first':
        reps[0] = orig + b'tail'
    elif pat == 'two_of_n':
        # every replica but two is absent: fewer than three copies, no vote possible
        keep = sorted(rng.sample(range(n), 2))
        reps = [(orig if i == keep[1] else damage(rng, orig)) if i in keep else None for i in range(n)]
    elif pat == 'missing':
        gone = rng.sample(range(n), rng.choice([1, n - 1]))
        reps = [None if i in gone else (damage(rng, orig) if rng.random() < 0.4 else orig) for i in range(n)]
    return reps


def gen_case(rng, idx=0):
    n = rng.choice([3, 3, 4, 5])
    uniform = rng.random() < 0.25        # all files at one depth: the only layout in which files may be missing in a replica
    nf = rng.choice([1, 2, 3, 4, 5])
    paths = []
    udepth = rng.choice([0, 1, 2, 3])
    while len(paths) < nf:
        depth = udepth if uniform else rng.choice([0, 1, 1, 2, 2, 3])
        comps = [rng.choice(DIRS) for _ in range(depth)] + [rng.choice(NAMES)]
        p = '/'.join(comps)
        # no path may be a directory of another one, names unique
        if p in paths or any(q.startswith(p + '/') or p.startswith(q + '/') for q in paths):
            continue
        paths.append(p)
    if not uniform and rng.random() < 0.3:
        # a nested file sharing its base name with a top-level file of different content
        paths = [p for p in paths if p not in ('n.txt', 'sub/n.txt')] + ['n.txt', 'sub/n.txt']
    files, db = [], {}
    cover = rng.choice(['all', 'all', 'some', 'some', 'empty', 'stale', 'extra'])
    for p in paths:
        orig = rand_content(rng)
        pats = [x for x in PATTERNS if uniform or x not in ('missing', 'two_of_n')]
        pat = rng.choice(pats)
        reps = apply_pattern(rng, pat, orig, n)
        files.append({'path': p, 'pattern': pat, 'orig': orig.hex(), 'reps': [None if r is None else r.hex() for r in reps]})
        if cover in ('all', 'extra') or (cover in ('some', 'stale') and rng.random() < 0.6):
            db[p] = orig.hex()
        elif cover == 'stale' and rng.random() < 0.7:
            db[p] = damage(rng, orig + b'old').hex()
    if cover == 'extra':
        db['zz/not-in-replicas.txt'] = b'extra'.hex()
        db['only-in-db.bin'] = b''.hex()
    case = {'nrep': n, 'files': files, 'db': db, 'cover': cover, 'report': rng.random() < 0.7, 'probe_single': rng.random() < 0.35}
    if db and rng.random() < 0.12:
        case['db_ops'] = [[rng.choice(['dup', 'badmd5', 'badsha1', 'dupbad']), rng.choice(sorted(db))]]
        case['cover'] = 'malformed'
    if rng.random() < 0.04:
        case['db'] = None
        case['cover'] = 'not-supplied'
    return case


def mk(nrep, files, db, report=True, **kw):
    """files: {path: [bytes|None]*nrep}; db: {path: bytes} or None"""
    c = {'nrep': nrep, 'files': [{'path': p, 'pattern': 'fixed', 'reps': [None if r is None else r.hex() for r in rs]} for p, rs in files.items()],
         'db': None if db is None else {p: c.hex() for p, c in db.items()}, 'report': report, 'cover': 'fixed', 'probe_single': True}
    c.update(kw)
    return c


def corpus():
    good, good2 = b'nested file, original content\n', b'top level file\n'
    x = b'X' * len(good)
    cs = []
    for rep in (True, False):
        # the probe of DESIGN.md: first replica of sub/n.txt destroyed, replicas 2 and 3 intact
        cs.append(mk(3, {'sub/n.txt': [x, good, good], 't.txt': [good2] * 3}, {'sub/n.txt': good, 't.txt': good2}, rep))
        # depth 2 and 3
        cs.append(mk(3, {'a/b/n.txt': [x, good, good], 'a/b/c/m.txt': [damage_fixed(good2), good2, good2]},
                     {'a/b/n.txt': good, 'a/b/c/m.txt': good2}, rep))
        # path absent from the database, first replica damaged
        cs.append(mk(3, {'u.txt': [x, good, good], 't.txt': [good2] * 3}, {'t.txt': good2}, rep))
        # output cannot be repaired (all replicas equal and wrong): KO, exit 1 (without --report: the r_row NameError)
        cs.append(mk(3, {'t.txt': [x, x, x]}, {'t.txt': good}, rep))
        cs.append(mk(4, {'sub/t.txt': [x, x, x, good[:-1]]}, {'sub/t.txt': good}, rep))
        # nested file whose base name is also a top-level row
        cs.append(mk(3, {'n.txt': [good2] * 3, 'sub/n.txt': [x, good, good]}, {'n.txt': good2, 'sub/n.txt': good}, rep))
        cs.append(mk(3, {'n.txt': [good2] * 3, 'sub/n.txt': [good2, good, good]}, {'n.txt': good2, 'sub/n.txt': good}, rep))
        # a database generated with --skip_hash records '0' in both hash columns: nothing matches such a row, so no replica may be
        # taken as already correct and no path may be reported hash-correct on its strength
        c_ = mk(3, {'sub/n.txt': [x, good, good], 't.txt': [good2] * 3}, {'sub/n.txt': good, 't.txt': good2}, rep)
        c_['gen_extra'] = ['--skip_hash']
        cs.append(c_)
        # only the last replica is intact, 5 replicas
        cs.append(mk(5, {'a/b/c/deep.bin': [x, x, b'', x + b'1', good]}, {'a/b/c/deep.bin': good}, rep))
    return cs


def damage_fixed(c):
    return bytes([c[0] ^ 0x55]) + c[1:]


def run(ctx):
    rng = ctx.rng
    from props import cli_proc
    cli_proc.stream(ctx, ['C18', 'C18-prefill', 'C18-prefixdirs', 'C18@replication_repair', 'C18-grown'])
    for case in corpus():
        check_case(ctx, case)
    ctx.extra['corpus_cases'] = len(corpus())
    n = 600 if ctx.tier == 'quick' else 8000
    for i in range(n):
        check_case(ctx, gen_case(rng, i))


def replay_case(ctx, case):
    if case.get('kind') == 'cli-process':
        from props import cli_proc
        return cli_proc.replay(case)
    obs = run_impl(case)
    bad = predicate(case, obs)
    model = model_steps(ctx, case, obs)
    diffs = compare(ctx, case, obs, model)
    return {'holds': not bad, 'violated_clauses': bad, 'implementation': {'exit': obs['exit'], 'rows': obs['rows'],
            'out': {p: c[:80] for p, c in obs['out'].items()}},
            'model': {k: {a: (b.hex()[:80] if isinstance(b, bytes) else b) for a, b in v.items()} for k, v in model.items()},
            'model_vs_implementation': diffs}


def shrink(ctx, case):
    if case.get('kind') == 'cli-process':
        return case
    def bad(c):
        try:
            return bool(predicate(c, run_impl(c)))
        except Exception:
            return False
    cur = case
    improved = True
    while improved:
        improved = False
        cands = []
        fs = cur['files']
        for i in range(len(fs)):
            if len(fs) > 1:
                cands.append(dict(cur, files=fs[:i] + fs[i + 1:]))
        if cur.get('db_ops'):
            cands.append({k: v for k, v in cur.items() if k != 'db_ops'})
        if cur.get('db'):
            for p in sorted(cur['db']):
                if p not in [f['path'] for f in fs]:
                    cands.append(dict(cur, db={q: c for q, c in cur['db'].items() if q != p}))
        if cur['nrep'] > 3:
            cands.append(dict(cur, nrep=cur['nrep'] - 1, files=[dict(f, reps=f['reps'][:-1]) for f in fs]))
        for i, f in enumerate(fs):
            if '/' in f['path'] and f['path'].count('/') > 1:
                np = f['path'].split('/', 1)[1]
                if all(np != g['path'] for g in fs):
                    nd = None if cur.get('db') is None else {(np if q == f['path'] else q): c for q, c in cur['db'].items()}
                    cands.append(dict(cur, files=fs[:i] + [dict(f, path=np)] + fs[i + 1:], db=nd))
        for c in cands:
            if bad(c):
                cur, improved = c, True
                break
    return cur
