# rs_common.py — shared helpers of C02 / C11 / C12: codec construction (never two reedsolo table
# families alive at once), exhaustive GF(2^8) table correspondence, case generators.
import itertools, contextlib, io, os
from common import hx, unhx

FAMILY = {1: 'A', 2: 'A', 3: 'A', 4: 'B'}
_cache = {'fam': None, 'objs': {}}


def codec(algo, n, k):
    """ECCMan(n, k, algo).  reedsolo keeps its GF tables module-global: building a codec-4 object re-tables a
    live codec-3 one, so objects of the other family are dropped before a new family is built."""
    from pyFileFixity.lib.eccman import ECCMan
    fam = FAMILY[algo]
    if _cache['fam'] != fam:
        _cache['objs'].clear()
        _cache['fam'] = fam
    key = (algo, n, k)
    if key not in _cache['objs']:
        if len(_cache['objs']) > 64:
            _cache['objs'].clear()
        _cache['objs'][key] = ECCMan(n, k, algo=algo)
        if algo in (3, 4):  # building one re-initialises the module tables: all reedsolo objects stay valid only within a family
            pass
    return _cache['objs'][key]


def gf_tables_check(ctx):
    """All 65 536 products, 600 powers of the generator, all inverses and generator polynomials of the model
    against reedsolo (both table families) and unireedsolomon.ff."""
    import reedsolo
    from unireedsolomon import ff
    res = ctx.model.run(['gfmul 3', 'gfmul 4', 'gfpow 3 600', 'gfpow 4 600', 'gfinv 3', 'gfinv 4'] +
                        ['rsgen 3 %d' % d for d in range(0, 40)] + ['rsgen 4 %d' % d for d in range(0, 40)])
    mul3, mul4, pow3, pow4, inv3, inv4 = [unhx(x) for x in res[:6]]
    gens = [unhx(x) for x in res[6:]]
    bad = []
    for algo, prim, gen, fcr, mul, pw, inv, gl in ((3, 0x11b, 3, 1, mul3, pow3, inv3, gens[:40]), (4, 0x187, 2, 120, mul4, pow4, inv4, gens[40:])):
        reedsolo.init_tables(prim=prim, generator=gen)
        _cache['fam'] = None; _cache['objs'].clear()
        for a in range(256):
            for b in range(256):
                if reedsolo.gf_mul(a, b) != mul[a * 256 + b]:
                    bad.append(('gf_mul', algo, a, b, reedsolo.gf_mul(a, b), mul[a * 256 + b]))
        for e in range(600):
            if reedsolo.gf_pow(gen, e) != pw[e]:
                bad.append(('gf_pow', algo, e))
        for a in range(1, 256):
            if reedsolo.gf_inverse(a) != inv[a]:
                bad.append(('gf_inverse', algo, a))
        for d in range(40):
            if bytes(reedsolo.rs_generator_poly(d, fcr=fcr, generator=gen)) != gl[d]:
                bad.append(('rs_generator_poly', algo, d))
        ctx.evaluations += 65536 + 600 + 255 + 40
    ff.init_lut(generator=3, prim=0x11b, c_exp=8)
    for a in range(256):
        for b in range(256):
            if int(ff.GF2int(a) * ff.GF2int(b)) != mul3[a * 256 + b]:
                bad.append(('GF2int.mul', a, b))
    for a in range(1, 256):
        if int(ff.GF2int(a).inverse()) != inv3[a]:
            bad.append(('GF2int.inverse', a))
    ctx.evaluations += 65536 + 255
    ctx.count('gf_table_entries_compared', 2 * 65536 + 65536 + 1200 + 765 + 80)
    for b in bad[:20]:
        ctx.disagree({'kind': 'gf-table', 'what': list(b)}, 'model table', 'library table', what='GF(2^8) table mismatch')
    return not bad


def messages(rng, length):
    return [bytes(length), b'\xff' * length, bytes((i * 7 + 1) % 256 for i in range(length)),
            bytes(rng.randrange(256) for _ in range(length))]


def corrupt(rng, word, positions, avoid=None):
    w = bytearray(word)
    for p in positions:
        v = rng.randrange(256)
        while v == word[p] or (avoid is not None and v == avoid):
            v = rng.randrange(256)
        w[p] = v
    return bytes(w)


def geometries_small(nmax):
    return [(n, k) for n in range(2, nmax + 1) for k in range(1, n)]


def hexarg(b):
    return hx(bytes(b))


@contextlib.contextmanager
def quiet():
    """the facade prints a warning for every short ecc; keep it out of the check's output"""
    with contextlib.redirect_stdout(io.StringIO()):
        yield
