# streamlib.py — shared by C08 / C13 / C03: real-tool runner (in-process, own cwd per run), ecc-file
# parser (marker / delimiter positions of a *pristine* ecc file), damage operators, observation of the
# entry loop (get_next_entry / db.tell() wrappers), canonical result records.
import io, os, re, sys, shutil, tempfile, hashlib, json, subprocess, builtins

MARKER = b'\xFE\xFF' * 5
DELIM = b'\xFA\xFF\xFA\xFF\xFA'
WINDOW = 65535          # blocksize of entry_fields (whole tool) and of get_next_entry

TOOLS = {'header': 'pyFileFixity.header_ecc', 'whole': 'pyFileFixity.structural_adaptive_ecc'}


def tool_module(tool):
    import importlib
    return importlib.import_module(TOOLS[tool])


def param_args(tool, P):
    """P: dict with mb, size, r (header) or r1,r2,r3 (whole), ri, hash, algo and flags."""
    a = ['--max_block_size', str(P.get('mb', 255)), '-s', str(P.get('size', 1024)),
         '-ri', repr(P.get('ri', 0.5)), '--ecc_algo', str(P.get('algo', 3))]
    if P.get('hash'):
        a += ['--hash', P['hash']]
    if P.get('v'):
        a += ['-v']          # verbose must not change any observable the predicates or the model look at
    if tool == 'header':
        a += ['-r', repr(P.get('r', 0.3))]
    else:
        a += ['-r1', repr(P.get('r1', 0.3)), '-r2', repr(P.get('r2', 0.2)), '-r3', repr(P.get('r3', 0.1))]
    return a


class Obs(object):
    """What the wrappers recorded during one correction run."""
    def __init__(self):
        self.scans = []      # (cursor before get_next_entry, returned span or None, cursor after)


def call_main(tool, argv, cwd, observe=None):
    """Run the tool's main(argv) in-process with cwd=cwd.  Returns rc (int) or ('EXC', type name, repr)."""
    mod = tool_module(tool)
    old_cwd, old_err, old_out = os.getcwd(), sys.stderr, sys.stdout
    os.chdir(cwd)
    sys.stdout = io.StringIO()      # the tools print() diagnostics directly; never compared
    orig_gne = mod.get_next_entry
    if observe is not None:
        def gne(f, *a, **k):
            before = f.tell()
            r = orig_gne(f, *a, **k)
            after = f.tell()
            if r is None:
                observe.scans.append((before, None, after))
            elif isinstance(r, list):
                observe.scans.append((before, (r[0], r[1]), after))
            else:
                observe.scans.append((before, (after - len(r), after), after))
            return r
        mod.get_next_entry = gne
    try:
        try:
            rc = mod.main(list(argv))
        except SystemExit as e:
            rc = ('EXC', 'SystemExit', repr(e))
        except BaseException as e:
            rc = ('EXC', type(e).__name__, repr(e)[:300])
    finally:
        mod.get_next_entry = orig_gne
        for s in (sys.stderr, sys.stdout):
            if s is not old_err and s is not old_out and hasattr(s, 'close') and s.__class__.__name__ == 'Tee':
                try:
                    s.close()
                except Exception:
                    pass
        sys.stderr, sys.stdout = old_err, old_out
        os.chdir(old_cwd)
    return rc


def write_tree(root, files):
    """files: dict relpath (posix str) -> bytes"""
    for rel, data in files.items():
        p = os.path.join(root, *rel.split('/'))
        os.makedirs(os.path.dirname(p), exist_ok=True)
        with open(p, 'wb') as f:
            f.write(data)


def read_tree(root):
    out = {}
    for dp, dn, fn in os.walk(root):
        for n in fn:
            p = os.path.join(dp, n)
            out[os.path.relpath(p, root).replace(os.sep, '/')] = open(p, 'rb').read()
    return out


def tree_digest(root):
    h = hashlib.sha256()
    for rel, data in sorted(read_tree(root).items()):
        h.update(rel.encode('utf-8', 'surrogateescape') + b'\0' + hashlib.sha256(data).digest())
    return h.hexdigest()


COUNTERS = [('processed', r'Total files processed: (\d+)'), ('corrupted', r'Total files corrupted: (\d+)'),
            ('full', r'Total files repaired completely: (\d+)'), ('partial', r'Total files repaired partially: (\d+)'),
            ('skipped', r'Total files skipped: (\d+)')]


def parse_counters(log):
    c = {}
    for k, rx in COUNTERS:
        m = re.findall(rx, log)
        c[k] = int(m[-1]) if m else None
    return c


def generate(tool, P, inp, db, cwd, extra=()):
    argv = ['-i', inp, '-d', db, '-g', '-f', '--silent', '-l', 'gen.log'] + param_args(tool, P) + list(extra)
    return call_main(tool, argv, cwd)


def correct(tool, P, inp, db, out, cwd, extra=(), observe=None, logname='log.txt'):
    """One correction run; returns the canonical record {rc, counters, outputs{rel: hex sha}, out_bytes{rel: bytes}, log}."""
    if os.path.exists(os.path.join(cwd, logname)):
        os.remove(os.path.join(cwd, logname))
    argv = ['-i', inp, '-d', db, '-c', '-o', out, '--silent', '-l', logname] + param_args(tool, P) + list(extra)
    rc = call_main(tool, argv, cwd, observe=observe)
    try:
        log = open(os.path.join(cwd, logname), errors='replace').read()
    except OSError:
        log = ''
    outs = read_tree(out)
    return {'rc': rc if isinstance(rc, int) else list(rc), 'counters': parse_counters(log), 'out_bytes': outs, 'log': log}


def clear_dir(d):
    for n in os.listdir(d):
        p = os.path.join(d, n)
        if os.path.isdir(p) and not os.path.islink(p):
            shutil.rmtree(p)
        else:
            os.remove(p)


# ---------------------------------------------------------------------------------------------
# the scanning SPEC, written independently of the Coq model (python bytes.find)

def entries_spec(db, marker=MARKER, start=0):
    """[(s, e)]: s = first byte after a marker occurrence, e = start of the next occurrence at or after s (or len)."""
    res, pos = [], start
    while True:
        m = db.find(marker, pos)
        if m < 0:
            return res
        s = m + len(marker)
        n = db.find(marker, s)
        e = len(db) if n < 0 else n
        res.append((s, e))
        pos = e


def parse_pristine(db):
    """Structure of a pristine ecc file: per entry dict(mark, s, e, d1..d4 (absolute delimiter starts), track)."""
    ents = []
    for (s, e) in entries_spec(db):
        ent = db[s:e]
        pos, ds = 0, []
        for _ in range(4):
            i = ent.find(DELIM, pos)
            ds.append(i)
            pos = i + len(DELIM)
        ents.append({'mark': s - len(MARKER), 's': s, 'e': e, 'd': [s + x for x in ds], 'track': s + ds[3] + len(DELIM),
                     'path': ent[:ds[0]], 'size': ent[ds[0] + 5:ds[1]], 'ok': all(x >= 0 for x in ds)})
    return ents


def has_marker_near(db, lo, hi, marker=MARKER):
    """True when some marker occurrence overlaps [lo, hi) (i.e. starts in [lo-|m|+1, hi))."""
    a = max(0, lo - len(marker) + 1)
    return db.find(marker, a, min(len(db), hi + len(marker) - 1)) >= 0


def run_subprocess_json(script, payload, repo, timeout=600):
    """Run a python snippet file in its own interpreter (codec isolation); payload/result as JSON over stdin/stdout."""
    env = dict(os.environ, PYTHONHASHSEED='0', PYTHONDONTWRITEBYTECODE='1', VERIF_REPO=repo)
    p = subprocess.run([sys.executable, script], input=json.dumps(payload), stdout=subprocess.PIPE, stderr=subprocess.PIPE,
                       text=True, timeout=timeout, env=env)
    if p.returncode != 0:
        raise RuntimeError('subprocess failed: ' + p.stderr[-800:])
    return json.loads(p.stdout)


_GEN_CACHE = {}


def enable_fast_tables():
    """Harness-only speed-up: memoise reedsolo.rs_generator_poly_all (a pure function of its arguments and of the
    module-global GF tables; the key contains the exp table) — ECCMan.__init__ otherwise spends 1 s per codec object
    for max_block_size 255."""
    import reedsolo
    if getattr(reedsolo.rs_generator_poly_all, '_pff_cached', False):
        return
    orig = reedsolo.rs_generator_poly_all

    def cached(max_nsym, fcr=0, generator=2):
        key = (max_nsym, fcr, generator, bytes(bytearray(reedsolo.gf_exp[:256])))
        if key not in _GEN_CACHE:
            _GEN_CACHE[key] = orig(max_nsym, fcr=fcr, generator=generator)
        return _GEN_CACHE[key]
    cached._pff_cached = True
    reedsolo.rs_generator_poly_all = cached


# ---------------------------------------------------------------------------------------------
# observed correction run: per-entry observations through wrappers of module attributes (no source hook)

CTR_VARS = ('files_count', 'files_corrupted', 'files_repaired_completely', 'files_repaired_partially', 'files_skipped')


def observed_correct(tool, P, inp, dbpath, out, cwd, extra=()):
    """Correction run with the entry loop observed.  Returns (result record, obs) where obs has
       spans [(s,e)], cursors [cursor before each scan], tpos [per entry or None], cls [per entry 'S'|10|11|12|13|None],
       intra [(field, ecc, result)], blocks {entry index: (track bytes, file path)}."""
    mod = tool_module(tool)
    obs = {'spans': [], 'cursors': [], 'snap': [], 'intra': [], 'blocks': {}, 'tpos': {}}
    db_bytes = open(dbpath, 'rb').read()
    orig = {}

    def patch(name, fn):
        orig[name] = getattr(mod, name)
        setattr(mod, name, fn)

    def gne(f, *a, **k):
        loc = sys._getframe(1).f_locals
        obs['snap'].append(tuple(loc.get(v) for v in CTR_VARS))
        before = f.tell()
        r = orig['get_next_entry'](f, *a, **k)
        obs['cursors'].append(before)
        if r is not None:
            if isinstance(r, list):
                obs['spans'].append((r[0], r[1]))
            else:
                obs['spans'].append((f.tell() - len(r), f.tell()))
        return r
    patch('get_next_entry', gne)
    if tool == 'header':
        def eci(mgr, params, field, ecc, *a, **k):
            r = orig['ecc_correct_intra'](mgr, params, field, ecc, *a, **k)
            obs['intra'].append((bytes(field), bytes(ecc), bytes(r[0])))
            return r
        patch('ecc_correct_intra', eci)

        def ea(entry_p, ecc_params, header_size, filepath, fileheader=None):
            if fileheader is None:
                obs['blocks'][len(obs['spans']) - 1] = (bytes(entry_p['ecc_field']), filepath)
            return orig['entry_assemble'](entry_p, ecc_params, header_size, filepath, fileheader)
        patch('entry_assemble', ea)
    else:
        def ecis(mgr, params, hasher, rate, field, ecc, *a, **k):
            r = orig['ecc_correct_intra_stream'](mgr, params, hasher, rate, field, ecc, *a, **k)
            obs['intra'].append((bytes(field), bytes(ecc), bytes(r[0])))
            return r
        patch('ecc_correct_intra_stream', ecis)

        def sea(hasher, file, eccfile, entry_p, *a, **k):
            if hasattr(file, 'name'):
                t, e = entry_p['ecc_field_pos']
                obs['blocks'].setdefault(len(obs['spans']) - 1, (db_bytes[t:e] if e >= t else b'', file.name))
            return orig['stream_entry_assemble'](hasher, file, eccfile, entry_p, *a, **k)
        patch('stream_entry_assemble', sea)

        def ef(file, entry_pos, *a, **k):
            r = orig['entry_fields'](file, entry_pos, *a, **k)
            obs['tpos'][len(obs['spans']) - 1] = r['ecc_field_pos'][0]
            return r
        patch('entry_fields', ef)
    try:
        res = correct(tool, P, inp, dbpath, out, cwd, extra=extra)
    finally:
        for n, f in orig.items():
            setattr(mod, n, f)
    # per-entry class from the counter snapshots (snapshot i is taken before scan i)
    fin = res['counters']
    final = tuple(fin.get(k) for k in ('processed', 'corrupted', 'full', 'partial', 'skipped'))
    snaps = obs['snap'][1:len(obs['spans']) + 1]
    if len(snaps) < len(obs['spans']):
        snaps = snaps + [final]
    cls, prev = [], obs['snap'][0] if obs['snap'] else None
    for s in snaps:
        if s is None or prev is None or None in s or None in prev:
            cls.append(None)
        else:
            d = tuple(b - a for a, b in zip(prev, s))
            cls.append('S' if d == (0, 0, 0, 0, 1) else 10 if d == (1, 0, 0, 0, 0) else 11 if d == (1, 1, 1, 0, 0)
                       else 12 if d == (1, 1, 0, 1, 0) else 13 if d == (1, 1, 0, 0, 0) else ('?', d))
        prev = s
    obs['cls'] = cls
    obs['db'] = db_bytes
    return res, obs


def root_of(inp):
    return os.path.dirname(inp) if os.path.isfile(inp) else inp


def model_request(tool, res, obs, inp, ignore_size=False):
    """The `streamrun` request for the extracted model: real ecc bytes + tables of the parameters recorded above."""
    from common import hx, hxl
    root = root_of(inp)
    tree, seen = [], set()
    for (_f, _e, r) in obs['intra']:
        if r in seen:
            continue
        seen.add(r)
        try:
            p = os.path.join(root, r.decode('latin-1'))
            if os.path.isfile(p):
                tree += [r, open(p, 'rb').read()]
        except (ValueError, OSError):
            pass
    itab = []
    for (f, e, r) in obs['intra']:
        itab += [f, e, r]
    btab = []
    for i, (track, fpath) in sorted(obs['blocks'].items()):
        c = obs['cls'][i] if i < len(obs['cls']) else None
        code = c if isinstance(c, int) else 14
        try:
            content = open(fpath, 'rb').read()
        except OSError:
            content = b''
        rel = os.path.relpath(fpath, root).replace(os.sep, '/')
        outb = res['out_bytes'].get(rel)
        btab += [track, content, bytes([code, 1 if outb is not None else 0]) + (outb or b'')]
    return 'streamrun %d %s %s %s %d %d %s %s %s' % (0 if tool == 'header' else 1, hx(MARKER), hx(DELIM), hx(obs['db']),
                                                   1 if ignore_size else 0, WINDOW, hxl(tree), hxl(itab), hxl(btab))


def parse_model(line):
    tr, miss, ctr, outs = line.split(' ')
    ents = [] if tr == '.' else [tuple(int(x) for x in t.split(':')) for t in tr.split(',')]
    from common import unhx
    o = {} if outs == '.' else {unhx(kv.split(':')[0]): unhx(kv.split(':')[1]) for kv in outs.split(',')}
    return {'entries': ents, 'misses': int(miss), 'crash': ctr == 'CRASH',
            'ctr': None if ctr == 'CRASH' else [int(x) for x in ctr.split(',')], 'outs': o}


def compare_model(tool, res, obs, model):
    """List of differences between the model's answer and the implementation's observed loop-level behaviour."""
    diffs = []
    if model['misses']:
        diffs.append(('oracle-miss (field extraction differs)', model['misses']))
    mspans = [(s, e) for (s, e, t, c) in model['entries']]
    if mspans != obs['spans']:
        diffs.append(('spans', mspans[:6], obs['spans'][:6]))
    want_cur = [0] + [e for (s, e) in obs['spans']]
    if obs['cursors'] != want_cur[:len(obs['cursors'])]:
        diffs.append(('cursor before scan', obs['cursors'][:8], want_cur[:8]))
    if tool == 'whole':
        mt = [t for (s, e, t, c) in model['entries']]
        it = [obs['tpos'].get(i) for i in range(len(obs['spans']))]
        if mt != it:
            diffs.append(('track start', mt[:6], it[:6]))
    mcls = ['S' if c < 10 else c for (s, e, t, c) in model['entries']]
    if mcls != obs['cls']:
        diffs.append(('per-entry class', mcls[:8], obs['cls'][:8]))
    crashed = not isinstance(res['rc'], int)
    if model['crash'] != crashed:
        diffs.append(('crash', model['crash'], res['rc']))
    if not crashed and not model['crash']:
        c = res['counters']
        impl = [c['processed'], c['corrupted'], c['full'], c['partial'], c['skipped'], res['rc']]
        if impl != model['ctr']:
            diffs.append(('counters/exit', model['ctr'], impl))
        mo = sorted(k.decode('latin-1') for k in model['outs'])
        if mo != sorted(res['out_bytes']):
            diffs.append(('output folder', mo[:5], sorted(res['out_bytes'])[:5]))
    return diffs
