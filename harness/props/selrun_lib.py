# selrun_lib.py — correction restricted with -e/--errors_file against coq/Select.v (theorems C01_errors_file_* of Props/C01.v).
# One observed correction run of the real tool per case (the same recorders as the C08 / C13 streams: get_next_entry, the
# intra-ecc of the fields, the per-block stage), the run_h_sel / run_w_sel model fed with the ecc bytes, the recorded tables and the
# list of paths of the errors file: counters, exit status and output folder must agree.  Besides, the property predicate: every
# listed file that was damaged within capacity is repaired bit-exactly, nothing is written for a path outside the list, exit 0.
import csv, os, random, shutil
import common
from common import hx, hxl, unhx
from props import streamlib as S
from props.C08 import setup_tree, run_one

TREE = {'a.bin': bytes((i * 7 + 3) % 251 for i in range(300)), 'sub/b.txt': b'hello world\n' * 12, 'sub/c.dat': bytes(range(90)),
        'd e.raw': bytes((i * i) % 256 for i in range(150)), 'café.txt': b'latin-1 name\n' * 9, 'empty': b''}
PARAMS = [('header', {'mb': 40, 'size': 64}), ('whole', {'mb': 40, 'size': 64}), ('header', {'mb': 255, 'size': 128, 'v': True}),
          ('whole', {'mb': 64, 'size': 32, 'r1': 0.5, 'r2': 0.3, 'r3': 0.2})]


def cases(rng, quick):
    names = sorted(TREE)
    lists = [names, ['a.bin'], ['sub/b.txt', 'd e.raw'], ['nowhere/else.bin'], ['café.txt', 'a.bin', 'ghost'], ['sub/c.dat', 'empty']]
    out = []
    for ti, (tool, P) in enumerate(PARAMS):
        for li, lst in enumerate(lists):
            if quick and (ti + li) % 2:
                continue
            dam = {}
            for nm in names:
                if TREE[nm] and rng.random() < 0.7:
                    # one wrong byte inside the first block (header size >= 32 in every parameter set): within capacity
                    dam[nm] = [[rng.randrange(min(len(TREE[nm]), 16)), rng.randrange(256)]]
            out.append({'kind': 'selrun', 'tool': tool, 'P': P, 'list': lst, 'in_damage': dam,
                        'fielddmg': rng.choice([None, None, 'path', 'size'])})
    return out


def exec_case(ctx, case):
    tool, P = case['tool'], case['P']
    d = setup_tree(tool, P, TREE, {k: [tuple(x) for x in v] for k, v in case['in_damage'].items()}, random.Random(0))
    try:
        db = open(d + '/ecc.db', 'rb').read()
        ents = S.parse_pristine(db)
        fd = case.get('fielddmg')
        if fd and ents:
            # first entry: one symbol of the path field changed (the intra-ecc restores it: the list still applies to the TRUE path),
            # or the size field and its intra-ecc wiped (int() fails: counted as skipped whatever the list says)
            e = ents[0]
            b = bytearray(db)
            if fd == 'path':
                b[e['s']] ^= 0x01
            else:
                for i in range(e['d'][0] + len(S.DELIM), e['d'][1]):
                    b[i] = 0x78
                for i in range(e['d'][2] + len(S.DELIM), e['d'][3]):
                    b[i] = 0x79
            db = bytes(b)
        os.makedirs(d + '/lists')
        with open(d + '/lists/err.csv', 'w', newline='', encoding='utf-8') as f:
            w = csv.writer(f, lineterminator='\n', delimiter='|', quotechar='"')
            for nm in case['list']:
                w.writerow([nm, 'listed'])
        res, obs = run_one(ctx, tool, P, d, db, extra=['-e', d + '/lists/err.csv'])
        req = S.model_request(tool, res, obs, d + '/in')
        req = 'selrun' + req[len('streamrun'):] + ' ' + hxl([nm.encode('latin-1') for nm in case['list']])
        cs, outs = ctx.model.run([req])[0].split(' ')
        mouts = {} if outs == '.' else {unhx(kv.split(':')[0]).decode('latin-1'): unhx(kv.split(':')[1]) for kv in outs.split(',')}
        model = {'crash': cs == 'CRASH', 'ctr': None if cs == 'CRASH' else [int(x) for x in cs.split(',')], 'outs': sorted(mouts)}
        crashed = not isinstance(res['rc'], int)
        c = res['counters']
        impl = {'crash': crashed, 'ctr': None if crashed else [c['processed'], c['corrupted'], c['full'], c['partial'], c['skipped'], res['rc']],
                'outs': sorted(res['out_bytes'])}
        agree = model == impl and (crashed or all(mouts[k] == res['out_bytes'][k] for k in mouts))
        # the property, from the statement: listed + damaged -> repaired; not listed -> nothing written; exit 0
        why = []
        victim = ents[0]['path'].decode('latin-1') if ents else None
        for nm, c0 in TREE.items():
            now = open(os.path.join(d, 'in', *nm.split('/')), 'rb').read()
            hs = P['size']
            damaged = (now != c0) if tool == 'whole' else (now[:hs] != c0[:hs])
            lost = fd == 'size' and nm == victim
            if nm in case['list'] and damaged and not lost:
                want = c0 if tool == 'whole' else c0[:hs] + now[hs:]
                if res['out_bytes'].get(nm) != want:
                    why.append('listed file %r damaged within capacity is not repaired' % nm)
            elif nm in res['out_bytes']:
                why.append('output written for %r (%s)' % (nm, 'not in the list' if nm not in case['list'] else 'undamaged'))
        if crashed or (res['rc'] != 0):
            why.append('exit %r' % (res['rc'],))
        return {'holds': not why, 'why': why, 'agree': agree, 'model': model, 'implementation': impl}
    finally:
        shutil.rmtree(d, ignore_errors=True)


def stream(ctx):
    S.enable_fast_tables()
    for case in cases(ctx.rng, ctx.tier == 'quick'):
        r = exec_case(ctx, case)
        ctx.evaluations += 1
        ctx.count('selrun tool=%s listed=%d' % (case['tool'], len(case['list'])))
        if r['implementation']['outs']:
            ctx.nontriv(('selrun', case['tool'], tuple(case['list']), repr(sorted(case['in_damage'])), case.get('fielddmg')))
        if not r['agree']:
            ctx.disagree(case, r['model'], r['implementation'], what='restricted run (-e): model of coq/Select.v vs the tool')
        if not r['holds']:
            ctx.fail(case, {'why': r['why'], 'implementation': r['implementation']})
        elif r['agree']:
            ctx.traces += 1


def replay(ctx, case):
    S.enable_fast_tables()
    return exec_case(ctx, case)
