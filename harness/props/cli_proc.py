# cli_proc.py — the tools as a user runs them: `python -m pyFileFixity.pff <subcommand> ...` in a PROCESS of its own, console output
# on, log file given with -l (the form the README's own examples use).  Everything else in the harness calls main() in-process with
# --silent; the exit STATUS OF THE PROCESS (what a shell script or a scheduler tests) is only visible here: it also depends on what
# happens at interpreter shutdown (flushing of the replaced sys.stdout / sys.stderr).
# One scenario per property that has an "exits 0 / exits non-zero" clause: C03 (undamaged tree), C01 (damage within capacity),
# C05 (hash audit), C18 (replica repair with a database).  Property predicate only; the models do not cover process shutdown.
import os, shutil, subprocess, sys, tempfile
import common


def pff(argv, cwd):
    env = dict(os.environ, PYTHONPATH=common.REPO, PYTHONDONTWRITEBYTECODE='1', PYTHONHASHSEED='0')
    try:
        p = subprocess.run([sys.executable, '-m', 'pyFileFixity.pff'] + list(argv), cwd=cwd, env=env, capture_output=True, timeout=600)
        return p.returncode, (p.stdout + p.stderr).decode('utf-8', 'replace')[-600:]
    except subprocess.TimeoutExpired:
        return 'TIMEOUT', ''


def write_tree(root, files):
    for rel, c in files.items():
        p = os.path.join(root, *rel.split('/'))
        os.makedirs(os.path.dirname(p), exist_ok=True)
        with open(p, 'wb') as f:
            f.write(c)


def read_tree(root):
    out = {}
    for r, _, fs in os.walk(root):
        for f in fs:
            p = os.path.join(r, f)
            out[os.path.relpath(p, root).replace(os.sep, '/')] = open(p, 'rb').read()
    return out


FILES = {'a.bin': bytes((i * 7 + 3) % 251 for i in range(700)), 'sub/b.txt': b'hello world\n' * 20, 'e': b''}
ECC = {'header': ['--max_block_size', '40', '-s', '200', '-r', '0.3'],
       'whole': ['--max_block_size', '40', '-s', '200', '-r1', '0.3', '-r2', '0.2', '-r3', '0.1']}


ALIASES = [('hash', 'rfigc'), ('header', 'header_ecc', 'hecc'), ('whole', 'structural_adaptive_ecc', 'saecc', 'protect', 'repair'),
           ('recover', 'repair_ecc', 'recc'), ('dup', 'replication_repair'), ('restest', 'resilience_tester'), ('speedtest', 'ecc_speedtest')]


def scenario(name):
    """-> list of problems (empty = holds).  name: 'C03-header', 'C03-whole', 'C01-header', 'C01-whole', 'C05', 'C18', 'C15',
    'C01-<tool>-efile', '-efile1', '-efilepath' (correction restricted by an --errors_file), 'C01-<tool>-dbname', 'C0x-<tool>-sibling',
    any of these with '@<alias>' (the subcommand typed), 'C16', 'C17', 'C19', 'C20' (the last five also go through command aliases: hecc, recc, rfigc, resilience_tester)."""
    d = tempfile.mkdtemp(prefix='pffcli')
    bad = []
    name, _, alias = name.partition('@')
    group = next((g for g in ALIASES if alias in g), ())
    pff = lambda argv, cwd, _p=globals()['pff']: _p([alias if argv[0] in group else argv[0]] + list(argv[1:]), cwd)   # noqa: E731
    try:
        write_tree(d + '/in', FILES)
        if name.startswith(('C03', 'C01', 'C09')):
            # name = C0x-<tool>[-variant][@alias]; the alias is the subcommand typed (every alias must reach the same tool)
            parts = name.split('-')
            tool = parts[1]
            variant = parts[2] if len(parts) > 2 else ''
            cmd = tool
            files = dict(FILES)
            inp, db = 'in', 'ecc.db'
            if variant == 'dbname':
                # the ecc file is a SIBLING of the input folder named after it (-i T/archive -d T/archive.ecc) and the tree holds files
                # that are called like the ecc file and its index: they are ordinary protected files
                shutil.rmtree(d + '/in')
                inp, db = 'T/archive', 'T/archive.ecc'
                files.update({'old/archive.ecc': bytes((i * 5 + 1) % 253 for i in range(400)), 'old/archive.ecc.idx': b'index of an older run\n' * 12})
                write_tree(d + '/' + inp, files)
            if variant == 'sizememo':
                # two files whose recorded sizes differ in one digit (700 and 710): the later entry's size field will be damaged into the
                # digits of the earlier one's
                files.update({'b2.bin': bytes((i * 5 + 2) % 256 for i in range(710))})
                write_tree(d + '/' + inp, files)
            if variant == 'bigheader':
                # header tool with --size above 65535 on a longer file: the protected region is the first --size bytes, all of them
                files.update({'big.bin': bytes((i * 131 + i // 7) % 256 for i in range(72000))})
                write_tree(d + '/' + inp, files)
            if variant == 'sibling':
                # two files of the same size whose names differ in one bit ('1' = 0x31, '3' = 0x33)
                files.update({'frames/f1.raw': bytes((i * 3) % 256 for i in range(300)), 'frames/f3.raw': bytes((i * 11 + 7) % 256 for i in range(300))})
                write_tree(d + '/' + inp, files)
            gextra = []
            if variant == 'skipext':
                # --skip_size_below with --always_include_ext: a compound extension, a name that is only an extension, two paths that
                # differ by letter case only (one below the threshold), a '%' in a name: each protected file is repaired
                files.update({'backup/bundle.tar.gz': bytes((i * 13) % 256 for i in range(40)), '.txt': b'just an extension\n',
                              'docs/report.dat': b'tiny', 'docs/Report.dat': bytes((i * 3 + 1) % 256 for i in range(260)),
                              '50%done.dat': bytes((i * 9 + 2) % 256 for i in range(230))})
                write_tree(d + '/' + inp, files)
                gextra = ['--skip_size_below', '100', '--always_include_ext', 'tar.gz|txt']
            ecc_opts = ['--max_block_size', '255', '-s', '70000', '-r', '0.3'] if variant == 'bigheader' else ECC[tool]
            if variant == 'smallsize':
                # a --size below the length of one stage-1 message (159 bytes at these rates): generation and correction must still agree
                ecc_opts = ['--max_block_size', '255', '-s', '100'] + (['-r', '0.3'] if tool == 'header' else ['-r1', '0.3', '-r2', '0.2', '-r3', '0.1'])
            rc, out = pff([cmd, '-i', inp, '-d', db, '-g', '-f', '-l', 'gen.log'] + ecc_opts + gextra, d)
            if rc != 0:
                bad.append({'step': 'generate with -l', 'exit': rc, 'tail': out[-300:]})
            if 'efile' in variant:
                pff(['hash', '-i', 'in', '-d', 'db.csv', '-g', '-f', '--silent'], d)
            outd = 'in_fixed' if variant == 'prefixout' else 'out'      # prefixout: the output path STARTS WITH the input path (as a string)
            if variant == 'symout':
                # the output folder is reached through a symbolic link (a mounted volume, a link on the desktop)
                os.mkdir(d + '/real_out')
                os.symlink('real_out', d + '/' + outd)
            else:
                os.mkdir(d + '/' + outd)
            if variant == 'prefill':
                # the output folder is not empty: an earlier, worse attempt left files of the right size there
                write_tree(d + '/out', {'a.bin': bytes(len(files['a.bin'])), 'sub/b.txt': b'?' * len(files['sub/b.txt'])})
            want_out = {}
            if name.startswith('C01'):
                victims = ('a.bin', 'sub/b.txt') + (('old/archive.ecc', 'old/archive.ecc.idx') if variant == 'dbname' else ())
                if variant == 'skipext':
                    victims += ('backup/bundle.tar.gz', '.txt', 'docs/Report.dat', '50%done.dat')
                for rel in victims:
                    b = bytearray(files[rel])
                    # one wrong byte every 29 bytes of the protected region (header tool: the first 200 bytes; whole tool: the whole
                    # file, so that a subcommand reaching the header tool instead is seen)
                    hs_ = int(ecc_opts[ecc_opts.index('-s') + 1])
                    for i in range(0, min(len(b), hs_) if tool == 'header' else len(b), 29):
                        b[i] ^= 0x41
                    open(os.path.join(d, inp, *rel.split('/')), 'wb').write(bytes(b))
                    want_out[rel] = files[rel] if tool == 'whole' else files[rel][:hs_] + bytes(b)[hs_:]
            if variant in ('efilepath', 'sibling', 'pathskip'):
                # damage the PATH FIELD of one entry within the capacity of its intra-ecc (one symbol)
                victim, repl = (b'sub/b.txt', b'sub/b.tyt') if variant in ('efilepath', 'pathskip') else (b'frames/f1.raw', b'frames/f3.raw')
                data = open(d + '/' + db, 'rb').read()
                i = data.find(victim)
                if i < 0 or data.find(victim, i + 1) >= 0:
                    bad.append({'step': 'harness: locate the path field', 'occurrences': data.count(victim)})
                else:
                    open(d + '/' + db, 'wb').write(data[:i] + repl + data[i + len(victim):])
            if variant == 'sizememo':
                data = open(d + '/' + db, 'rb').read()
                i = data.find(b'b2.bin')
                j = data.find(b'710', i)
                if i < 0 or j < 0 or j - i > 20:
                    bad.append({'step': 'harness: locate the size field of b2.bin'})
                else:
                    open(d + '/' + db, 'wb').write(data[:j] + b'700' + data[j + 3:])
                if name.startswith('C01'):
                    b = bytearray(files['b2.bin']); b[3] ^= 0x41
                    open(d + '/in/b2.bin', 'wb').write(bytes(b))
                    want_out['b2.bin'] = files['b2.bin']
            if variant == 'bigheader':
                b = bytearray(files['big.bin'])
                for i in (5, 67900, 67901, 67902):
                    b[i] ^= 0x41
                open(d + '/in/big.bin', 'wb').write(bytes(b))
                want_out = {k: (v if k != 'a.bin' else v) for k, v in want_out.items()}
                want_out['big.bin'] = files['big.bin'][:70000] + bytes(b)[70000:]
            if variant == 'sibling' and name.startswith('C01'):
                b = bytearray(files['frames/f1.raw'])
                for i in range(0, 200 if tool == 'header' else len(b), 29):
                    b[i] ^= 0x41
                open(d + '/in/frames/f1.raw', 'wb').write(bytes(b))
                want_out['frames/f1.raw'] = files['frames/f1.raw'] if tool == 'whole' else files['frames/f1.raw'][:200] + bytes(b)[200:]
            extra = []
            if variant in ('efile', 'efile1', 'efilepath'):
                # the documented two-step workflow: `pff hash -e` writes the list of failing files (in another directory than the
                # current one), correction is restricted to it with -e.  -efile1: a hand-made list naming one of the two damaged files
                # -> only that one is repaired (the other is skipped, not a failure).  -efilepath: the path field of a listed file's
                # entry carries one wrong symbol (the intra-ecc restores it; the file is still found in the list and repaired)
                os.mkdir(d + '/lists')
                if variant != 'efile1':
                    rch, outh = pff(['hash', '-i', 'in', '-d', 'db.csv', '-e', 'lists/err.csv', '--silent'], d)
                    if rch in (0, 'TIMEOUT'):
                        bad.append({'step': 'hash check of the damaged tree', 'exit': rch, 'expected': 'non-zero', 'tail': outh[-300:]})
                else:
                    open(d + '/lists/err.csv', 'w').write('a.bin|listed by hand\n')
                    want_out = {'a.bin': want_out['a.bin']}
                extra = ['-e', 'lists/err.csv']
            if variant == 'hashdmg':
                # the STORED HASH of the first block of a.bin damaged too (one character), parity intact, --no_fast_check: the decoder's
                # answer is a codeword of the stored parity, the block is within capacity — repaired all the same
                import hashlib
                hx_ = hashlib.md5(files['a.bin'][:25]).hexdigest().encode()
                data = open(d + '/' + db, 'rb').read()
                i = data.find(hx_)
                if i < 0:
                    bad.append({'step': 'harness: locate the stored hash of block 0'})
                else:
                    n_ = 1 if tool == 'header' else 20      # one character (header run) / most of the 32 characters (whole run)
                    open(d + '/' + db, 'wb').write(data[:i] + bytes((b'0' if data[i + j:i + j + 1] != b'0' else b'1')[0] for j in range(n_)) + data[i + n_:])
                extra = ['--no_fast_check']
            if variant == 'pathskip':
                extra = ['--skip_missing']      # every file is there: the option must change nothing, whatever the state of a path field
            rc, out = pff([cmd, '-i', inp, '-d', db, '-c', '-o', outd, '-l', 'corr.log'] + extra + ecc_opts, d)
            if rc != 0:
                bad.append({'step': 'correct with -l' + (' and -e' if extra else ''), 'exit': rc, 'expected': 0, 'tail': out[-300:]})
            got = read_tree(d + '/' + outd)
            if got != want_out:
                bad.append({'step': 'output folder', 'got': sorted(got), 'expected': sorted(want_out),
                            'differing': [k for k in want_out if got.get(k) != want_out[k]]})
        elif name == 'C05':
            rc, out = pff(['hash', '-i', 'in', '-d', 'db.csv', '-g', '-f', '-l', 'gen.log'], d)
            if rc != 0:
                bad.append({'step': 'hash -g with -l', 'exit': rc, 'expected': 0, 'tail': out[-300:]})
            rc, out = pff(['hash', '-i', 'in', '-d', 'db.csv', '-l', 'chk.log', '-e', 'err.csv'], d)
            if rc != 0:
                bad.append({'step': 'check of the unchanged tree with -l', 'exit': rc, 'expected': 0, 'tail': out[-300:]})
            st = os.stat(d + '/in/a.bin')
            b = bytearray(FILES['a.bin']); b[10] ^= 1
            open(d + '/in/a.bin', 'wb').write(bytes(b))
            os.utime(d + '/in/a.bin', ns=(st.st_atime_ns, st.st_mtime_ns))
            rc, out = pff(['hash', '-i', 'in', '-d', 'db.csv', '-l', 'chk2.log', '-e', 'err2.csv'], d)
            if rc in (0, 'TIMEOUT'):
                bad.append({'step': 'check after a bit flip with -l', 'exit': rc, 'expected': 'non-zero', 'tail': out[-300:]})
        elif name.split('-')[0] == 'C18':
            variant = name[4:]
            # prefixdirs: replica and output folders whose names are string prefixes of one another; prefill: a used output folder
            reps, outd = (['rep', 'rep2', 'rep22'], 'rep_out') if variant == 'prefixdirs' else (['r1', 'r2', 'r3'], 'out')
            rc, out = pff(['hash', '-i', 'in', '-d', 'db.csv', '-g', '-f', '--silent'], d)
            for r in reps:
                shutil.copytree(d + '/in', d + '/' + r, copy_function=shutil.copy2)
            b = bytearray(FILES['a.bin']); b[5] ^= 0xff
            open(d + '/' + reps[0] + '/a.bin', 'wb').write(bytes(b))
            if variant == 'prefill':
                write_tree(d + '/out', {'a.bin': bytes(b), 'sub/b.txt': b'?' * len(FILES['sub/b.txt'])})
            want_tree = dict(FILES)
            if variant == 'grown':
                # a journal that grew in EVERY replica after the database was written (stale row): the vote still yields the bytes the
                # replicas agree on, all of them; the stale row makes the status non-zero, it must not shorten the file
                for k_, r in enumerate(reps):
                    g = bytearray(FILES['sub/b.txt'] + b'appended later\n' * 20)
                    g[10 + 50 * k_] ^= 0x20
                    open(d + '/' + r + '/sub/b.txt', 'wb').write(bytes(g))
                want_tree['sub/b.txt'] = FILES['sub/b.txt'] + b'appended later\n' * 20
            rc, out = pff(['dup', '-i'] + reps + ['-o', outd, '-d', 'db.csv', '-r', 'rep.csv', '-f', '-l', 'dup.log'], d)
            got = read_tree(d + '/' + outd) if os.path.isdir(d + '/' + outd) else {}
            if got != want_tree:
                bad.append({'step': 'dup output', 'differing': [k for k in want_tree if got.get(k) != want_tree[k]]})
            if variant == 'grown':
                if rc == 0:
                    bad.append({'step': 'dup with a stale database row: the output does not match the recorded hashes', 'exit': rc, 'expected': 'non-zero'})
            elif rc != 0:
                bad.append({'step': 'dup with database, report and -l: every path restored and hash-correct', 'exit': rc, 'expected': 0, 'tail': out[-300:]})
        elif name.split('-')[0] == 'C15':
            # `pff recc` (alias of recover): every marker of the header ecc file overwritten, index intact -> identical to the pristine file
            rc, out = pff(['hecc', '-i', 'in', '-d', 'ecc.db', '-g', '-f', '-l', 'gen.log'] + ECC['header'], d)
            pristine = open(d + '/ecc.db', 'rb').read()
            dam = bytearray(pristine)
            n_mk = 0
            for pat in (b'\xfe\xff' * 5, b'\xfa\xff\xfa\xff\xfa'):
                pos = dam.find(pat)
                while pos >= 0:
                    for i in range(len(pat)):
                        dam[pos + i] = 0x41 + (i % 7)
                    n_mk += 1
                    pos = dam.find(pat, pos + len(pat))
            open(d + '/dam.db', 'wb').write(bytes(dam))
            if name == 'C15-badrecord':
                # one index record (the fourth of many, 27 bytes each) damaged beyond the capacity of its own ecc: it is skipped, the
                # records after it still apply — at most the one marker it described stays overwritten
                idx = bytearray(open(d + '/ecc.db.idx', 'rb').read())
                for i in range(3 * 27, 3 * 27 + 14):
                    idx[i] ^= 0x5a
                open(d + '/ecc.db.idx', 'wb').write(bytes(idx))
            rc, out = pff(['recc', '-i', 'dam.db', '--index', 'ecc.db.idx', '-o', 'rec.db', '-t', '0', '-f', '-l', 'rec.log'], d)
            got = open(d + '/rec.db', 'rb').read() if os.path.exists(d + '/rec.db') else None
            if name == 'C15-badrecord':
                nd = None if got is None else sum(1 for x, y in zip(got, pristine) if x != y) + abs(len(got) - len(pristine))
                if nd is None or nd > 10:
                    bad.append({'step': 'pff recc --index -t 0, one index record of %d destroyed' % (len(idx) // 27), 'exit': rc,
                                'differing_bytes': nd, 'expected': 'at most one marker (10 bytes) left overwritten', 'tail': out[-200:]})
            elif got != pristine:
                bad.append({'step': 'pff recc --index -t 0 after overwriting %d markers' % n_mk, 'exit': rc, 'identical_to_pristine': False,
                            'differing_bytes': None if got is None else sum(1 for x, y in zip(got, pristine) if x != y) + abs(len(got) - len(pristine)), 'tail': out[-200:]})
        elif name == 'C19':
            before = read_tree(d + '/in')
            rc, out = pff(['filetamper', '-i', 'in', '-m', 'e', '-p', '0', '-l', 't.log'], d)
            if read_tree(d + '/in') != before:
                bad.append({'step': 'filetamper -p 0 changed a file', 'exit': rc})
            rc, out = pff(['filetamper', '-i', 'in/a.bin', '-m', 'e', '-p', '0.3', '--header', '100', '-l', 't2.log'], d)
            after = read_tree(d + '/in')
            a0, a1 = before['a.bin'], after.get('a.bin', b'')
            if len(a1) != len(a0) or a1[100:] != a0[100:] or any(y != x and y != 0 for x, y in zip(a0, a1)) or \
                    any(after.get(k) != v for k, v in before.items() if k != 'a.bin'):
                bad.append({'step': 'filetamper on a single file, erasure mode, --header 100', 'exit': rc, 'length': [len(a0), len(a1)],
                            'changed_beyond_header': a1[100:] != a0[100:], 'tail': out[-200:]})
        elif name.split('-')[0] == 'C16':
            rc, out = pff(['rfigc', '-i', 'in', '-d', 'db.csv', '-g', '-f', '-l', 'g.log'], d)
            if name == 'C16-relsingle':
                # a new top-level file appended through a single-file input given as a RELATIVE path from the parent of the tree: the
                # launch directory must not leak into the recorded path — the database then equals a fresh generation at once
                write_tree(d + '/in', {'top.bin': b'\x00\x01'})
                rc, out = pff(['hash', '-i', 'in/top.bin', '-d', 'db.csv', '-u', '-a', '-l', 'u.log'], d)
            else:
                os.remove(d + '/in/sub/b.txt')
                write_tree(d + '/in', {'new/n.txt': b'new file', 'top.bin': b'\x00\x01'})
                rc, out = pff(['hash', '-i', 'in', '-d', 'db.csv', '-u', '-a', '-r', '-l', 'u.log'], d)
            rc2, out2 = pff(['hash', '-i', 'in', '-d', 'fresh.csv', '-g', '-f', '--silent'], d)

            def rows(pth):
                import csv
                with open(pth, newline='') as f:
                    return sorted(tuple(x for i, x in enumerate(r) if i != 3) for r in csv.reader(f, delimiter='|') if r and r[0] != 'path')   # all but the date column
            try:
                ru, rf = rows(d + '/db.csv'), rows(d + '/fresh.csv')
            except Exception as e:
                ru, rf = repr(e), None
            if ru != rf or rc != 0:
                bad.append({'step': 'hash -u -a -r after one deletion and two additions vs a fresh generation', 'exit': rc, 'updated_rows': str(ru)[:300], 'fresh_rows': str(rf)[:300]})
        elif name == 'C17':
            rc, out = pff(['hash', '-i', 'in', '-d', 'db.csv', '-g', '-f', '--silent'], d)
            os.makedirs(d + '/scr/x')
            for i, (rel, c) in enumerate(sorted(FILES.items())):
                if c:
                    open(d + '/scr/x/f%d.chk' % i, 'wb').write(c)
            open(d + '/scr/unknown.bin', 'wb').write(b'unknown content')
            os.mkdir(d + '/rec')
            rc, out = pff(['hash', '-i', 'scr', '-d', 'db.csv', '--filescraping_recovery', '-o', 'rec', '-l', 'r.log'], d)
            got = read_tree(d + '/rec')
            want = {k: v for k, v in FILES.items() if v}
            if {k: v for k, v in got.items() if v} != want or any(k not in FILES for k in got):
                bad.append({'step': 'filescraping recovery', 'exit': rc, 'got': sorted(got), 'expected': sorted(want), 'tail': out[-200:]})
        elif name == 'C20':
            os.makedirs(d + '/fin')
            write_tree(d + '/fin', FILES)
            open(d + '/tamper.sh', 'w').write('for f in $(find "$1" -type f); do printf Q >> "$f"; done\n')
            for label, final in (('identical', FILES), ('one byte differs', dict(FILES, **{'a.bin': FILES['a.bin'][:-1] + b'\x00'}))):
                shutil.rmtree(d + '/fin'); write_tree(d + '/fin', final)
                open(d + '/repair.sh', 'w').write('cp -r "%s"/fin/. "$2"/\n' % d)
                open(d + '/cfg', 'w').write('before_tamper:\n    true\ntamper:\n    sh %s/tamper.sh "{inputdir}"\nafter_tamper:\n    true\nrepair:\n    sh %s/repair.sh "{inputdir}" "{outputdir}"\n' % (d, d))
                rc, out = pff(['resilience_tester', '-i', 'in', '-o', 'rt_out', '-c', 'cfg', '-f', '-l', 'rt.log'], d)
                if (rc == 0) != (label == 'identical'):
                    bad.append({'step': 'restest, final tree ' + label, 'exit': rc, 'expected': '0 iff identical', 'tail': out[-300:]})
    finally:
        shutil.rmtree(d, ignore_errors=True)
    return bad


def stream(ctx, names):
    import concurrent.futures
    with concurrent.futures.ThreadPoolExecutor(max_workers=6) as ex:      # the scenarios are separate processes in separate folders
        results = list(ex.map(scenario, names))
    for nm, bad in zip(names, results):
        case = {'kind': 'cli-process', 'scenario': nm}
        ctx.evaluations += 1
        ctx.count('cli_process_scenarios')
        ctx.nontriv(('cli-process', nm))
        if bad:
            ctx.fail(case, {'what': 'the tool run as a process (console on, -l log): exit status / outputs', 'problems': bad})
        else:
            ctx.traces += 1


def replay(case):
    bad = scenario(case['scenario'])
    return {'holds': not bad, 'problems': bad}
