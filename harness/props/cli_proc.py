# cli_proc.py — the tools as a user runs them: `python -m pyFileFixity.pff <subcommand> ...` in a PROCESS of its own, console output
# on, log file given with -l (the form the README's own examples use).  Everything else in the harness calls main() in-process with
# --silent; the exit STATUS OF THE PROCESS (what a shell script or a scheduler tests) is only visible here: it also depends on what
# happens at interpreter shutdown (flushing of the replaced sys.stdout / sys.stderr).
# One scenario per property that has an "exits 0 / exits non-zero" clause: C03 (undamaged tree), C01 (damage within capacity),
# C05 (hash audit), C18 (replica repair with a database).  Property predicate only; the models do not cover process shutdown.
import os, shutil, subprocess, sys, tempfile
import common


def pff(argv, cwd):
    env = dict(os.environ, PYTHONPATH=common.REPO, PYTHONDONTWRITEBYTECODE='1', PYTHONHASHSEED='0')
    try:
        p = subprocess.run([sys.executable, '-m', 'pyFileFixity.pff'] + list(argv), cwd=cwd, env=env, capture_output=True, timeout=600)
        return p.returncode, (p.stdout + p.stderr).decode('utf-8', 'replace')[-600:]
    except subprocess.TimeoutExpired:
        return 'TIMEOUT', ''


def write_tree(root, files):
    for rel, c in files.items():
        p = os.path.join(root, *rel.split('/'))
        os.makedirs(os.path.dirname(p), exist_ok=True)
        with open(p, 'wb') as f:
            f.write(c)


def read_tree(root):
    out = {}
    for r, _, fs in os.walk(root):
        for f in fs:
            p = os.path.join(r, f)
            out[os.path.relpath(p, root).replace(os.sep, '/')] = open(p, 'rb').read()
    return out


FILES = {'a.bin': bytes((i * 7 + 3) % 251 for i in range(700)), 'sub/b.txt': b'hello world\n' * 20, 'e': b''}
ECC = {'header': ['--max_block_size', '40', '-s', '200', '-r', '0.3'],
       'whole': ['--max_block_size', '40', '-s', '200', '-r1', '0.3', '-r2', '0.2', '-r3', '0.1']}


def scenario(name):
    """-> list of problems (empty = holds).  name: 'C03-header', 'C03-whole', 'C01-header', 'C01-whole', 'C05', 'C18'."""
    d = tempfile.mkdtemp(prefix='pffcli')
    bad = []
    try:
        write_tree(d + '/in', FILES)
        if name.startswith(('C03', 'C01')):
            tool = name.split('-')[1]
            rc, out = pff([tool, '-i', 'in', '-d', 'ecc.db', '-g', '-f', '-l', 'gen.log'] + ECC[tool], d)
            if rc != 0:
                bad.append({'step': 'generate with -l', 'exit': rc, 'tail': out[-300:]})
            os.mkdir(d + '/out')
            want_out = {}
            if name.startswith('C01'):
                for rel in ('a.bin', 'sub/b.txt'):
                    b = bytearray(FILES[rel])
                    for i in range(0, min(len(b), 200), 29):     # one wrong byte per block of the protected region
                        b[i] ^= 0x41
                    open(os.path.join(d, 'in', *rel.split('/')), 'wb').write(bytes(b))
                    want_out[rel] = FILES[rel] if tool == 'whole' else FILES[rel][:200] + bytes(b)[200:]
            rc, out = pff([tool, '-i', 'in', '-d', 'ecc.db', '-c', '-o', 'out', '-l', 'corr.log'] + ECC[tool], d)
            if rc != 0:
                bad.append({'step': 'correct with -l', 'exit': rc, 'expected': 0, 'tail': out[-300:]})
            got = read_tree(d + '/out')
            if got != want_out:
                bad.append({'step': 'output folder', 'got': sorted(got), 'expected': sorted(want_out),
                            'differing': [k for k in want_out if got.get(k) != want_out[k]]})
        elif name == 'C05':
            rc, out = pff(['hash', '-i', 'in', '-d', 'db.csv', '-g', '-f', '-l', 'gen.log'], d)
            if rc != 0:
                bad.append({'step': 'hash -g with -l', 'exit': rc, 'expected': 0, 'tail': out[-300:]})
            rc, out = pff(['hash', '-i', 'in', '-d', 'db.csv', '-l', 'chk.log', '-e', 'err.csv'], d)
            if rc != 0:
                bad.append({'step': 'check of the unchanged tree with -l', 'exit': rc, 'expected': 0, 'tail': out[-300:]})
            st = os.stat(d + '/in/a.bin')
            b = bytearray(FILES['a.bin']); b[10] ^= 1
            open(d + '/in/a.bin', 'wb').write(bytes(b))
            os.utime(d + '/in/a.bin', ns=(st.st_atime_ns, st.st_mtime_ns))
            rc, out = pff(['hash', '-i', 'in', '-d', 'db.csv', '-l', 'chk2.log', '-e', 'err2.csv'], d)
            if rc in (0, 'TIMEOUT'):
                bad.append({'step': 'check after a bit flip with -l', 'exit': rc, 'expected': 'non-zero', 'tail': out[-300:]})
        elif name == 'C18':
            rc, out = pff(['hash', '-i', 'in', '-d', 'db.csv', '-g', '-f', '--silent'], d)
            for i in (1, 2, 3):
                shutil.copytree(d + '/in', d + '/r%d' % i, copy_function=shutil.copy2)
            b = bytearray(FILES['a.bin']); b[5] ^= 0xff
            open(d + '/r1/a.bin', 'wb').write(bytes(b))
            rc, out = pff(['dup', '-i', 'r1', 'r2', 'r3', '-o', 'out', '-d', 'db.csv', '-r', 'rep.csv', '-f', '-l', 'dup.log'], d)
            got = read_tree(d + '/out') if os.path.isdir(d + '/out') else {}
            if got != FILES:
                bad.append({'step': 'dup output', 'differing': [k for k in FILES if got.get(k) != FILES[k]]})
            if rc != 0:
                bad.append({'step': 'dup with database, report and -l: every path restored and hash-correct', 'exit': rc, 'expected': 0, 'tail': out[-300:]})
    finally:
        shutil.rmtree(d, ignore_errors=True)
    return bad


def stream(ctx, names):
    for nm in names:
        case = {'kind': 'cli-process', 'scenario': nm}
        bad = scenario(nm)
        ctx.evaluations += 1
        ctx.count('cli_process_scenarios')
        ctx.nontriv(('cli-process', nm))
        if bad:
            ctx.fail(case, {'what': 'the tool run as a process (console on, -l log): exit status / outputs', 'problems': bad})
        else:
            ctx.traces += 1


def replay(case):
    bad = scenario(case['scenario'])
    return {'holds': not bad, 'problems': bad}
