# hashchk_lib.py — shared by props/C05.py and props/C17.py: real temp trees, real rfigc.main runs,
# parsing of the database / errors csv / log, and the request lines for the extracted HashChk model.
import csv, hashlib, io, json, os, random, re, shutil, sys, tempfile
from common import hx, hxl

UNIT = 1 << 24          # model mtimes are integers in units of 2^-24 s


class HarnessError(Exception):
    pass


def units(t):
    """float seconds -> exact integer number of 2^-24 s (every float in [2^28, 2^53) is one)."""
    v = t * UNIT
    if v != int(v):
        raise HarnessError('mtime %r not representable in 2^-24 s units' % (t,))
    return int(v)


# ---------------------------------------------------------------- names
ASCII_PLAIN = 'abcdefghijklmnopqrstuvwxyzABCXYZ0123456789'
ASCII_META = ' |"\',;.-_()&%#\\*?:<>~!$`=+[]{}^@'
NON_ASCII = 'éüñßøúÿþжЯ中日ﬁ🙂αλ'
FIXED_NAMES = ['a.txt', 'b', '|', '"', '""', ' lead.txt', 'trail ', ' ', 'a|b"c.txt', '"q".csv', 'x|y', 'é ü.dat',
               'back\\slash.t', '..hid.e', '.hidden', 'z.', 'a..b', '...x', 'último.txt', 'ÿþ.bin', '中文.txt', '🙂.jpg',
               '123', '1e5', '-g', '--silent', 'path', "it's", 'a,b;c', '#c', '~t', 'UPPER.TXT', 'tab_less name.tar.gz',
               'x' * 120 + '.long', 'é' * 100, '\\', '\\\\', '%s', '{0}', '$HOME', '*', '?', 'a:b', 'a: b', 'f: x.',
               # canonically equivalent but distinct names (decomposed / precomposed): different files on a posix file system
               're\u0301sume\u0301.dat', 'r\xe9sum\xe9.dat', 'A\u030angstro\u0308m', 'n\u0303', '\xf1', 'e\u0301']


def ok_name(n):
    return (n not in ('', '.', '..') and '/' not in n and '\x00' not in n and n.isprintable()
            and len(n.encode('utf-8')) <= 200)


def rand_name(rng):
    r = rng.random()
    if r < 0.35:
        n = rng.choice(FIXED_NAMES)
    else:
        k = rng.choice([1, 1, 2, 3, 5, 8, 14])
        pool = rng.choice([ASCII_PLAIN, ASCII_PLAIN + ASCII_META, ASCII_META, NON_ASCII + ASCII_PLAIN,
                           NON_ASCII + ASCII_META + ASCII_PLAIN])
        n = ''.join(rng.choice(pool) for _ in range(k))
        if rng.random() < 0.5:
            n += rng.choice(['.txt', '.jpg', '.', '.tar.gz', '.é', '.|', '. x'])
    return n if ok_name(n) else 'n%d' % rng.randrange(1000)


def rand_relpaths(rng, n, maxdepth=3):
    """n distinct relative file paths forming a legal tree (no path is a prefix directory of another file)."""
    dirs = [()]
    for _ in range(rng.choice([0, 0, 1, 2, 4])):
        parent = rng.choice(dirs)
        if len(parent) < maxdepth:
            d = parent + (rand_name(rng),)
            if d not in dirs:
                dirs.append(d)
    files, used = [], set(dirs)
    tries = 0
    while len(files) < n and tries < 10 * n + 20:
        tries += 1
        d = rng.choice(dirs)
        if files and rng.random() < 0.25:      # same basename at another depth (single-file filter corner)
            nm = rng.choice(files)[-1]
        else:
            nm = rand_name(rng)
        p = d + (nm,)
        if p in used:
            continue
        used.add(p)
        files.append(p)
    return ['/'.join(p) for p in files]


def walk_key(rel):
    """order of aux_funcs.recwalk: in each directory the files (sorted), then the sub-directories (sorted)."""
    parts = rel.split('/')
    return tuple([(1, d) for d in parts[:-1]] + [(0, parts[-1])])


# ---------------------------------------------------------------- contents
def content(spec):
    if spec[0] == 'r':
        return random.Random(spec[1]).randbytes(spec[2])
    if spec[0] == 'h':
        return bytes.fromhex(spec[1])
    if spec[0] == 'z':      # long runs of one byte value
        return bytes([spec[1]]) * spec[2]
    raise HarnessError('bad content spec %r' % (spec,))


def digests(b):
    return hashlib.md5(b).hexdigest(), hashlib.sha1(b).hexdigest()


# ---------------------------------------------------------------- trees on disk
def build_tree(root, files):
    """files: [[rel, content spec, mtime_ns], ...]"""
    os.makedirs(root, exist_ok=True)
    for rel, spec, mt in files:
        p = os.path.join(root, rel)
        os.makedirs(os.path.dirname(p), exist_ok=True)
        with open(p, 'wb') as f:
            f.write(content(spec))
        if mt is not None:
            os.utime(p, ns=(mt, mt))


def scan_tree(root):
    """rel -> (bytes, st_mtime float) for every regular file, read independently of the code under test."""
    out = {}

    def rec(d, prefix):
        with os.scandir(d) as it:
            ents = list(it)
        for e in ents:
            rel = prefix + e.name
            if e.is_dir(follow_symlinks=False):
                rec(e.path, rel + '/')
            elif e.is_file(follow_symlinks=False):
                with open(e.path, 'rb') as f:
                    data = f.read()
                out[rel] = (data, os.stat(e.path).st_mtime)
    if os.path.isdir(root):
        rec(root, '')
    return out


# ---------------------------------------------------------------- running the tool
def run_rfigc(args, cwd):
    """One `pff hash` run in its own cwd.  Returns ('RET', value) | ('EXIT', code) | ('EXC', repr)."""
    from pyFileFixity import rfigc
    old = (sys.stdout, sys.stderr, os.getcwd())
    os.makedirs(cwd, exist_ok=True)
    os.chdir(cwd)
    try:
        try:
            r = rfigc.main(list(args))
            res = ('RET', r if isinstance(r, (bool, int)) else repr(r))
        except SystemExit as e:
            res = ('EXIT', e.code if isinstance(e.code, (int, type(None))) else repr(e.code))
        except Exception as e:
            res = ('EXC', repr(e))
    finally:
        sys.stdout, sys.stderr = old[0], old[1]
        os.chdir(old[2])
    return res


def exit_nonzero(res):
    """would the process `pff hash ...` exit non-zero?  pff.py ends with sys.exit(main(...)): None -> 0, an int -> its low
    8 bits (so a return value of 256 is exit status 0), anything else -> 1"""
    if res[0] == 'RET':
        r = res[1]
        if r is None:
            return False
        if isinstance(r, (bool, int)):
            return (int(r) & 0xFF) != 0
        return True
    if res[0] == 'EXIT':
        return res[1] not in (0, None)
    return True


def read_db(path):
    """rows of the database csv exactly as the tool's own reader settings give them."""
    rows = []
    with open(path, 'r', newline='', encoding='utf-8') as f:
        for r in csv.DictReader(f, lineterminator='\n', delimiter='|', quotechar='"'):
            rows.append(r)
    return rows


def db_row_tuple(r):
    return (r['path'].encode('utf-8'), r['md5'].encode('ascii'), r['sha1'].encode('ascii'),
            units(float(r['last_modification_timestamp'])), int(r['size']), r['ext'].encode('utf-8'))


MSG_TOKENS = [
    (1, re.compile(r'file is missing')),
    (2, re.compile(r'both md5 and sha1 hash failed')),
    (3, re.compile(re.escape('one of the hash failed but not the other (which may indicate that the database file is corrupted)'))),
    (4, re.compile(r'extension has changed')),
    (5, re.compile(r'size has changed \(before: \d+ - now: \d+\)')),
    (6, re.compile(r'modification date has changed \(before: [-0-9: ]+ - now: [-0-9: ]+\)')),
]


def msg_kinds(msg):
    """error message of one file -> list of kind codes (model numbering); None when it is not of that grammar."""
    pos, kinds = 0, []
    while True:
        for code, rx in MSG_TOKENS:
            m = rx.match(msg, pos)
            if m:
                kinds.append(code)
                pos = m.end()
                break
        else:
            return None
        if pos == len(msg):
            return kinds
        if msg.startswith(', ', pos):
            pos += 2
        else:
            return None


def read_errors_file(path):
    rows = []
    with open(path, 'r', newline='', encoding='utf-8') as f:
        for r in csv.reader(f, delimiter='|', lineterminator='\n', quotechar='"'):
            if len(r) == 2:
                k = msg_kinds(r[1])
                rows.append((r[0], k if k is not None else ['X:' + r[1]]))
            else:
                rows.append(('<malformed row>', ['X:' + repr(r)]))
    return rows


def read_log_errors(path, known_paths):
    """(list of (path, kinds) from the '- Error for file' lines, number of lines that could not be attributed uniquely)."""
    out, amb = [], 0
    if not os.path.exists(path):
        return out, amb
    with open(path, 'rb') as f:
        text = f.read().decode('utf-8', errors='replace')     # a log that is not UTF-8 yields lines no recorded path explains
    pre = '- Error for file '
    for line in text.split('\n'):
        if not line.startswith(pre):
            continue
        cands = []
        for p in known_paths:
            head = pre + p + ': '
            if line.startswith(head) and line.endswith('.'):
                k = msg_kinds(line[len(head):-1])
                if k is not None:
                    cands.append((p, k))
        if len(cands) == 1:
            out.append(cands[0])
        else:
            amb += 1
            out.append((None, ['?']))
    return out, amb


# ---------------------------------------------------------------- model requests
def ints(l):
    return ','.join(str(x) for x in l) if l else '.'


class Ids:
    """content ids handed to the model: equal bytes <=> equal id."""
    def __init__(self):
        self.by_bytes, self.by_id = {}, []

    def of(self, b):
        i = self.by_bytes.get(b)
        if i is None:
            i = len(self.by_id) + 1
            self.by_bytes[b] = i
            self.by_id.append(b)
        return i


def fs_args(tree, ids, order=None):
    """tree: rel -> (bytes, mtime float).  6 request fields: paths ids md5s sha1s sizes mtimes (walk order)."""
    rels = sorted(tree, key=walk_key) if order is None else order
    P, I, M, S, Z, T = [], [], [], [], [], []
    for rel in rels:
        data, mt = tree[rel]
        a, b = digests(data)
        P.append(rel.encode('utf-8')); I.append(ids.of(data)); M.append(a.encode()); S.append(b.encode())
        Z.append(len(data)); T.append(units(mt))
    return [hxl(P), ints(I), hxl(M), hxl(S), ints(Z), ints(T)]


def parse_gen(out):
    """answer of hchk_gen -> list of row tuples (path, md5, sha1, mtime units, size, ext)"""
    rows = []
    if out == '.':
        return rows
    for item in out.split(','):
        p, a, b, m, s, e = item.split(':')
        un = lambda s_: b'' if s_ == '-' else bytes.fromhex(s_)
        rows.append((un(p), un(a), un(b), int(m), int(s), un(e)))
    return rows


def db_args(rows):
    """row tuples -> 6 request fields: paths md5s sha1s mtimes sizes exts"""
    return [hxl([r[0] for r in rows]), hxl([r[1] for r in rows]), hxl([r[2] for r in rows]),
            ints([r[3] for r in rows]), ints([r[4] for r in rows]), hxl([r[5] for r in rows])]


def parse_rep(s):
    if s == '.':
        return []
    out = []
    for item in s.split(','):
        p, ks = item.split(':')
        out.append((bytes.fromhex(p).decode('utf-8'), [int(k) for k in ks.split('+')]))
    return out


def spec_rows(tree):
    """what the statement says a generated database holds: one row per file, relative posix path, both digests,
    mtime, size, extension — computed with hashlib / os.path directly."""
    rows = []
    for rel in sorted(tree, key=walk_key):
        data, mt = tree[rel]
        a, b = digests(data)
        rows.append((rel.encode('utf-8'), a.encode(), b.encode(), units(mt), len(data),
                     os.path.splitext(rel)[1].encode('utf-8')))
    return rows


def rand_mtime_ns(rng):
    # lower bound: a later 'touch' may move the time back by up to 10^7 s and must stay >= 2^28 s (exact 2^-24 s units)
    sec = rng.randrange((1 << 28) + 2 * 10 ** 7, (1 << 31) - 1000)
    frac = rng.choice([0, 0, 500_000_000, 250_000_000, 499_999_999, 500_000_001, 999_999_999, 1, 123_456_789,
                       rng.randrange(10 ** 9), rng.randrange(10 ** 9)])
    return sec * 10 ** 9 + frac
