# C10 — block layout: correspondence of Layout.v (PrimFloat rule + partitions, evaluated inside
# Coq with vm_compute) with the generation and correction code of both tools.
import io, os, tempfile, shutil
from fractions import Fraction

RULE = ('exhaustive file sizes 0..min(N, 100*max_block_size) (N=1200 quick, 3000 thorough) for each configuration of a grid (max_block_size, header '
        'size, rate triple increasing/decreasing/equal, hash length 0/4/8/32), both tools. Per (size, config): the '
        'generation-side sequence of (offset, message length, parity length) observed from stream_compute_ecc_hash / '
        'compute_ecc_hash, the correction-side sequence from stream_entry_assemble / entry_assemble on the exact track, and '
        'the model\'s two sequences (Layout.whole_case / header_case, PrimFloat inside Coq) must all coincide (compared by '
        'length + polynomial digest mod 2^61-1, re-run exactly on mismatch); plus the raw message-size table for '
        'mb 2..255 x rates incl. every x.5 tie; plus real codec/hasher runs checking track = concat(hash+parity). '
        'non-trivial = more than one block; distinct by (tool, config, size).')
TRUSTED_EXTRA = ['modelled: compute_ecc_params (float rule, via Coq PrimFloat = IEEE binary64), feature_scaling, the block loops of '
                 'stream_compute_ecc_hash, stream_entry_assemble, compute_ecc_hash, entry_assemble',
                 'CPython float arithmetic is IEEE binary64 with round-to-nearest-even (compared bit-exactly via float.hex)',
                 'PrimFloat primitives of the Coq kernel/VM are used by the executable rule only; no theorem depends on them',
                 'the model runs inside coqc (vm_compute) for this property, not through extraction']
ASSUMPTIONS = ['rates are the binary64 values argparse produces from the command line', 'recorded size = actual size, exact track (the property\'s premise)']
P = 2305843009213693951
HEADER = 'From PFF Require Import Layout.\nFrom Coq Require Import ZArith PrimFloat List.\nImport ListNotations.\nOpen Scope Z_scope.\n'


def digest(flat):
    h = len(flat)
    for x in flat:
        h = (h * 1000003 + x + 1) % P
    return h


class Rec(io.BytesIO):
    pass


class FakeHasher:
    def __init__(self, n): self.n = n
    def __len__(self): return self.n
    def hash(self, mes): return b'h' * self.n


class FakeECC:
    """records the message lengths it is asked to encode; parity length is n - k as for ECCMan"""
    def __init__(self, n, k=None): self.n, self.k, self.seen = n, k, []
    def encode(self, mes, k=None):
        k = k or self.k
        self.seen.append(len(mes))
        return b'p' * (self.n - k)


def impl_whole(size, mb, hdr, rates, hlen):
    import pyFileFixity.structural_adaptive_ecc as sa
    hasher, ecc = FakeHasher(hlen), FakeECC(mb)
    f = io.BytesIO(bytes(size))
    g, cur, track = [], 0, b''
    for h, e, params in sa.stream_compute_ecc_hash(ecc, hasher, f, mb, hdr, rates):
        l = ecc.seen[-1]
        g += [cur, l, len(e)]
        cur += l
        track += h + e
    eccfile = io.BytesIO(b'P' * 7 + track + b'Q' * 5)
    f2 = io.BytesIO(bytes(size))
    c = []
    for e in sa.stream_entry_assemble(hasher, f2, eccfile, {'ecc_field_pos': [7, 7 + len(track)], 'filesize': size}, mb, hdr, rates):
        c += [e['curpos'], len(e['message']), len(e['ecc'])]
    return g, c


def impl_header(size, mb, hdr, rate, hlen, path):
    import pyFileFixity.header_ecc as he
    from pyFileFixity.lib.eccman import compute_ecc_params
    hasher = FakeHasher(hlen)
    params = compute_ecc_params(mb, rate, hasher)
    ecc = FakeECC(mb, params['message_size'])
    buf = bytes(size)[:hdr]          # main(): buf = file.read(header_size)
    res = he.compute_ecc_hash(ecc, hasher, buf, mb, rate, params['message_size'], False)
    g, cur, track = [], 0, b''
    for (h, e), l in zip(res, ecc.seen):
        g += [cur, l, len(e)]
        cur += params['message_size']
        track += h + e
    asm = he.entry_assemble({'filesize': size, 'ecc_field': track}, params, hdr, path)
    c, cur = [], 0
    for e in asm:
        c += [cur, len(e['message']), len(e['ecc'])]
        cur += params['message_size']
    return g, c


def fl(x):
    return float(x).hex() + '%float'


def run(ctx):
    rng = ctx.rng
    from props import cli_proc
    cli_proc.stream(ctx, ['C03-whole-smallsize', 'C01-whole-smallsize', 'C03-header-smallsize'])
    N = 1200 if ctx.tier == 'quick' else 3000
    cfgs = [(255, 100, (0.3, 0.2, 0.1), 32), (16, 1, (0.5, 0.5, 0.5), 8), (40, 333, (0.1, 0.25, 0.7), 4),
            (7, 50, (1.0, 0.05, 1.0), 0), (3, 10, (0.3, 0.3, 0.05), 8), (2, 1000, (0.25, 0.9, 0.15), 32)]
    if ctx.tier == 'thorough':
        for _ in range(14):
            cfgs.append((rng.randint(2, 255), rng.choice([1, 7, 64, 500, 2999, 5000]),
                         tuple(rng.choice([0.05, 0.1, 0.2, 0.3, 0.5, 0.75, 1.0, round(rng.uniform(0.01, 1), 3)]) for _ in range(3)),
                         rng.choice([0, 4, 8, 32])))
    ctx.extra['configs'] = [list(map(str, c)) for c in cfgs]
    # 1. raw message-size table (the published rule) incl. exact .5 ties
    rates = [0.05, 0.1, 0.15, 0.2, 0.25, 0.3, 0.5, 0.75, 1.0, 0.125, 1e-9, 0.0019607843137254902] + \
            [rng.uniform(0.001, 1.0) for _ in range(20 if ctx.tier == 'quick' else 200)]
    pairs = [(mb, r) for mb in range(2, 256) for r in rates]
    for mb in range(2, 256):          # ties: mb/(1+2r) = j + 0.5  =>  r = (mb/(j+0.5) - 1)/2
        for j in (1, 2, mb // 3, mb // 2):
            if j >= 1:
                r = (mb / (j + 0.5) - 1) / 2
                if 0 < r <= 1:
                    pairs.append((mb, r))
    from pyFileFixity.lib.eccman import compute_ecc_params
    exprs = ['[%s]' % '; '.join('msize %d %s' % (mb, fl(r)) for mb, r in pairs[i:i + 200]) for i in range(0, len(pairs), 200)]
    got = [x for l in ctx.__dict__.setdefault('_ce', __import__('common').coq_eval_ints)(HEADER, exprs, shard=8) for x in l]
    ties = 0
    for (mb, r), m in zip(pairs, got):
        ip = compute_ecc_params(mb, r, FakeHasher(0))
        ctx.evaluations += 1
        x = mb / (1 + 2 * r)
        if x - int(x) == 0.5: ties += 1
        if ip['message_size'] != m or ip['ecc_size'] != mb - m:
            ctx.disagree({'kind': 'msize', 'mb': mb, 'rate': float(r).hex()}, m, ip['message_size'])
        if not (1 <= ip['message_size'] <= mb) and 0 < r <= 1:
            ctx.fail({'kind': 'msize', 'mb': mb, 'rate': float(r).hex()}, {'message_size': ip['message_size']})
        want = rule_ms(mb, Fraction(r))        # the published rule, evaluated on exact rationals (exact ties: half to even)
        if want is not None and (ip['message_size'] != want or ip['ecc_size'] != mb - want):
            ctx.fail({'kind': 'msize', 'mb': mb, 'rate': float(r).hex()}, {'message_size': ip['message_size'], 'ecc_size': ip['ecc_size'], 'published_rule': [want, mb - want]})
    ctx.count('msize_pairs', len(pairs)); ctx.count('msize_exact_ties', ties)
    # 2. exhaustive sizes x configs, both tools
    d = tempfile.mkdtemp(prefix='pffc10')
    try:
        jobs = []
        for ci, (mb, hdr, rt, hlen) in enumerate(cfgs):
            for size in range(0, min(N, 100 * mb) + 1):   # unary-nat model: keep the block count per layout bounded
                jobs.append(('whole', size, mb, hdr, rt, hlen))
                jobs.append(('header', size, mb, hdr, rt, hlen))
        # tie-prone sizes: files in which some block starts at an offset where max_block/(1+2*rate) is (within 1e-9 of) a
        # half-integer - the places where two algebraically equal float formulas for the interpolated rate round to
        # different message sizes (generation and read-back must use the SAME rate there)
        for (mb, hdr, rt, hlen) in [(255, 1024, (0.3, 0.5, 0.1), 32), (255, 300, (0.5, 0.1, 0.5), 8)]:
            ts = tie_prone_sizes(mb, hdr, rt, hdr + 1, 12000, 10 if ctx.tier == 'quick' else 60)
            ctx.count('tie_prone_sizes', len(ts))
            for size in ts:
                jobs.append(('whole', size, mb, hdr, rt, hlen))
        exprs = []
        for tool, size, mb, hdr, rt, hlen in jobs:
            if tool == 'whole':
                e = 'whole_case %d %d %d %d %s %s %s' % (mb, hdr, size, hlen, fl(rt[0]), fl(rt[1]), fl(rt[2]))
            else:
                e = 'header_case %d %d %d %d %s' % (mb, hdr, size, hlen, fl(rt[0]))
            exprs.append("let '(g, c) := %s in [Z.of_nat (length g); digest g; Z.of_nat (length c); digest c]" % e)
        import common
        model = common.coq_eval_ints(HEADER, exprs, shard=200, jobs=14)
        path = os.path.join(d, 'f'); cursize = -1
        for job, m in zip(jobs, model):
            tool, size, mb, hdr, rt, hlen = job
            try:
                if tool == 'whole':
                    g, c = impl_whole(size, mb, hdr, list(rt), hlen)
                else:
                    if cursize != size:
                        open(path, 'wb').write(bytes(size)); cursize = size
                    g, c = impl_header(size, mb, hdr, rt[0], hlen, path)
            except Exception as e:
                g, c = ['EXC', repr(e)], None
            ctx.evaluations += 1
            case = {'kind': tool, 'size': size, 'mb': mb, 'hdr': hdr, 'rates': [float(r).hex() for r in rt], 'hlen': hlen}
            if c is not None and len(g) > 3:
                ctx.nontriv((tool, mb, hdr, rt, hlen, size))
            ctx.count('%s_blocks<=%d' % (tool, 1 if not c or len(g) <= 3 else 4 if len(g) <= 12 else 16 if len(g) <= 48 else 10 ** 6))
            ok_model = c is not None and m == [len(g), digest(g), len(c), digest(c)]
            if not ok_model:
                ctx.disagree(case, {'gen_len_digest': m[:2], 'corr_len_digest': m[2:]},
                             {'gen': g if c is None else [len(g), digest(g)], 'corr': None if c is None else [len(c), digest(c)]})
            # property predicate on the implementation alone: both sides identical, tiling exact
            bad = None
            if c is None: bad = 'exception'
            elif g != c: bad = 'generation and correction partitions differ'
            else:
                prot = size if tool == 'whole' else min(size, hdr)
                off = 0
                for i in range(0, len(g), 3):
                    if g[i] != off or g[i + 1] < 1: bad = 'gap/overlap at block %d' % (i // 3); break
                    off += g[i + 1]
                if bad is None and off != prot: bad = 'blocks cover %d of %d protected bytes' % (off, prot)
                if bad is None: bad = rule_violation(tool, g, size, mb, hdr, rt)
            if bad:
                ctx.fail(case, {'problem': bad, 'gen': g[:60], 'corr': (c or [])[:60]})
            else:
                ctx.traces += 1
            if size in (0, 777) and ci_ok(job): ctx.sample({'case': case, 'gen_partition': g[:30]}, cap=4)
        # 2b. files larger than any read buffer one might introduce (1 MiB and its multiples): implementation-only predicate (generation
        # = correction partition, exact tiling, published rule); the Coq model is not evaluated on these sizes (vm_compute cost)
        for (size, mb, hdr, rt, hlen) in [(1048576 + 300, 255, 1024, (0.1, 0.1, 0.1), 8), (2 * 1048576 + 77, 255, 4096, (0.3, 0.2, 0.2), 32),
                                          (1048576, 200, 100, (0.25, 0.25, 0.25), 4)]:
            try:
                g, c = impl_whole(size, mb, hdr, list(rt), hlen)
            except Exception as e:
                g, c = ['EXC', repr(e)], None
            ctx.evaluations += 1
            ctx.count('large_file_cases')
            ctx.nontriv(('whole-large', size, mb))
            case = {'kind': 'whole-large', 'size': size, 'mb': mb, 'hdr': hdr, 'rates': [float(r).hex() for r in rt], 'hlen': hlen}
            bad = None
            if c is None: bad = 'exception'
            elif g != c: bad = 'generation and correction partitions differ'
            else:
                off = 0
                for i in range(0, len(g), 3):
                    if g[i] != off or g[i + 1] < 1: bad = 'gap/overlap at block %d (offset %d)' % (i // 3, off); break
                    off += g[i + 1]
                if bad is None and off != size: bad = 'blocks cover %d of %d protected bytes' % (off, size)
                if bad is None: bad = rule_violation('whole', g, size, mb, hdr, rt)
            if bad:
                first = next((i // 3 for i in range(0, min(len(g), len(c or [])), 3) if g[i:i + 3] != (c or [])[i:i + 3]), None)
                ctx.fail(case, {'problem': bad, 'first_differing_block': first, 'blocks': [len(g) // 3, len(c or []) // 3]})
            else:
                ctx.traces += 1
        # 3. real codec + hasher: stored track = concat(hash + parity) of the model's blocks
        real_track(ctx, rng, 6 if ctx.tier == 'quick' else 40)
    finally:
        shutil.rmtree(d, ignore_errors=True)


def tie_prone_sizes(mb, hdr, rt, lo, hi, limit):
    """file sizes in [lo, hi] whose generation layout (simulated with the code's own float formulas) has a block starting
    where mb/(1+2*rate) is within 1e-9 of a half-integer"""
    out = []
    for size in range(lo, hi + 1):
        cur, hit = 0, False
        while cur < size:
            rate = rt[0] if cur < hdr else rt[1] + float(cur - hdr) * (rt[2] - rt[1]) / (size - hdr)
            x = float(mb) / (1 + 2 * rate)
            if abs((x % 1.0) - 0.5) < 1e-9 and cur >= hdr:
                hit = True
            cur += max(1, int(round(x, 0)))
        if hit:
            out.append(size)
            if len(out) >= limit:
                break
    return out


def rule_ms(mb, rate):
    """published rule on exact rationals: round-half-even(mb / (1 + 2*rate)); None when within 1e-9 of a tie"""
    from fractions import Fraction as F
    x = F(mb) / (1 + 2 * rate)
    fl_, fr = x.numerator // x.denominator, x - x.numerator // x.denominator
    if fr == F(1, 2):
        # an exact tie: "round" is Python's round (half to even) - decided only when the float expression of the code,
        # evaluated independently here, is that same exact value (no rounding error on the way)
        q = float(mb) / (1 + 2 * float(rate))
        if F(q) == x:
            return fl_ if fl_ % 2 == 0 else fl_ + 1
        return None
    if abs(fr - F(1, 2)) < F(1, 10 ** 9):
        return None
    return fl_ + (1 if fr > F(1, 2) else 0)


def rule_violation(tool, g, size, mb, hdr, rt):
    from fractions import Fraction as F
    prot = size if tool == 'whole' else min(size, hdr)
    for i in range(0, len(g), 3):
        off, l, p = g[i:i + 3]
        if tool == 'header' or off < hdr:
            rate = F(rt[0])
        else:
            rate = F(rt[1]) + F(off - hdr) * (F(rt[2]) - F(rt[1])) / F(size - hdr)
        ms = rule_ms(mb, rate)
        if ms is None:
            continue
        if l != min(ms, prot - off) or p != mb - ms:
            return 'block at offset %d has (message, parity) = (%d, %d); the published rule gives (%d, %d)' % (off, l, p, min(ms, prot - off), mb - ms)
    return None


def ci_ok(job):
    return job[2] in (255, 40)


def real_track(ctx, rng, n):
    import pyFileFixity.structural_adaptive_ecc as sa
    from pyFileFixity.lib.eccman import ECCMan
    from pyFileFixity.lib.hasher import Hasher
    import common
    for _ in range(n):
        mb = rng.choice([16, 40, 255]); hdr = rng.choice([10, 100]); size = rng.choice([0, 1, 99, 100, 101, 640])
        rt = [rng.choice([0.1, 0.3, 0.5]) for _ in range(3)]
        algo = rng.choice(['md5', 'shortmd5', 'minisha256', 'none'])
        hasher = Hasher(algo)
        data = bytes(rng.randrange(256) for _ in range(size))
        ecc = ECCMan(mb, 1, algo=3)
        track, blocks, cur = b'', [], 0
        f = io.BytesIO(data)
        for h, e, params in sa.stream_compute_ecc_hash(ecc, hasher, f, mb, hdr, rt):
            track += h + e
        m = common.coq_eval_ints(HEADER, ["fst (whole_case %d %d %d %d %s %s %s)" % (mb, hdr, size, len(hasher), fl(rt[0]), fl(rt[1]), fl(rt[2]))], jobs=1)[0]
        want = b''
        for i in range(0, len(m), 3):
            blk = data[m[i]:m[i] + m[i + 1]]
            k = mb - m[i + 2]
            want += bytes(hasher.hash(blk) or b'') + bytes(ECCMan(mb, k, algo=3).encode(blk))
        ctx.evaluations += 1; ctx.count('real_track')
        case = {'kind': 'track', 'size': size, 'mb': mb, 'hdr': hdr, 'rates': [float(r).hex() for r in rt], 'hash': algo}
        if track != want:
            ctx.disagree(case, want.hex()[:200], track.hex()[:200], 'stored track != concat(hash+parity) over the model partition')
            ctx.fail(case, {'problem': 'stored track is not hash+parity of the partition blocks', 'len': [len(track), len(want)]})
        else:
            ctx.traces += 1


def replay_case(ctx, case):
    import common
    if case.get('kind') == 'cli-process':
        from props import cli_proc
        return cli_proc.replay(case)
    if case['kind'] == 'msize':
        from pyFileFixity.lib.eccman import compute_ecc_params
        r = float.fromhex(case['rate'])
        ip = compute_ecc_params(case['mb'], r, FakeHasher(0))
        m = common.coq_eval_ints(HEADER, ['[msize %d %s]' % (case['mb'], fl(r))], jobs=1)[0][0]
        want = rule_ms(case['mb'], Fraction(r))
        return {'holds': 1 <= ip['message_size'] <= case['mb'] and (want is None or ip['message_size'] == want), 'implementation': ip, 'model': m, 'published_rule': want}
    rt = [float.fromhex(x) for x in case['rates']]
    if case['kind'] == 'whole-large':
        g, c = impl_whole(case['size'], case['mb'], case['hdr'], list(rt), case['hlen'])
        bad = None if g == c else 'generation and correction partitions differ'
        if bad is None:
            bad = rule_violation('whole', g, case['size'], case['mb'], case['hdr'], rt)
        return {'holds': bad is None, 'implementation': {'problem': bad, 'blocks': [len(g) // 3, len(c) // 3]}}
    d = tempfile.mkdtemp(prefix='pffc10r')
    try:
        if case['kind'] == 'whole':
            g, c = impl_whole(case['size'], case['mb'], case['hdr'], rt, case['hlen'])
            e = 'whole_case %d %d %d %d %s %s %s' % (case['mb'], case['hdr'], case['size'], case['hlen'], fl(rt[0]), fl(rt[1]), fl(rt[2]))
        elif case['kind'] == 'header':
            p = os.path.join(d, 'f'); open(p, 'wb').write(bytes(case['size']))
            g, c = impl_header(case['size'], case['mb'], case['hdr'], rt[0], case['hlen'], p)
            e = 'header_case %d %d %d %d %s' % (case['mb'], case['hdr'], case['size'], case['hlen'], fl(rt[0]))
        else:
            return {'holds': True, 'note': 'track cases are regenerated, not replayed'}
        mg, mc = common.coq_eval_ints(HEADER, ['fst (%s)' % e, 'snd (%s)' % e], jobs=1)
        prot = case['size'] if case['kind'] == 'whole' else min(case['size'], case['hdr'])
        return {'holds': g == c and sum(g[1::3]) == prot and g == mg, 'impl_generation': g, 'impl_correction': c, 'model_generation': mg, 'model_correction': mc}
    finally:
        shutil.rmtree(d, ignore_errors=True)
