# C14 — entry scanning: correspondence of Scan.v with aux_funcs.get_next_entry and the property
# predicate (split at the marker occurrences, exact bounds, end signalled) on the implementation.
import io, os, shutil, struct, tempfile
from common import hx, unhx

MARKER = b'\xfe\xff' * 5
ML = len(MARKER)
ALPHA = [0xfe, 0xff, 0x61]

RULE = ('built streams: preamble + 0..6 entries, each preceded by the marker FEFF x5, bytes over {FE,FF,a} with marker '
        'prefixes/suffixes planted at entry borders, no accidental full marker (every marker occurrence is a designated one, or '
        'begins inside a designated one when an entry begins with FE FF), preamble 0..2 buffers, entry lengths 1..4 buffers; each stream is scanned with EVERY block size '
        '11..30, with 0,5,10 (sanity adjustment) and 64,100,65535, in both return modes, from position 0 and from other start '
        'positions (inside preamble / marker / entry, at and past EOF); a tenth through a real file handle. free streams '
        '(malformed): random bytes over small alphabets with overlapping / adjacent / trailing markers, other markers '
        '(ab, aa, aba, a, FEFFFE) — predicate = leftmost non-overlapping split. ecc files: header_ecc and '
        'structural_adaptive_ecc -g on a small tree; the scanner must return exactly the entries whose marker positions are '
        'recorded in the .idx file. Each case = one (stream, marker, block size, mode, start) scanned until None by '
        'get_next_entry and by the extracted Scan.scan_all; observables: every returned value and file.tell() after every '
        'call. non-trivial = at least one entry returned; distinct by (stream, marker, block size, mode, start).')
TRUSTED_EXTRA = ['modelled: lib/aux_funcs.get_next_entry (block size sanity adjustment, the read loop with bufcursor / '
                 'startcursor / searchfrom, EOF case, both return modes, file position left); a file handle is modelled as '
                 '(byte list, position) with seek/read/tell; bytes.find as Scan.find']
ASSUMPTIONS = ['file.read(n) returns fewer than n bytes only at end of file (regular files, io.BytesIO)',
               'the entry marker is not empty']


# ---------------------------------------------------------------- implementation side
def impl_scan(marker, coord, bs, s, p, realfile=False):
    from pyFileFixity.lib.aux_funcs import get_next_entry
    d = None
    try:
        if realfile:
            d = tempfile.mkdtemp(prefix='pffc14')
            path = os.path.join(d, 'ecc')
            with open(path, 'wb') as f:
                f.write(s)
            fh = open(path, 'rb')
        else:
            fh = io.BytesIO(s)
        out = []
        try:
            fh.seek(p)
            for _ in range(len(s) + 3):
                try:
                    r = get_next_entry(fh, marker, coord, bs)
                except Exception as e:  # an exception is an observable
                    out.append(('EXC', repr(e)))
                    break
                if r is None:
                    out.append(('N', fh.tell()))
                    break
                if coord:
                    out.append(('C', int(r[0]), int(r[1]), fh.tell()))
                else:
                    out.append(('B', bytes(r), fh.tell()))
            else:
                out.append(('NOEND',))
        finally:
            fh.close()
        return out
    finally:
        if d:
            shutil.rmtree(d, ignore_errors=True)


# ---------------------------------------------------------------- model side
def model_line(marker, coord, bs, s, p):
    return 'scan %s %d %d %s %d' % (hx(marker), 1 if coord else 0, bs, hx(s), p)


def parse_model(o):
    out = []
    for item in o.split(';'):
        body, pos = item.rsplit('@', 1)
        if body == 'N':
            out.append(('N', int(pos)))
        elif body.startswith('C:'):
            _, a, e = body.split(':')
            out.append(('C', int(a), int(e), int(pos)))
        elif body.startswith('B:'):
            out.append(('B', unhx(body[2:]), int(pos)))
        else:
            out.append(('FUEL',))
    return out


# ---------------------------------------------------------------- the property, from its statement
def all_occurrences(s, marker):
    return [i for i in range(len(s) - len(marker) + 1) if s[i:i + len(marker)] == marker]


def split_positions(s, marker, p):
    """Marker occurrences met from p on, left to right, one beginning inside the previous one not counting."""
    out, i = [], p
    while i + len(marker) <= len(s):
        if s[i:i + len(marker)] == marker:
            out.append(i)
            i += len(marker)
        else:
            i += 1
    return out


def expected_entries(s, marker, p, marks=None):
    """one entry per marker present from p on: (end of its marker, start of the next marker | end of stream)"""
    ps = [m for m in marks if m >= p] if marks is not None else split_positions(s, marker, p)
    return [(c + len(marker), ps[k + 1] if k + 1 < len(ps) else len(s)) for k, c in enumerate(ps)]


def predicate(s, marker, coord, p, obs, marks=None):
    """None when the observed call sequence satisfies the property, else a description."""
    want = expected_entries(s, marker, p, marks)
    if not obs or obs[-1][0] != 'N':
        return 'the scan does not end with None: %r' % (obs[-1:],)
    got = obs[:-1]
    if len(got) != len(want):
        return '%d results for %d markers' % (len(got), len(want))
    for k, ((a, e), o) in enumerate(zip(want, got)):
        if coord:
            if o[0] != 'C' or (o[1], o[2]) != (a, e):
                return 'entry %d: got %r, expected span (%d,%d)' % (k, o[:3], a, e)
        else:
            if o[0] != 'B' or o[1] != s[a:e]:
                return 'entry %d: content differs from stream[%d:%d]' % (k, a, e)
        if not (a <= o[-1] <= e):
            return 'entry %d: file left at %d, outside [%d,%d]: the next call would not find the next marker' % (k, o[-1], a, e)
    return None


def canon(obs):
    return [[x.hex() if isinstance(x, bytes) else x for x in o] for o in obs]


# ---------------------------------------------------------------- generators
def gen_piece(rng, n, first, last):
    """n bytes over the alphabet; marker fragments planted at the borders"""
    b = bytearray(rng.choice(ALPHA if rng.random() < 0.6 else [0x61, 0x61, 0x61, 0xfe, 0xff]) for _ in range(n))
    if n and rng.random() < 0.5 and not first:
        k = rng.randrange(1, ML)
        frag = MARKER[:k] if rng.random() < 0.5 else MARKER[ML - k:]
        b[:min(k, n)] = frag[:n]
    if n and rng.random() < 0.5 and not last:
        k = rng.randrange(1, ML)
        frag = MARKER[:k] if rng.random() < 0.5 else MARKER[ML - k:]
        frag = frag[-n:]
        b[n - len(frag):] = frag
    if n > 2 * ML and rng.random() < 0.3:   # a long marker-like run inside, broken by one byte
        k = rng.randrange(0, n - ML)
        b[k:k + ML] = MARKER
        b[k + rng.randrange(ML)] = 0x61
    return bytes(b)


def gen_built(rng, bs):
    """(stream, designated marker positions, strict) with no accidental full marker: every marker occurrence is a
    designated one (strict) or begins inside a designated one.  Pieces are drawn one by one and redrawn while they
    create an accidental marker, so the number of entries keeps its intended distribution."""
    unit = min(bs, 40)
    nent = rng.choice([0, 1, 1, 2, 2, 3, 3, 4, 5, 6])
    plen = rng.choice([0, 1, ML - 1, ML, max(0, unit - ML), unit - 1, unit, unit + 1, rng.randrange(0, 2 * unit + 1)])
    s, marks = b'', []
    for k in range(nent + 1):
        followed = k < nent
        n = plen if k == 0 else max(1, rng.choice([1, 2, unit - ML, unit - 1, unit, unit + 1, 2 * unit,
                                                   rng.randrange(1, 4 * unit + 1), rng.randrange(1, 4 * unit + 1)]))
        for attempt in range(40):
            piece = gen_piece(rng, n, k == 0, not followed) if attempt < 39 else b'a' * n
            if k > 0 and rng.random() < 0.1:   # entry beginning like a marker: occurrences overlapping its own marker are no cuts
                head = (b'\xfe\xff' * rng.randrange(1, 6))[:len(piece)]
                piece = head + piece[len(head):]
            cand = s + piece + (MARKER if followed else b'')
            want = marks + ([len(s) + len(piece)] if followed else [])
            if split_positions(cand, MARKER, 0) == want:
                break
        s, marks = cand, want
    return s, marks, all_occurrences(s, MARKER) == marks


def gen_free(rng):
    marker = rng.choice([MARKER, MARKER, b'ab', b'aa', b'a', b'aba', b'\xfe\xff\xfe', b'\xfe\xff'])
    alpha = rng.choice([bytes(ALPHA), b'ab', b'a', bytes(set(marker)) + b'z'])
    s = bytearray(rng.choice(alpha) for _ in range(rng.choice([0, 1, 2, 5, 9, 10, 11, 20, 40, 90])))
    for _ in range(rng.choice([0, 0, 1, 2, 3, 5])):
        i = rng.randrange(0, len(s) + 1)
        ins = marker if rng.random() < 0.7 else marker + marker[:rng.randrange(len(marker) + 1)] + marker
        s[i:i] = ins
    if rng.random() < 0.2:
        s += marker
    return bytes(s), marker


def start_positions(rng, s, marks):
    ps = {len(s), len(s) + 1 + rng.randrange(5)}
    if s:
        ps.add(rng.randrange(len(s)))
    if marks:
        m = rng.choice(marks)
        ps.update({m, m + 1, m + 2, m + ML - 1, m + ML, max(0, m - 1)})
    ps.discard(0)
    return sorted(ps)


BS_ALL = list(range(ML + 1, 3 * ML + 1)) + [0, 5, ML, 64, 100, 65535]


# ---------------------------------------------------------------- one batch
def check_batch(ctx, cases):
    """cases: dicts with marker, stream, bs, coord, p, optional marks / file / kind."""
    outs = ctx.model.run([model_line(c['_m'], c['coord'], c['bs'], c['_s'], c['p']) for c in cases])
    for c, o in zip(cases, outs):
        s, marker = c['_s'], c['_m']
        model = parse_model(o)
        impl = impl_scan(marker, c['coord'], c['bs'], s, c['p'], c.get('file', False))
        case = {k: v for k, v in c.items() if not k.startswith('_')}
        ctx.evaluations += 1
        ctx.count('kind=%s' % c['kind'])
        ctx.count('mode=%s' % ('coord' if c['coord'] else 'content'))
        ctx.count('bs=%s' % (c['bs'] if c['bs'] <= 3 * ML else 'large'))
        ctx.count('start=%s' % ('0' if c['p'] == 0 else 'other'))
        ctx.count('entries=%d' % min(len(impl) - 1, 7))
        ctx.count('len=%s' % ('0' if not s else '<100' if len(s) < 100 else '<400' if len(s) < 400 else '>=400'))
        if len(impl) > 1:
            ctx.nontriv((s, marker, c['bs'], c['coord'], c['p']))
        if impl != model:
            ctx.disagree(case, canon(model), canon(impl))
        why = predicate(s, marker, c['coord'], c['p'], impl, c.get('marks'))
        if why is not None:
            ctx.fail(case, {'why': why, 'got': canon(impl),
                            'expected_entries': expected_entries(s, marker, c['p'], c.get('marks'))})
        else:
            ctx.traces += 1
        if c['kind'] == 'built' and len(impl) > 2:
            ctx.sample({'stream': s.hex(), 'bs': c['bs'], 'only_coord': c['coord'], 'start': c['p'], 'calls': canon(impl)}, cap=4)


def mk(kind, marker, s, bs, coord, p, marks=None, file=False):
    c = {'kind': kind, 'marker': marker.hex(), 'stream': s.hex(), 'bs': bs, 'coord': coord, 'p': p,
         '_m': marker, '_s': s}
    if marks is not None:
        c['marks'] = marks
    if file:
        c['file'] = True
    return c


CORPUS_STREAM = b'p' * 6 + MARKER + b'A' * 20 + MARKER + b'B' * 30 + MARKER + b'C' * 5


def corpus():
    cs = []
    for bs in (11, 12, 13, 16, 17, 20, 33, 1000):
        for coord in (True, False):
            cs.append(mk('built', MARKER, CORPUS_STREAM, bs, coord, 0, [6, 36, 76]))
    # marker ending exactly at a buffer end; marker cut by a buffer end at every offset
    for cut in range(0, ML + 1):
        s = b'a' * (16 - cut) + MARKER + b'x' * 7 + MARKER + b'y' * 3
        cs.append(mk('built', MARKER, s, 16, True, 0, [16 - cut, 16 - cut + ML + 7]))
        cs.append(mk('built', MARKER, s, 16, False, 0, [16 - cut, 16 - cut + ML + 7]))
    # marker-like runs
    s = b'\xfe\xff\xfe' + MARKER + b'\xff\xfe\xff\xfe\xfea\xfe\xff\xfe\xff\xfe' + MARKER + b'\xff\xff\xfe'
    cs += [mk('built', MARKER, s, bs, coord, 0, [3, 3 + ML + 11]) for bs in (11, 12, 14, 19) for coord in (True, False)]
    # no marker, empty stream, marker only, adjacent markers, trailing marker, overlapping occurrences
    for s in (b'', b'aaaa', MARKER, MARKER + MARKER, b'ab' + MARKER, MARKER + b'\xfe\xff', b'\xfe\xff' + MARKER + b'a',
              b'a' + MARKER[:-1], MARKER[1:] + b'a' * 30):
        for bs in (11, 13):
            cs.append(mk('free', MARKER, s, bs, True, 0))
            cs.append(mk('free', MARKER, s, bs, False, 0))
    return cs


# ---------------------------------------------------------------- real ecc files
def ecc_files(ctx):
    """Generate ecc files with the two tools and check the scanner against the .idx companion."""
    rng = ctx.rng
    d = tempfile.mkdtemp(prefix='pffc14e')
    cwd = os.getcwd()
    res = []
    try:
        tree = os.path.join(d, 'in')
        os.makedirs(os.path.join(tree, 'sub'))
        sizes = [1, 37, 200, 411, 90]
        for i, n in enumerate(sizes):
            name = os.path.join(tree, 'sub' if i % 2 else '', 'f%d.bin' % i)
            with open(name, 'wb') as f:
                f.write(bytes(rng.choice([0xfe, 0xff, rng.randrange(256)]) for _ in range(n)))
        os.chdir(d)
        import pyFileFixity.header_ecc as he
        import pyFileFixity.structural_adaptive_ecc as sa
        for tool, mod, extra in (('header', he, '-s 64'), ('whole', sa, '')):
            db = os.path.join(d, tool + '.ecc')
            try:
                rc = mod.main('-i "%s" -d "%s" --ecc_algo=3 %s -g -f --silent' % (tree, db, extra))
            except BaseException as e:  # SystemExit included
                rc = ('EXC', repr(e))
            if rc != 0 or not os.path.exists(db + '.idx'):
                ctx.fail({'kind': 'eccfile', 'tool': tool}, {'why': 'generation failed', 'rc': repr(rc)})
                continue
            s = open(db, 'rb').read()
            idx = open(db + '.idx', 'rb').read()
            marks = [struct.unpack('>Q', idx[k + 1:k + 9])[0] for k in range(0, len(idx) - 26, 27) if idx[k:k + 1] == b'1']
            res.append((tool, s, marks))
    finally:
        os.chdir(cwd)
        shutil.rmtree(d, ignore_errors=True)
    cases = []
    for tool, s, marks in res:
        ctx.count('eccfile_%s_entries=%d' % (tool, len(marks)))
        if len(marks) != 5 or all_occurrences(s, MARKER) != marks:
            # (an accidental marker inside parity bytes would show here; it did not happen in any run so far)
            ctx.fail({'kind': 'eccfile', 'tool': tool, 'stream': s.hex()}, {'why': 'idx file does not list the marker occurrences',
                                                                               'idx': marks, 'occurrences': all_occurrences(s, MARKER)})
            continue
        for bs in (11, 12, 13, 17, 20, 23, 30, 64, 255, 1000, 65535):
            for coord in (True, False):
                cases.append(mk('eccfile', MARKER, s, bs, coord, 0, marks, file=(bs in (13, 65535))))
    check_batch(ctx, cases)


# ---------------------------------------------------------------- run
def run(ctx):
    rng = ctx.rng
    check_batch(ctx, corpus())
    ecc_files(ctx)
    nstreams = 400 if ctx.tier == 'quick' else 12000
    batch = []
    for k in range(nstreams):
        bs0 = rng.choice(BS_ALL[:2 * ML])
        s, marks, strict = gen_built(rng, bs0)
        ctx.count('built_streams')
        ctx.count('built_streams_with_shadowed_overlap', 0 if strict else 1)
        ctx.count('built_entries=%d' % len(marks))
        starts = start_positions(rng, s, marks)
        for bs in BS_ALL:
            for coord in (True, False):
                batch.append(mk('built', MARKER, s, bs, coord, 0, marks, file=(k % 10 == 0 and bs in (11, 17, 65535))))
            p = rng.choice(starts)
            # from inside a marker an overlapping occurrence may be the first one met: leftmost-split predicate there
            batch.append(mk('built', MARKER, s, bs, rng.random() < 0.5, p, marks if strict else None))
        if len(batch) >= 8000:
            check_batch(ctx, batch)
            batch = []
    check_batch(ctx, batch)
    # malformed / other markers
    batch = []
    for _ in range(2500 if ctx.tier == 'quick' else 60000):
        s, marker = gen_free(rng)
        bs = rng.choice(list(range(0, 3 * len(marker) + 3)) + [64, 65535])
        p = rng.choice([0, 0, 0, rng.randrange(len(s) + 3)])
        batch.append(mk('free', marker, s, bs, rng.random() < 0.5, p))
        if len(batch) >= 10000:
            check_batch(ctx, batch)
            batch = []
    check_batch(ctx, batch)
    # the specification itself (Coq entries_spec) against the independent Python split
    specs = []
    for _ in range(300 if ctx.tier == 'quick' else 3000):
        s, marker = gen_free(rng)
        specs.append((s, marker, rng.choice([0, rng.randrange(len(s) + 2)])))
    outs = ctx.model.run(['entries %s %s %d' % (hx(m), hx(s), p) for s, m, p in specs])
    for (s, m, p), o in zip(specs, outs):
        got = [] if o == '.' else [tuple(int(x) for x in it.split(':')) for it in o.split(';')]
        ctx.count('spec_checks')
        if got != expected_entries(s, m, p):
            ctx.disagree({'kind': 'spec', 'marker': m.hex(), 'stream': s.hex(), 'p': p, 'bs': 0, 'coord': True},
                         got, expected_entries(s, m, p), what='Coq entries_spec != independent split')


# ---------------------------------------------------------------- replay / shrink / classify
def replay_case(ctx, case):
    if case.get('kind') == 'eccfile' and 'bs' not in case:
        return {'holds': False, 'note': 'ecc file generation case; rerun ./check C14'}
    s, marker = bytes.fromhex(case['stream']), bytes.fromhex(case['marker'])
    impl = impl_scan(marker, case['coord'], case['bs'], s, case['p'], case.get('file', False))
    why = predicate(s, marker, case['coord'], case['p'], impl, case.get('marks'))
    model = parse_model(ctx.model.run([model_line(marker, case['coord'], case['bs'], s, case['p'])])[0])
    return {'holds': why is None, 'why': why, 'implementation': canon(impl), 'model': canon(model),
            'property_expects_entries': expected_entries(s, marker, case['p'], case.get('marks'))}


def shrink(ctx, case):
    if 'stream' not in case or 'bs' not in case:
        return case

    def nonempty(c):
        s, marker = bytes.fromhex(c['stream']), bytes.fromhex(c['marker'])
        return all(a < e for a, e in expected_entries(s, marker, c['p']))
    keep_nonempty = nonempty(case)   # stay inside the property's quantifier (entries of >= 1 byte) when the case is inside

    def bad(c):
        s, marker = bytes.fromhex(c['stream']), bytes.fromhex(c['marker'])
        if keep_nonempty and not nonempty(c):
            return False
        return predicate(s, marker, c['coord'], c['p'], impl_scan(marker, c['coord'], c['bs'], s, c['p'])) is not None
    cur = {k: v for k, v in case.items() if k not in ('marks', 'file')}
    cur['kind'] = 'free'
    if not bad(cur):
        return case
    improved = True
    while improved:
        improved = False
        s = bytes.fromhex(cur['stream'])
        cands = []
        for width in (len(s) // 2, len(s) // 4, 8, 3, 1):
            if width >= 1:
                for i in range(0, len(s), width):
                    cands.append(dict(cur, stream=(s[:i] + s[i + width:]).hex()))
        if cur['p'] > 0:
            cands.append(dict(cur, p=0))
        if cur['bs'] > 30:
            cands.append(dict(cur, bs=30))
        for c in cands[:400]:
            if len(c['stream']) < len(cur['stream']) or c['p'] < cur['p'] or c['bs'] < cur['bs']:
                if bad(c):
                    cur, improved = c, True
                    break
    return cur


def classify(case, detail):
    return None
