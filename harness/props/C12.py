# C12 — codecs 1-3 are interchangeable and the ecc body is deterministic.
# Codec level: ECCMan.encode of codecs 1, 2, 3 byte-identical and equal to the extracted model parity; each accepts the others'
# parity.  Tool level (property predicate on real runs of both tools): ecc bodies (after the comment preamble) and .idx files
# generated with codecs 1, 2, 3 are identical; regenerating from a moved and time-touched copy gives the same bytes; every ordered
# pair (generating codec, correcting codec) repairs a damaged tree.
import os, shutil, itertools, time
from common import hx, unhx, hxl
from props import rs_common as R
import eccrun as E

RULE = ('codec level: parity of codecs 1, 2, 3 and of the extracted model on every (n,k) with n <= 8, every message length, messages '
        '{zeros, 0xFF, ramp, random} + random geometries up to 255 incl. per-call k; cross check(message, parity) for all 9 ordered pairs. '
        'tool level: trees (sizes 0/1/block boundaries, nested and latin-1 names) x parameter sets, both tools: body and .idx equal for '
        'codecs 1,2,3; equal after copying the tree to another root and shifting every mtime; all 9 (generating, correcting) pairs on a '
        'tree damaged within capacity restore the originals and exit 0.  non-trivial = non-empty message / non-empty tree; distinct by '
        '(n, k, message) resp. (tool, parameters, tree id, pair).  Plus: entry-order stream (entries of each generated ecc file = Walk.walk) '
        'and genbody stream (the composed generation model reproduces the ecc body byte for byte, hash and rate rule as tables).')
TRUSTED_EXTRA = ['codec level as C11; tool level: C12_body_deterministic / C12_listing_order_irrelevant (Proofs/GenDet.v) over the walk '
                 'model of C07 and the entry format of C03/C08; tied here by the entry-order stream (entries of every generated ecc file = '
                 'Walk.walk of the tree, original root and moved copy under an adversarial listing order) and by the determinism predicate '
                 'over the observed bytes of two runs']
ASSUMPTIONS = ['the comment preamble = the leading lines starting with "**" (argv, version, codec description)']


def idx_records(b):
    return [(b[i:i + 1], int.from_bytes(b[i + 1:i + 9], 'big')) for i in range(0, len(b) - 26, 27)]


def preamble_len(ecc_bytes):
    return len(ecc_bytes) - len(E.body(ecc_bytes))


def relocation(tool, params, files, rng_times, same_length, octx=None, wide=False):
    """generate from 'in' and from a moved, time-touched copy; same_length: the moved path and database name have the
    same string lengths as the original ones, so the comment preamble (which repeats argv) has the same length."""
    E.write_tree('in', files)
    if files.get('@mirror'):
        # a sub-tree that mirrors the absolute path of the root itself (a backup of the host's layout): the recorded relative
        # path must still be the true one (a textual removal of the root string would remove it twice)
        mp = os.path.join('in', 'mirror', os.path.abspath('in').lstrip(os.sep), 'old_notes.txt')
        os.makedirs(os.path.dirname(mp), exist_ok=True)
        open(mp, 'wb').write(files['@mirror'])
        os.remove(os.path.join('in', '@mirror'))
    seen_content = {}
    for rel in sorted(k for k in files if not k.startswith('@')):
        c = files[rel]
        if c and c in seen_content:          # equal contents: second name = hard link to the first (copytree below breaks the link)
            p = os.path.join('in', *rel.split('/'))
            os.remove(p)
            os.link(os.path.join('in', *seen_content[c].split('/')), p)
        elif c:
            seen_content[c] = rel
    rc1, _ = E.generate(tool, 'in', 'ecc3.db', params + ['--ecc_algo', '3'])
    dst, db2 = ('mv', 'ecm3.db') if same_length else ('moved/else/where', 'ecc_moved.db')
    if wide:
        # the copy lives below folders whose names are outside latin-1 and hold the bytes of the entry marker as CHARACTERS (U+00FE
        # U+00FF): the comment preamble repeats argv, the body must not care
        dst, db2 = ('\u0430\u0440\u0445\u0438\u0432 \u65e5\u672c/' + '\u00fe\u00ff' * 5, 'ecc_moved.db')
    shutil.copytree('in', dst)
    for r, _, fs in os.walk(dst):
        for f in sorted(fs):
            t = next(rng_times)
            os.utime(os.path.join(r, f), (t, t))
    with E.shuffled_listing(next(rng_times)):          # the copy is listed in an adversarial (seeded random) directory order
        rc2, _ = E.generate(tool, dst, db2, params + ['--ecc_algo', '3'])
    a = open('ecc3.db', 'rb').read() if os.path.exists('ecc3.db') else b''
    b = open(db2, 'rb').read() if os.path.exists(db2) else b''
    if octx is not None:
        entry_order(octx[0], octx[1], 'moved, shuffled listing', b, files, mirror=True)
    ia = open('ecc3.db.idx', 'rb').read() if os.path.exists('ecc3.db.idx') else b''
    ib = open(db2 + '.idx', 'rb').read() if os.path.exists(db2 + '.idx') else b''
    shift = preamble_len(b) - preamble_len(a)
    ra, rb = idx_records(ia), idx_records(ib)
    shift_only = len(ra) == len(rb) and len(ia) == len(ib) and all(x[0] == y[0] and y[1] - x[1] == shift for x, y in zip(ra, rb))
    shutil.rmtree(dst.split('/')[0])
    return {'rc': [str(rc1), str(rc2)], 'body_equal': rc1 == 0 and rc2 == 0 and E.body(a) == E.body(b) and len(E.body(a)) > 0,
            'idx_equal': ia == ib, 'idx_shift_only': shift_only and shift != 0, 'preamble_shift': shift}


def entry_order(ctx, case, what, ecc_bytes, files, mirror=False):
    """Tie of Proofs/GenDet.v (C12_body_deterministic): the entries of a generated ecc file are those of the model's
    sorted walk over the tree, in that order (paths read back with the independent parser of streamlib)."""
    from props import streamlib as S
    names = sorted(p for p in files if not (mirror and p == '@mirror'))
    got = [e['path'].decode('latin-1') for e in S.parse_pristine(E.body(ecc_bytes))]
    m = ctx.model.run(['walk ' + hxl([p.encode('utf-8') for p in names])])[0]
    want = [] if m == '.' else [unhx(x).decode('utf-8') for x in m.split(',')]
    ctx.evaluations += 1
    ctx.count('entry_order_cases')
    if mirror and '@mirror' in files:
        got = [g for g in got if not g.startswith('mirror/')]
    if got != want:
        ctx.disagree(dict(case, what='entry order: ' + what), want, got, what='entries of the generated ecc file != Walk.walk of the tree')
    else:
        ctx.traces += 1


def genbody(ctx, case, tool, params, ecc_bytes, root='in'):
    """Tie of the COMPOSED model (Walk + Stream.generate + Entry intra-ecc + Pipeline block generation + facade encoder; the object of
    C12_body_deterministic, C03_clean_*_rs, C01_tool_*_rs): the body it computes for the tree on disk, with the hash function and the
    rate -> message-size rule supplied as tables (hashlib; the tool's own compute_ecc_params / feature_scaling), must be byte-identical
    to the body of the ecc file the real tool wrote (codec 3)."""
    import importlib
    import pipe
    def opt(name, default):
        return params[params.index(name) + 1] if name in params else default
    mb, hdr, ri, hk = int(opt('--max_block_size', 255)), int(opt('-s', 1024)), float(opt('-ri', 0.5)), opt('--hash', 'md5')
    mod = importlib.import_module('pyFileFixity.header_ecc' if tool == 'header' else 'pyFileFixity.structural_adaptive_ecc')
    job = {'tool': 'hdr' if tool == 'header' else 'sa', 'mb': mb, 'size': hdr, 'hash': hk,
           'rates': [float(opt('-r', 0.3))] if tool == 'header' else [float(opt('-r1', 0.3)), float(opt('-r2', 0.2)), float(opt('-r3', 0.1))]}
    ik = mod.compute_ecc_params(mb, ri, mod.Hasher('none'))['message_size']
    ms = mod.compute_ecc_params(mb, job['rates'][0], mod.Hasher(hk))['message_size']
    tree = E.read_tree(root)
    htab, seen, musz, mutb = [], set(), [], []
    for rel, c in sorted(tree.items()):
        lay = pipe.gen_layout(job, mod, len(c))
        if lay is None:
            ctx.count('genbody_skipped_geometry'); return
        for (off, l, k, es) in lay:
            m = c[off:off + l]
            if m not in seen:
                seen.add(m); htab += [m, pipe.ref_hash(hk, m)]
        if tool == 'whole' and len(c) not in musz:
            musz.append(len(c)); mutb.append(pipe.mu_table(job, mod, len(c), len(c)))
    try:
        names = sorted(tree)
        paths = [n.replace(os.sep, '/').encode('latin-1') for n in names]
    except UnicodeEncodeError:
        ctx.count('genbody_skipped_non_latin1'); return
    line = 'genbody %d 3 %d %d %d %d %d %s %s %s %s %s' % (
        0 if tool == 'header' else 1, mb, hdr, ms, ik, mb - ik, hxl(htab), ','.join(str(x) for x in musz) or '.',
        ';'.join(','.join(str(x) for x in t) or '1' for t in mutb) or '.', hxl(paths), hxl([tree[n] for n in names]))
    model = unhx(ctx.model.run([line])[0])
    impl = E.body(ecc_bytes)
    ctx.evaluations += 1
    ctx.count('genbody_cases')
    ctx.nontriv(('genbody', tool, tuple(params), len(impl)))
    if model != impl:
        i = next((j for j in range(min(len(model), len(impl))) if model[j] != impl[j]), min(len(model), len(impl)))
        ctx.disagree(dict(case, what='ecc body of the composed model'), {'length': len(model), 'around': model[max(0, i - 20):i + 20].hex()},
                     {'length': len(impl), 'around': impl[max(0, i - 20):i + 20].hex(), 'first_difference': i},
                     what='body computed by the composed model != body written by the tool')
    else:
        ctx.traces += 1


def times(seed):
    import random
    r = random.Random(seed)
    while True:
        yield 1000000000 + r.randrange(10 ** 6)


def codec_level(ctx):
    rng = ctx.rng
    cases = []
    nmax = 8 if ctx.tier == 'quick' else 10
    for n, k in R.geometries_small(nmax):
        for L in range(1, k + 1):
            for m in R.messages(rng, L):
                cases.append((n, k, 0, m))
    for _ in range(150 if ctx.tier == 'quick' else 2000):
        n = rng.choice([12, 20, 33, 64, 100, 255])
        k = rng.choice([1, n - 1, n // 2, rng.randrange(1, n)])
        sk, kc = (n // 2, 0 if k == n // 2 else k) if n > 40 else (k, 0)
        L = rng.choice([k, max(1, k - 1), rng.randrange(1, k + 1)])
        cases.append((n, sk, kc, bytes(rng.randrange(256) for _ in range(L))))
    # the whole-file tool's way of using the codec: ONE object ECCMan(n, 1), the geometry given per call; null and short blocks
    for n in (20, 64, 255):
        for kc in (n // 2, n - 1, max(2, n // 3)):
            for L in (kc, max(1, kc - 3), 1):
                cases.append((n, 1, kc, bytes(L)))
                cases.append((n, 1, kc, bytes(L - 1) + b'\x01' if L > 1 else b'\x00'))
    outs = ctx.model.run(['enc 3 %d %d %d %s' % (n, sk, kc, hx(m)) for n, sk, kc, m in cases])
    for (n, sk, kc, m), o in zip(cases, outs):
        ps = {}
        for a in (1, 2, 3):
            try:
                ps[a] = bytes(R.codec(a, n, sk).encode(m, k=kc or None))
            except Exception as ex:
                ps[a] = ('EXC', repr(ex))
        ctx.evaluations += 1
        ctx.nontriv((n, sk, kc, m))
        case = {'level': 'codec', 'n': n, 'selfk': sk, 'k': kc, 'm': m.hex()}
        if not (ps[1] == ps[2] == ps[3]) or not isinstance(ps[1], bytes):
            ctx.fail(case, {'parities': {a: (p.hex() if isinstance(p, bytes) else p) for a, p in ps.items()}})
        else:
            ctx.traces += 1
            # every codec accepts the (shared) parity
            for b in (1, 2, 3):
                with R.quiet():
                    if not R.codec(b, n, sk).check(m, ps[1], k=kc or None):
                        ctx.fail(case, {'codec %d rejects the shared parity' % b: ps[1].hex()})
        if isinstance(ps[3], bytes) and ps[3] != unhx(o):
            ctx.disagree(case, o, ps[3].hex(), what='model parity != codec 3 parity')
    ctx.count('codec_level_messages', len(cases))
    # table-state robustness: codec 3 used, then the parameter-detection helper of eccman (which re-initialises the shared
    # reedsolo tables on its own), then a NEW codec 3 object: its parity must still be the shared one
    import pyFileFixity.lib.eccman as EM
    for n, k, m in ((20, 11, b'hello world'), (12, 5, b'\x01\x02\x03\x04\x05'), (255, 223, bytes(range(200)))):
        try:
            a = EM.ECCMan(n, k, algo=3); p_before = bytes(a.encode(m))
            with R.quiet():
                EM.detect_reedsolomon_parameters(b'hello world', b'hello world' + bytes(9), gen_list=[2])
            b2 = EM.ECCMan(n, k, algo=3); p_after = bytes(b2.encode(m))
            p1 = bytes(EM.ECCMan(n, k, algo=1).encode(m))
            with R.quiet():
                ok_check = bool(b2.check(m, p1))
        except Exception as ex:
            p_before = p_after = p1 = ('EXC', repr(ex)); ok_check = False
        R._cache['fam'] = None; R._cache['objs'].clear()
        model = unhx(ctx.model.run(['enc 3 %d %d 0 %s' % (n, k, hx(m))])[0])
        ctx.evaluations += 1
        case = {'level': 'codec-tables', 'n': n, 'k': k, 'm': m.hex()}
        if not (p_before == p_after == p1) or not ok_check:
            ctx.fail(case, {'parity_before': p_before.hex() if isinstance(p_before, bytes) else p_before,
                            'parity_after_detect_helper': p_after.hex() if isinstance(p_after, bytes) else p_after,
                            'codec1': p1.hex() if isinstance(p1, bytes) else p1, 'new_codec3_accepts_codec1_parity': ok_check})
        else:
            ctx.traces += 1
        if isinstance(p_after, bytes) and p_after != model:
            ctx.disagree(case, model.hex(), p_after.hex(), what='model parity != codec 3 parity after the detection helper ran')


def trees(ctx):
    rng = ctx.rng
    def rb(n): return bytes(rng.randrange(256) for _ in range(n))
    t = [{'a.txt': rb(300), 'sub/b.bin': rb(1), 'sub/deep/c': b'', 'z\xe9.dat': rb(1500)},
         {'x': rb(64), 'y/y': rb(65), 'y/z z': rb(1024)},
         {'only.bin': rb(2000)},
         # the same content under two names: in the original root they are HARD LINKS to one inode (relocation(): de-duplicated backups,
         # `cp -l` snapshots), in the moved copy two separate files — the body depends on paths and contents only
         (lambda c: {'a.bin': c, 'mirror/a_again.bin': c, 'b.txt': rb(40)})(rb(200)),
         # folders holding only sub-folders, several siblings: the walk order must not depend on the listing order
         {'@mirror': rb(90), 'plain.txt': rb(60)},
         {'p/2019/a.jpg': rb(120), 'p/2020/b.jpg': rb(130), 'p/2018/c.jpg': rb(140), 'p/2021/x/y.jpg': rb(10), 'q/r/s/t': rb(70), 'q/a/u': rb(71)}]
    if ctx.tier == 'thorough':
        for _ in range(6):
            t.append({('d%d/' % rng.randrange(3)) * rng.randrange(0, 3) + 'f%d' % i: rb(rng.choice([0, 1, 63, 64, 65, 500, 1025])) for i in range(rng.randrange(1, 5))})
    return t


PARAMS = {'header': [['--max_block_size', '64', '-s', '256', '-r', '0.3', '-ri', '0.5'], ['--max_block_size', '20', '-s', '100', '-r', '0.5', '-ri', '1.0', '--hash', 'shortmd5']],
          'whole': [['--max_block_size', '64', '-s', '128', '-r1', '0.3', '-r2', '0.2', '-r3', '0.1', '-ri', '0.5'], ['--max_block_size', '30', '-s', '50', '-r1', '0.5', '-r2', '0.5', '-r3', '0.25', '-ri', '0.3', '--hash', 'shortsha256']]}


def tool_level(ctx):
    rng = ctx.rng
    for tool in ('header', 'whole'):
        for pi, params in enumerate(PARAMS[tool][: (1 if ctx.tier == 'quick' else 2)] if False else PARAMS[tool]):
            for ti, files in enumerate(trees(ctx)):
                if ctx.tier == 'quick' and (ti + pi) % 2 == 1 and ti > 0:
                    continue
                with E.Scratch() as d:
                    E.write_tree('in', files)
                    gen = {}
                    for a in (1, 2, 3):
                        rc, out = E.generate(tool, 'in', 'ecc%d.db' % a, params + ['--ecc_algo', str(a)])
                        gen[a] = (rc, E.body(open('ecc%d.db' % a, 'rb').read()) if os.path.exists('ecc%d.db' % a) else None,
                                  open('ecc%d.db.idx' % a, 'rb').read() if os.path.exists('ecc%d.db.idx' % a) else None)
                    ctx.evaluations += 1
                    case = {'level': 'tool', 'tool': tool, 'params': params, 'tree': {k: v.hex() for k, v in files.items()}}
                    key = (tool, pi, ti)
                    ctx.nontriv(key + ('gen',))
                    if not (gen[1] == gen[2] == gen[3]) or gen[1][0] != 0 or not gen[1][1]:
                        ctx.fail(dict(case, what='bodies differ across codecs 1-3'), {'rc': [str(gen[a][0]) for a in (1, 2, 3)],
                                 'body_lengths': [len(gen[a][1] or b'') for a in (1, 2, 3)]})
                        continue
                    ctx.traces += 1
                    entry_order(ctx, case, 'original root', open('ecc3.db', 'rb').read(), files)
                    genbody(ctx, case, tool, params, open('ecc3.db', 'rb').read())
                    # relocation + touch: same-length paths (identical preamble length) and different-length paths
                    for same, wide in ((True, False), (False, False), (False, True)):
                        if wide and ti % 3 != 0:
                            continue
                        shutil.rmtree('in')
                        r = relocation(tool, params, files, times(rng.randrange(10 ** 6)), same, octx=(ctx, case), wide=wide)
                        ctx.evaluations += 1
                        ctx.nontriv(key + ('moved', same, wide))
                        if not r['body_equal'] or not r['idx_equal']:
                            ctx.fail(dict(case, what='relocation', same_length=same, wide=wide), r)
                        else:
                            ctx.traces += 1
                    if '@mirror' in files:      # the mirror tree exists for the relocation check only
                        ctx.count('tool_level_trees'); continue
                    # cross-codec repair: damage one byte in the protected region of every non-empty file
                    dmg = {}
                    for p, c in files.items():
                        if c:
                            b = bytearray(c); b[0] ^= 0x55; dmg[p] = bytes(b)
                        else:
                            dmg[p] = c
                    shutil.rmtree('in'); E.write_tree('in', dmg)
                    for ga, ca in itertools.product((1, 2, 3), repeat=2):
                        if ctx.tier == 'quick' and (ga + ca + ti) % 3 and ga != ca:
                            continue
                        if os.path.isdir('out'):
                            shutil.rmtree('out')
                        os.mkdir('out')
                        rc, log = E.correct(tool, 'in', 'ecc%d.db' % ga, 'out', params + ['--ecc_algo', str(ca)])
                        outs = E.read_tree('out')
                        ctx.evaluations += 1
                        ctx.nontriv(key + (ga, ca))
                        want = {p.replace(os.sep, '/'): c for p, c in files.items() if c}
                        hdr = int(params[params.index('-s') + 1])
                        okfiles = all(p in outs and (outs[p] == c if tool == 'whole' else outs[p][:hdr] == c[:hdr]) for p, c in want.items())
                        if rc != 0 or not okfiles or set(outs) != set(want):
                            ctx.fail(dict(case, what='cross-codec repair', pair=[ga, ca]), {'rc': str(rc), 'outputs': sorted(outs), 'expected': sorted(want), 'stats': E.stats(log)})
                        else:
                            ctx.traces += 1
                    ctx.count('tool_level_trees')


def run(ctx):
    codec_level(ctx)
    tool_level(ctx)


def replay_case(ctx, case):
    if case.get('level') == 'codec-tables':
        import pyFileFixity.lib.eccman as EM
        n, k, m = case['n'], case['k'], bytes.fromhex(case['m'])
        a = EM.ECCMan(n, k, algo=3); pb = bytes(a.encode(m))
        with R.quiet():
            EM.detect_reedsolomon_parameters(b'hello world', b'hello world' + bytes(9), gen_list=[2])
        pa = bytes(EM.ECCMan(n, k, algo=3).encode(m)); p1 = bytes(EM.ECCMan(n, k, algo=1).encode(m))
        R._cache['fam'] = None; R._cache['objs'].clear()
        return {'holds': pb == pa == p1, 'before': pb.hex(), 'after': pa.hex(), 'codec1': p1.hex()}
    if case.get('level') == 'codec':
        n, sk, kc, m = case['n'], case['selfk'], case['k'], bytes.fromhex(case['m'])
        ps = [bytes(R.codec(a, n, sk).encode(m, k=kc or None)) for a in (1, 2, 3)]
        model = ctx.model.run(['enc 3 %d %d %d %s' % (n, sk, kc, hx(m))])[0]
        return {'holds': ps[0] == ps[1] == ps[2], 'parities': [p.hex() for p in ps], 'model': model}
    tool, params = case['tool'], case['params']
    files = {k: bytes.fromhex(v) for k, v in case['tree'].items()}
    with E.Scratch() as d:
        if case.get('what') == 'relocation':
            r = relocation(tool, params, files, times(1), case['same_length'], wide=case.get('wide', False))
            r['holds'] = r['body_equal'] and r['idx_equal']
            return r
        E.write_tree('in', files)
        bodies = []
        for a in (1, 2, 3):
            rc, out = E.generate(tool, 'in', 'e%d.db' % a, params + ['--ecc_algo', str(a)])
            bodies.append((str(rc), E.body(open('e%d.db' % a, 'rb').read()) if os.path.exists('e%d.db' % a) else None,
                           open('e%d.db.idx' % a, 'rb').read() if os.path.exists('e%d.db.idx' % a) else None))
        holds = bodies[0] == bodies[1] == bodies[2] and bodies[0][0] == '0'
        res = {'holds': holds, 'rc': [b[0] for b in bodies], 'body_lengths': [len(b[1] or b'') for b in bodies]}
        if holds and case.get('what') == 'cross-codec repair':
            ga, ca = case['pair']
            dmg = {p: (bytes([c[0] ^ 0x55]) + c[1:] if c else c) for p, c in files.items()}
            shutil.rmtree('in'); E.write_tree('in', dmg); os.mkdir('out')
            rc, log = E.correct(tool, 'in', 'e%d.db' % ga, 'out', params + ['--ecc_algo', str(ca)])
            outs = E.read_tree('out')
            hdr = int(params[params.index('-s') + 1])
            ok = rc == 0 and all(p in outs and (outs[p] == c if tool == 'whole' else outs[p][:hdr] == c[:hdr]) for p, c in files.items() if c)
            res.update({'holds': ok, 'repair_rc': str(rc), 'outputs': sorted(outs)})
        return res


def classify(case, detail):
    """known finding: the .idx holds absolute offsets into the ecc file, whose comment preamble repeats argv: when the
    command line has another length (tree moved to a path of another length) every offset shifts by that constant.
    Narrow: body identical, same records, kinds equal, every offset shifted by exactly the preamble length difference."""
    if case.get('what') == 'relocation' and not case.get('same_length') and isinstance(detail, dict) \
            and detail.get('body_equal') and detail.get('idx_shift_only') and not detail.get('idx_equal'):
        return 'C12-idx-offsets-include-preamble'
    return None


def shrink(ctx, case):
    return case
