# C04 — repairs are conservative.  End-to-end runs of `pff header` / `pff whole` (generate, damage of
# any weight, correct), correspondence of the extracted Pipeline model with every file the tool
# processed (output bytes, verdict per block, oracle call sequence, counters, exit status) and the
# property predicate evaluated on the implementation's own outputs.
import json, os
import pipe
from common import hx

RULE = ('thorough tier only: one sparse file of 2 GiB + 3 MiB, header damaged, `pff header -c` as a process: output length = input length, the '
        'bytes around the 2 GiB mark and at the end are the input\'s; '
        'fixed corpus (track shorter than the block list: file extended under --ignore_size, cut track; recorded size below '
        'the header size; >10 consecutive unrepairable blocks; all-zero blocks) then random scenarios: both tools, codecs 1-4 '
        '(one child process per GF-table family), max_block_size 2..255, header sizes 1..1024, rates 0.05..1.0 (whole tool: '
        'increasing / decreasing / equal stage triples), five hash kinds, fast check and --no_fast_check, trees of 1-4 files '
        '(sizes 0, 1, around block / header boundaries, random <= 3000; nested and latin-1 names), damage of any weight: random '
        'bytes, bursts, zero-fill, whole file, stored hash bytes, parity bytes, both, file + track together, truncation / '
        'extension with --ignore_size, track cut short.  Per scenario: the real main() generates and corrects; the model is run on '
        'the parsed inputs of each processed file with the recorded hash / check / decode answers; predicate straight from the '
        'statement.  non-trivial = at least one block flagged; distinct by (tool, codec, hash, fast, damage kind, set of verdicts).  '
        'Added damage kinds: parity_swap (block and hash intact, parity of a neighbouring message), late_mix (>= 10 intact blocks, one '
        'destroyed, a later one repairable: partial-recovery clause), over1 (one symbol beyond capacity).  Facade level: radius clause on '
        'what ECCMan.decode accepts, errors only and with erasures (2e+f just beyond n-k), all codecs; ECCMan.decode = FacadeDec wrapper on '
        'the captured answer of the inner decoder, all codecs.  Tool level: toolrun stream (whole correction runs against the composed '
        'model) for the beyond-capacity kinds.')
TRUSTED_EXTRA = ['modelled: header_ecc.entry_assemble + per-block loop + output assembly + counters + exit status; '
                 'structural_adaptive_ecc.stream_entry_assemble + detection pass + repair pass + output assembly/removal + counters + exit status',
                 'oracles (not verified): Hasher.hash (re-derived with hashlib on every call), ECCMan.check / ECCMan.decode '
                 '(recorded per call and handed to the model as tables; the within-radius clause is re-checked with a fresh codec object)',
                 'entry scanning / metadata parsing are other properties\' subjects: the model receives the entry as the tool parsed it']
ASSUMPTIONS = ['dec_len: the codec facade returns a message of the length it was given (checked on every recorded decode call)',
               'dec_bounded: an answer of the facade that passes its own check re-encodes to a codeword within the decoding radius of the '
               'received block+parity (needed only for the within-radius clause; checked independently on every altered output block)',
               'the ecc entry metadata (path, size, their intra-ecc) is intact: damage is applied to files and to hash / parity bytes of the track']

HASHES = ['md5', 'shortmd5', 'shortsha256', 'minimd5', 'minisha256']


def predicate(job, res):
    """C04 on the implementation's observed behaviour.  Returns a list of failures (empty = holds)."""
    fails = []
    if res['corr'][0] != 'RC':
        fails.append({'what': 'the run did not end with an exit status', 'observed': res['corr']})
    if not res['inputs_unchanged']:
        fails.append({'what': 'an input file (or the ecc file) was modified'})
    if res['bad_open']:
        fails.append({'what': 'input opened for writing', 'opens': res['bad_open'][:3]})
    unrep = set((p, i) for p, i, c in res['log_events'] if c == 4)
    if unrep and res['corr'][0] == 'RC' and isinstance(res['corr'][1], int) and (res['corr'][1] & 0xFF) == 0:      # the exit status the caller of `pff` sees: sys.exit(n) keeps the low 8 bits
        fails.append({'what': 'exit status 0 although a block was reported unrepairable', 'blocks': sorted(unrep)[:5]})
    seen = set()
    for ent in res.get('files', []):
        rel = ent['rel']
        seen.add(rel)
        ob = res['outputs'].get(rel)
        if ob is None:
            continue
        nin, nout = len(ent['file']) // 2, len(ob) // 2
        if nin != nout:
            fails.append({'what': 'length', 'file': rel, 'output': nout, 'input': nin, 'blocks_with_track': len(ent['facts'])})
            continue
        if ent.get('ill_formed'):
            continue      # geometry outside the well-formed range reached: no block partition to speak of (counted by the caller)
        end = 0
        for bi, f in enumerate(ent['facts']):
            end = max(end, f['off'] + f['len'])
            if f.get('same') is False:
                okh = f.get('out_hash_ok')
                okr = (f.get('radius') or {}).get('ok')
                if not (okh or okr):
                    fails.append({'what': 'altered block neither matches the stored hash nor lies within the radius', 'file': rel, 'block': bi, 'facts': f})
                if job.get('fast', True) and f['in_hash_ok']:
                    fails.append({'what': 'block matching its stored hash was altered in the default mode', 'file': rel, 'block': bi})
                if (rel, bi) in unrep:
                    fails.append({'what': 'block reported unrepairable was altered', 'file': rel, 'block': bi})
        if ob[2 * end:] != ent['file'][2 * end:]:
            fails.append({'what': 'bytes outside the assembled blocks differ from the input', 'file': rel})
    for rel in res['outputs']:
        if rel not in seen:
            fails.append({'what': 'output file for a file that was not processed', 'file': rel})
    # partial recovery: "blocks that cannot be repaired are copied through unchanged ALONGSIDE THE REPAIRED ONES" — a damaged block that
    # is flagged (hash mismatch) and lies within the errors-only capacity of its stored parity is restored in the output even when
    # other blocks of the file are beyond repair.  Not demanded when the documented give-up rule can apply (the first 11 blocks of the
    # file are all damaged beyond capacity), nor with erasure handling on (decoder completeness there is the open finding of C02).
    if not job.get('erasures') and res.get('markers_ok', True):
        for ent in res.get('files', []):
            fs = ent.get('facts') or []
            if ent.get('ill_formed') or not fs or any('repairable' not in f for f in fs):
                continue
            head = fs[:11]
            lost = lambda f: (not f['in_hash_ok']) and not f['repairable']      # flagged, and block + stored parity beyond capacity
            if len(head) == 11 and all(lost(f) for f in head):
                continue
            if not any(lost(f) for f in fs):
                continue          # fully repairable files are C01's subject
            ob = res['outputs'].get(ent['rel'])
            for bi, f in enumerate(fs):
                if f['dmg'] and f['repairable'] and not f['in_hash_ok'] and (ob is None or not f.get('restored')):
                    fails.append({'what': 'partial recovery: a repairable block was not restored next to an unrepairable one',
                                  'file': ent['rel'], 'block': bi, 'output_written': ob is not None})
                    break
    return fails


def assumption_checks(ctx, job, res):
    for ent in res.get('files', []):
        for c in ent['calls']:
            if c[0] == 'D' and c[4] is not None:
                ctx.count('decode_answers')
                if len(c[4][0]) != len(c[2]):
                    ctx.count('ASSUMPTION_dec_len_broken')
    if res.get('mu_rule_differs'):
        ctx.count('NOTE_rate_rule_of_the_tool_differs_from_the_harness_formula', res['mu_rule_differs'])
    if res.get('hash_bad'):
        ctx.count('ASSUMPTION_hash_oracle_mismatch', res['hash_bad'])


def handle(ctx, job, res, origin):
    case = job
    ctx.evaluations += 1
    ctx.count('tool=%s' % job['tool'])
    ctx.count('codec=%d' % job['algo'])
    ctx.count('damage=%s' % job['damage']['kind'])
    ctx.count('origin=%s' % origin)
    if not res.get('ok'):
        if res.get('ambiguous'):
            ctx.count('dropped_ambiguous_format')
            return
        ctx.fail(case, {'what': 'scenario could not be run', 'gen': res.get('gen'), 'error': res.get('harness_error')})
        return
    assumption_checks(ctx, job, res)
    pipe.correspondence(ctx, job, res, case)
    fails = predicate(job, res)
    if fails:
        ctx.fail(case, {'failures': fails[:6]})
    verd = sorted(set(c for _, _, c in res['log_events'] if c != 'flag'))
    if verd:
        ctx.nontriv((job['tool'], job['algo'], job['hash'], job.get('fast', True), job['damage']['kind'], tuple(verd)))
    for p, i, c in res['log_events']:
        ctx.count('impl_event=%s' % c)
    ctx.count('exit=%s' % (res['corr'][1] if res['corr'][0] == 'RC' else res['corr'][0]))
    ctx.count('outputs', len(res['outputs']))
    ctx.sample({'tool': job['tool'], 'codec': job['algo'], 'mb': job['mb'], 'damage': job['damage'], 'exit': res['corr'],
                'stats': res['stats'], 'outputs': {k: len(v) // 2 for k, v in res['outputs'].items()}}, cap=5)


# ----------------------------------------------------------------------------------------------
# generators
# ----------------------------------------------------------------------------------------------
def content(rng, n, style):
    if style == 'zeros':
        return bytes(n)
    if style == 'text':
        return bytes(rng.choice(b'abcdefghij klmnopqrstuvwxyz\n') for _ in range(n))
    if style == 'nozero':
        return bytes(rng.randrange(1, 256) for _ in range(n))
    return bytes(rng.randrange(256) for _ in range(n))


NAMES = ['a.bin', 'b.txt', 'sub/c.dat', 'sub/deep/er/d', 'x y.z', '\xe9t\xe9.txt', 'sub/\xfcber', 'k|v.csv', 'e', '50%done.dat', 'notes%20final.bin', 'sub/100%s {0}.txt']


def well_formed(mb, rates):
    """1 <= message size < max_block_size for every rate in use (a parity of 0 symbols is rejected by the codecs)."""
    return all(1 <= int(round(float(mb) / (1 + 2 * r), 0)) < mb for r in rates)


def params(rng, tier):
    while True:
        p = params1(rng, tier)
        if well_formed(p['mb'], p['rates'] + [p['ri']]):
            return p


def params1(rng, tier):
    tool = rng.choice(['hdr', 'sa'])
    algo = rng.choice([3, 3, 3, 4, 4, 2, 1])
    mb = rng.choice([4, 7, 16, 16, 40, 40, 64, rng.randrange(2, 256), rng.randrange(2, 64), 255 if rng.random() < 0.35 else 20])
    if algo in (1, 2) and mb > 100 and tier == 'quick':
        mb = rng.randrange(8, 100)
    size = rng.choice([1, 10, 64, 200, 200, 1024])
    if tool == 'hdr':
        rates = [rng.choice([0.05, 0.1, 0.3, 0.3, 0.5, 1.0, round(rng.uniform(0.05, 1.0), 3)])]
    else:
        rates = rng.choice([[0.3, 0.2, 0.1], [0.1, 0.2, 0.5], [0.3, 0.3, 0.3], [1.0, 0.5, 0.05],
                            [round(rng.uniform(0.05, 1.0), 3) for _ in range(3)]])
    return {'tool': tool, 'algo': algo, 'mb': mb, 'size': size, 'rates': rates, 'ri': rng.choice([0.5, 0.3, 1.0]),
            'hash': rng.choice(HASHES), 'fast': rng.random() < 0.7}


def tree(rng, job, maxlen=3000):
    nfiles = rng.choice([1, 1, 2, 3, 4])
    names = rng.sample(NAMES, nfiles)
    t = {}
    ms = max(1, int(round(job['mb'] / (1 + 2 * job['rates'][0]))))
    for nm in names:
        n = rng.choice([0, 1, ms - 1, ms, ms + 1, 2 * ms, job['size'] - 1, job['size'], job['size'] + 1, 12 * ms + 3,
                        rng.randrange(0, maxlen), rng.randrange(0, 400), rng.randrange(0, 400)])
        n = max(0, min(n, maxlen))
        t[nm] = content(rng, n, rng.choice(['rand', 'rand', 'text', 'zeros', 'nozero'])).hex()
    return t


def damage(rng):
    k = rng.choice(['file_rand', 'file_rand', 'file_burst', 'file_zero', 'file_all', 'hash', 'parity', 'track', 'both', 'both',
                    'trunc', 'extend', 'extend', 'cut_track', 'cut_track', 'none', 'over1', 'over1', 'parity_swap', 'late_mix'])
    d = {'kind': k, 'targets': rng.choice(['one', 'all', 'all']), 'weight': rng.choice([1, 1, 2, 3, 5, 8, 20, 60, 300, 1500])}
    if k in ('hash', 'parity', 'track', 'both'):
        d['nblocks'] = rng.choice([1, 2, 5, 'all'])
        d['fweight'] = rng.choice([1, 2, 5, 40])
        d['also_file'] = rng.random() < 0.5
        d['zero'] = rng.random() < 0.15
    if k in ('trunc', 'extend', 'cut_track'):
        d['also_file'] = rng.random() < 0.8
        d['fweight'] = rng.choice([1, 3, 10, 100])
    return d


def scenario(rng, tier):
    job = params(rng, tier)
    job['tree'] = tree(rng, job)
    job['damage'] = damage(rng)
    job['dseed'] = rng.randrange(1 << 30)
    if job['damage']['kind'] in ('trunc', 'extend'):
        job['ignore_size'] = True
    elif rng.random() < 0.1:
        job['ignore_size'] = True
    if rng.random() < 0.12:
        job['erasures'] = {'sym': rng.choice([0, 0, 255, 32]), 'only': rng.random() < 0.2}
    if rng.random() < 0.08 and job['tree']:
        job['single'] = rng.choice(sorted(job['tree']))
    if rng.random() < 0.1:
        job['moved'] = True
    return job


def corpus(rng):
    """Fixed cases, run first: the shapes behind the defects found while building this check."""
    r = __import__('random').Random(1234)
    big = content(r, 3000, 'rand').hex()
    mid = content(r, 700, 'nozero').hex()
    small = content(r, 130, 'text').hex()
    base = {'algo': 3, 'mb': 40, 'size': 200, 'ri': 0.5, 'hash': 'shortmd5', 'fast': True, 'dseed': 7}
    out = []
    for tool, rates in (('hdr', [0.3]), ('sa', [0.3, 0.2, 0.1])):
        b = dict(base, tool=tool, rates=rates)
        # file extended under --ignore_size, damaged in the protected part: the track is shorter than the block list
        out.append(dict(b, tree={'a.bin': mid, 'd/b.txt': small, 'e': ''}, ignore_size=True,
                        damage={'kind': 'extend', 'weight': 300, 'targets': 'all', 'also_file': True, 'fweight': 3}))
        # the track of one entry cut short
        out.append(dict(b, tree={'a.bin': mid, 'd/b.txt': small}, damage={'kind': 'cut_track', 'weight': 100, 'targets': 'all', 'also_file': True, 'fweight': 30}))
        out.append(dict(b, size=1024, tree={'big': big}, damage={'kind': 'cut_track', 'weight': 600, 'targets': 'one', 'also_file': True, 'fweight': 40}))
        # everything destroyed: more than ten consecutive unrepairable blocks (the early break)
        out.append(dict(b, size=1024, tree={'big': big, 'z': small}, damage={'kind': 'file_all', 'targets': 'all'}))
        out.append(dict(b, size=1024, tree={'big': big}, damage={'kind': 'file_burst', 'weight': 1500, 'targets': 'all'}))
        # all-zero content, damaged (codecs 1/2 strip leading zero coefficients of the parity they return)
        for algo in (1, 2, 3, 4):
            out.append(dict(b, algo=algo, mb=16, tree={'zero': bytes(90).hex()}, damage={'kind': 'file_rand', 'weight': 2, 'targets': 'all'}))
        # one symbol beyond the errors-only capacity with an ODD number of parity symbols, hash damaged too (codecs 1/2 once
        # returned a codeword at distance (parity+1)/2 that the tools committed): nothing outside the radius may be written
        for algo in (1, 2, 3):
            for dseed in (1, 2, 3):
                out.append(dict(b, algo=algo, mb=20, size=200, rates=[0.17] * len(rates), tree={'f.bin': content(r, 150, 'rand').hex()},
                                damage={'kind': 'over1', 'targets': 'all'}, dseed=dseed))
        # exactly 256 files with an unrepairable block: the exit status must still be non-zero (a COUNT used as exit status wraps modulo 256)
        if tool == 'hdr':
            out.append(dict(b, mb=16, size=40, tree={'m/%03d' % i: content(r, 24, 'rand').hex() for i in range(256)}, damage={'kind': 'file_all', 'targets': 'all'}))
        # truncation with --ignore_size, hash bytes only, parity only with the syndrome pre-check
        out.append(dict(b, tree={'a.bin': mid}, ignore_size=True, damage={'kind': 'trunc', 'weight': 333, 'targets': 'all', 'also_file': True, 'fweight': 3}))
        out.append(dict(b, tree={'a.bin': mid}, damage={'kind': 'hash', 'weight': 3, 'nblocks': 3, 'targets': 'all'}))
        out.append(dict(b, tree={'a.bin': mid}, fast=False, damage={'kind': 'parity', 'weight': 2, 'nblocks': 3, 'targets': 'all'}))
        out.append(dict(b, tree={'a.bin': mid}, fast=True, damage={'kind': 'parity', 'weight': 2, 'nblocks': 3, 'targets': 'all'}))
        out.append(dict(b, tree={'a.bin': mid}, single='a.bin', damage={'kind': 'file_rand', 'weight': 4, 'targets': 'all'}))
        # intact block and hash, parity of a neighbouring message: the default mode must not touch the block, whatever the hash kind
        for hk in HASHES:
            out.append(dict(b, hash=hk, fast=True, tree={'a.bin': mid, 'b': small}, damage={'kind': 'parity_swap', 'targets': 'all'}))
        out.append(dict(b, hash='minimd5', fast=False, tree={'a.bin': mid}, damage={'kind': 'parity_swap', 'targets': 'all', 'blocks': 'some'}))
        # partial recovery far from the start of the file: >= 10 intact blocks, one destroyed block, a later repairable one
        for dseed in (1, 2, 3):
            out.append(dict(b, size=1024, tree={'big': big, 'mid.bin': mid}, damage={'kind': 'late_mix', 'targets': 'all'}, dseed=dseed))
    return out


def facade_answer(algo, n, k, m, e):
    """what ECCMan.decode does with the received (m, e) and whether the tools would commit it on the syndrome check alone"""
    from props import rs_common as R
    c = R.codec(algo, n, k)
    with R.quiet():
        try:
            rm, re_ = c.decode(m, e)
            rm, re_ = bytes(rm), bytes(re_)
        except Exception as ex:
            return None, type(ex).__name__
        ok = bool(c.check(rm, re_))
    return (rm, re_, ok), None


def facade_wrapper_case(ctx, algo, n, k, m, e, er=None):
    """ECCMan.decode = FacadeDec.fac_decode12 around the third-party decoder (codecs 1/2: unireedsolomon's decode / decode_fast;
    codecs 3/4: reedsolo.rs_correct_msg_nofsynd / rs_correct_msg, since fix 90b3a68 under the same capacity check).  The inner
    decoder's own answer is captured and handed to the extracted model; the model's verdict (answer let through / refused by the
    capacity check) and bytes must equal what ECCMan.decode did."""
    import sys
    from props import rs_common as R
    c = R.codec(algo, n, k)
    inner = {'ans': None}

    def wrap(f):
        def g(*a, **kw):
            inner['ans'] = None
            r = f(*a, **kw)
            inner['ans'] = (bytes(r[0], 'latin-1') if isinstance(r[0], str) else bytes(bytearray(r[0])),
                            bytes(r[1], 'latin-1') if isinstance(r[1], str) else bytes(bytearray(r[1])))
            return r
        return g
    if algo in (1, 2):
        holder, names = c.ecc_manager, ('decode', 'decode_fast')
    else:
        holder, names = sys.modules[type(c).__module__].reedsolo, ('rs_correct_msg', 'rs_correct_msg_nofsynd')
    saved = [getattr(holder, nm) for nm in names]
    for nm, f in zip(names, saved):
        setattr(holder, nm, wrap(f))
    try:
        with R.quiet():
            try:
                if er is None:
                    rm, re_ = c.decode(m, e)
                else:
                    rm, re_ = c.decode(m, e, enable_erasures=True, erasures_char=er)
                impl = 'S %s %s' % (hx(bytes(rm)), hx(bytes(re_)))
            except Exception as ex:
                impl = 'N' if type(ex).__name__ in ('RSCodecError', 'ReedSolomonError') else 'EXC ' + type(ex).__name__
    finally:
        for nm, f in zip(names, saved):
            setattr(holder, nm, f)
    ia = inner['ans']
    line = 'facdec12 %d %d 0 %d %s %s %d %s %s' % (n, k, 256 if er is None else er, hx(m), hx(e), 1 if ia else 0,
                                                   hx(ia[0]) if ia else '-', hx(ia[1]) if ia else '-')
    model = ctx.model.run([line])[0]
    return impl, model, ia


def facade_radius_case_er(algo, n, k, m, e, er):
    """the same clause with erasure handling on: an accepted answer that changes the message lies within 2*errors + erasures <= n-k,
    an erasure being every received symbol equal to the erasure symbol (the message is full length here: no padding)"""
    from props import rs_common as R
    c = R.codec(algo, n, k)
    with R.quiet():
        try:
            rm, re_ = c.decode(m, e, enable_erasures=True, erasures_char=er)
            rm, re_ = bytes(rm), bytes(re_)
        except Exception as ex:
            return True, {'decoder': type(ex).__name__}
        ok = bool(c.check(rm, re_))
    rec, rep = m + e, rm + re_
    er_pos = set(i for i, x in enumerate(rec) if x == er)
    ne = sum(1 for i, (x, y) in enumerate(zip(rec, rep)) if x != y and i not in er_pos) + abs(len(rec) - len(rep))
    bad = ok and rm != m and 2 * ne + len(er_pos) > n - k
    return not bad, {'answer': [rm.hex(), re_.hex()], 'check': ok, 'errors': ne, 'erasures': len(er_pos), 'n-k': n - k}


def facade_radius_case(algo, n, k, m, e):
    """C04's block clause at the facade boundary: an answer that passes the check and changes the message must lie within
    the decoding radius (errors only: 2 * #changed symbols of message+parity <= n-k)."""
    ans, exc = facade_answer(algo, n, k, m, e)
    if ans is None:
        return True, {'decoder': exc}
    rm, re_, ok = ans
    d = sum(1 for x, y in zip(m + e, rm + re_) if x != y) + abs(len(m + e) - len(rm + re_))
    bad = ok and rm != m and 2 * d > n - k
    return not bad, {'answer': [rm.hex(), re_.hex()], 'check': ok, 'changed_symbols': d, 'n-k': n - k}


def facade_radius_stream(ctx):
    """codecs 1-4, small codes with an ODD number of parity symbols, one symbol beyond capacity spread over message and parity:
    the region where a decoder can return a codeword at distance (n-k+1)/2 (ambiguous decoding)"""
    from props import rs_common as R
    rng = ctx.rng
    trials = 900 if ctx.tier == 'quick' else 6000
    for algos in ((1, 2, 3), (4,)):
        for algo in algos:
            for n, k in ((6, 5), (8, 5), (10, 7), (12, 7), (20, 15), (9, 2)):
                c = R.codec(algo, n, k)
                t = (n - k) // 2
                for _ in range(trials // 6):
                    m0 = bytes(rng.randrange(256) for _ in range(k)); p0 = bytes(c.encode(m0)); w = m0 + p0
                    pos = rng.sample(range(n), min(n, t + 1 + rng.choice([0, 0, 1])))
                    r = bytearray(w)
                    for p in pos:
                        r[p] = rng.choice([x for x in range(256) if x != w[p]])
                    r = bytes(r)
                    holds, det = facade_radius_case(algo, n, k, r[:k], r[k:])
                    if True:
                        L = rng.choice([k, k, max(1, k - 1)])          # also short (left-padded) messages
                        er = rng.choice([None, None, 0, 255])
                        m_, e_ = r[k - L:k], r[k:]
                        impl, model, ia = facade_wrapper_case(ctx, algo, n, k, m_, e_, er)
                        ctx.count('facade_wrapper:' + ('let-through' if impl.startswith('S') else 'refused' if impl == 'N' else 'other'))
                        if impl != model:
                            ctx.disagree({'kind': 'facade-wrapper', 'algo': algo, 'n': n, 'k': k, 'm': m_.hex(), 'e': e_.hex(), 'er': er},
                                         model, impl, what='ECCMan.decode != FacadeDec.fac_decode12 on the captured inner answer')
                    # erasures on: f symbols set to the erasure symbol plus e wrong symbols with 2e + f just beyond n-k
                    ers = rng.choice([0, 255])
                    nf = rng.randrange(1, n - k + 1)
                    ne_ = (n - k - nf) // 2 + 1
                    if nf + ne_ <= n:
                        pos2 = rng.sample(range(n), nf + ne_)
                        r2 = bytearray(w)
                        for p in pos2[:nf]:
                            r2[p] = ers
                        for p in pos2[nf:]:
                            r2[p] = rng.choice([x for x in range(256) if x != w[p] and x != ers])
                        r2 = bytes(r2)
                        h2, det2 = facade_radius_case_er(algo, n, k, r2[:k], r2[k:], ers)
                        ctx.evaluations += 1
                        ctx.count('facade_radius_erasures:' + ('refused' if 'decoder' in det2 else 'answered'))
                        if not h2:
                            ctx.fail({'kind': 'facade-er', 'algo': algo, 'n': n, 'k': k, 'm': r2[:k].hex(), 'e': r2[k:].hex(), 'er': ers}, det2)
                        else:
                            ctx.traces += 1
                    ctx.evaluations += 1
                    ctx.count('facade_radius:' + ('refused' if 'decoder' in det else 'answered'))
                    case = {'kind': 'facade', 'algo': algo, 'n': n, 'k': k, 'm': r[:k].hex(), 'e': r[k:].hex()}
                    if 'answer' in det and det['check'] and det['answer'][0] != r[:k].hex():
                        ctx.nontriv(('facade', algo, n, k, r))
                    if not holds:
                        ctx.fail(case, det)
                    else:
                        ctx.traces += 1


def huge_tail_case(size=(1 << 31) + (3 << 20)):
    """`pff header -c` on a (sparse) file larger than 2 GiB whose protected header is damaged: the output has the length of the input
    and everything after the header is the input's (real data just below / above the 2 GiB mark and at the very end).  Thorough tier only
    (about 2.2 GB of temporary disk for the output, removed afterwards).  Property predicate only."""
    import tempfile, shutil
    from props import cli_proc
    d = tempfile.mkdtemp(prefix='pffc04huge')
    try:
        os.makedirs(d + '/in'); os.makedirs(d + '/out')
        marks = {0: bytes((i * 7 + 1) % 251 for i in range(4096)), (1 << 31) - 4096 - 77: b'just below the 2 GiB mark' * 40,
                 (1 << 31) + 12345: b'above the 2 GiB mark' * 50, size - 1000: bytes((i * 3) % 256 for i in range(1000))}
        with open(d + '/in/big.bin', 'wb') as f:
            for off, data in marks.items():
                f.seek(off); f.write(data)
            f.truncate(size)
        rc, out = cli_proc.pff(['header', '-i', 'in', '-d', 'ecc.db', '-g', '-f', '--silent'], d)
        if rc != 0:
            return {'holds': False, 'why': 'generation failed', 'exit': rc, 'tail': out[-300:]}
        with open(d + '/in/big.bin', 'r+b') as f:
            f.seek(10); f.write(b'\x00\x01\x02')
        rc, out = cli_proc.pff(['header', '-i', 'in', '-d', 'ecc.db', '-c', '-o', 'out', '--silent'], d)
        op = d + '/out/big.bin'
        if not os.path.isfile(op):
            return {'holds': False, 'why': 'no output file', 'exit': rc, 'tail': out[-300:]}
        osz = os.path.getsize(op)
        why = []
        if osz != size:
            why.append('output has %d bytes, the damaged input has %d' % (osz, size))
        with open(op, 'rb') as g:
            for off, data in marks.items():
                g.seek(off)
                got = g.read(len(data))
                if got != data:
                    why.append('bytes at offset %d differ from the original' % off)
        return {'holds': not why, 'why': why, 'exit': rc, 'input_bytes': size, 'output_bytes': osz}
    finally:
        shutil.rmtree(d, ignore_errors=True)


def run(ctx):
    rng = ctx.rng
    if ctx.tier != 'quick':
        r = huge_tail_case()
        ctx.evaluations += 1
        ctx.count('huge_file_header_tail')
        ctx.nontriv(('huge-tail',))
        if not r['holds']:
            ctx.fail({'kind': 'huge-tail'}, r)
        else:
            ctx.traces += 1
    from props import toolrun_lib
    toolrun_lib.stream(ctx, only_kinds=('heavy', 'one-heavy', 'track', 'grown-ignore', 'light-nofast'))
    facade_radius_stream(ctx)
    cj = corpus(rng)
    for job, res in zip(cj, pipe.run_jobs(cj)):
        handle(ctx, job, res, 'corpus')
    n = 450 if ctx.tier == "quick" else 3000
    jobs = [scenario(rng, ctx.tier) for _ in range(n)]
    step = 1000
    for s in range(0, len(jobs), step):
        for job, res in zip(jobs[s:s + step], pipe.run_jobs(jobs[s:s + step])):
            handle(ctx, job, res, 'random')


def replay_case(ctx, case):
    if case.get('kind') == 'huge-tail':
        return huge_tail_case()
    if case.get('stream') == 'toolrun':
        from props import toolrun_lib
        return toolrun_lib.replay(ctx, case)
    if case.get('kind') == 'facade-er':
        h, det = facade_radius_case_er(case['algo'], case['n'], case['k'], bytes.fromhex(case['m']), bytes.fromhex(case['e']), case['er'])
        return {'holds': h, 'implementation': det}
    if case.get('kind') == 'facade-wrapper':
        impl, model, ia = facade_wrapper_case(ctx, case['algo'], case['n'], case['k'], bytes.fromhex(case['m']), bytes.fromhex(case['e']), case.get('er'))
        return {'holds': True, 'implementation': impl, 'model': model, 'inner_answer': [x.hex() for x in ia] if ia else None,
                'note': 'correspondence case: no property failure by itself'}
    if case.get('kind') == 'facade':
        holds, det = facade_radius_case(case['algo'], case['n'], case['k'], bytes.fromhex(case['m']), bytes.fromhex(case['e']))
        return dict(det, holds=holds)
    res = pipe.run_jobs([case])[0]
    if not res.get('ok'):
        return {'holds': bool(res.get('ambiguous')), 'note': 'scenario could not be run', 'detail': {k: res.get(k) for k in ('gen', 'ambiguous', 'harness_error')}}
    fails = predicate(case, res)
    n0 = len(ctx.disagreements)
    pipe.correspondence(ctx, case, res, case)
    dis = [d['what'] for d in ctx.disagreements[n0:]]
    return {'holds': not fails, 'property_failures': fails[:6], 'implementation': {'exit': res['corr'], 'stats': res['stats'],
            'outputs': {k: len(v) // 2 for k, v in res['outputs'].items()}, 'inputs': {e['rel']: len(e['file']) // 2 for e in res['files']},
            'unrepairable': [[p, i] for p, i, c in res['log_events'] if c == 4][:20]},
            'model_vs_implementation': dis or 'agree'}


def shrink(ctx, case):
    if case.get('stream') == 'toolrun' or str(case.get('kind', '')).startswith('facade') or case.get('kind') == 'huge-tail':
        return case
    def bad(c):
        r = pipe.run_jobs([c])[0]
        return bool(r.get('ok')) and bool(predicate(c, r))
    cur = case
    for _ in range(6):
        cands = []
        names = sorted(cur['tree'])
        if len(names) > 1 and not cur.get('single'):
            for nm in names:
                t = dict(cur['tree'])
                del t[nm]
                cands.append(dict(cur, tree=t))
        for nm in names:
            if len(cur['tree'][nm]) > 200:
                t = dict(cur['tree'])
                t[nm] = t[nm][:len(t[nm]) // 4 * 2]
                cands.append(dict(cur, tree=t))
        for c in cands:
            if bad(c):
                cur = c
                break
        else:
            break
    return cur


def classify(case, detail):
    return None
