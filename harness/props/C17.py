# C17 — file-scraping recovery (rfigc --filescraping_recovery): correspondence of HashChk.scrape with
# the real `rfigc.main` on real temp trees, and the property predicate evaluated on the tool's output tree.
import common
import copy, json, os, shutil, tempfile
from props import hashchk_lib as L
from props.hashchk_lib import HarnessError

RULE = ('one evaluation = one real `pff hash --filescraping_recovery` run: an original tree (0..7 files, pairwise distinct '
        'contents, names over printable Unicode incl. | " blanks non-ASCII backslash, depth 0..3, sizes 0..200001) is recorded '
        'with -g; a scraped folder is built from it by renaming / flattening / re-nesting every file (random names and '
        'depths, N.stuff flattening), dropping some, duplicating some, and mixing in unknown files and damaged copies (one '
        'bit flipped at offsets {0, last, 65535..65537, random}, truncated, extended); the output tree (paths, bytes, '
        'st_mtime) and the return value are compared with the extracted model and with the predicate "output = recorded '
        'files whose content is present, at their recorded path with recorded mtime, nothing else". A separately labelled '
        'stream (outside the quantified domain) has duplicate contents among the recorded files: correspondence + the '
        'weaker predicate only. non-trivial = scraped folder differs from the original layout or has extras; distinct by case.')
TRUSTED_EXTRA = ['modelled: rfigc.main file-scraping branch (database load into md5/sha1 -> row id maps, walk, match on both digests '
                 'mapping to the same row id, copy2 + utime) and the generation branch; hashlib, csv, os.walk order, shutil.copy2, '
                 'os.utime are oracles (digests measured on the real bytes and handed to the model as a table)']
ASSUMPTIONS = ['md5 and sha1 are each collision-free among the recorded contents and no scraped content collides on both digests with a '
               'different recorded content (premises of C17_exact; the harness compares bytes, a collision would show as a failure)',
               'recorded files have pairwise distinct contents (the quantifier of the property); with duplicates only the last such row '
               'is recreated (Example C17_ex_duplicates) — exercised as correspondence only',
               'file names: str.isprintable(), no "/", NUL; mtimes between 1978 and 2038; output folder exists, is empty and is outside '
               'the scraped folder; os.utime(float) followed by os.stat gives back the same float (checked on every file)']


def scraped_content(T_files, src):
    kind = src[0]
    if kind == 'o':
        return L.content(T_files[src[1]][1])
    if kind == 'd':          # damaged copy: one bit flipped (a byte appended to an empty file)
        b = bytearray(L.content(T_files[src[1]][1]))
        if not b:
            return b'\x00'
        off = min(src[2], len(b) - 1)
        b[off] ^= 1 << src[3]
        return bytes(b)
    if kind == 't':          # truncated / extended copy
        b = L.content(T_files[src[1]][1])
        return b[:-1] if (src[2] and b) else b + b'\x00'
    if kind == 'u':
        return L.content(['r', src[1], src[2]])
    if kind == 'x':          # unknown file with literal content
        return bytes.fromhex(src[1])
    raise HarnessError('bad scraped source %r' % (src,))


def exec_case(ctx, case):
    D = tempfile.mkdtemp(prefix='pffc17')
    try:
        root = os.path.join(D, 'orig', case.get('root', 'T'))
        L.build_tree(root, case['files'])
        T0 = L.scan_tree(root)
        db = os.path.join(D, 'db', 'hashes.csv')
        os.makedirs(os.path.dirname(db))
        gres = L.run_rfigc(['-i', root, '-d', db, '-g', '--silent'], os.path.join(D, 'cwd_gen'))
        S = os.path.join(D, 'scraped', case.get('sroot', 'S'))
        O = os.path.join(D, 'out', case.get('oroot', 'O'))
        if case.get('layout') == 'sibling':
            # the two folders side by side, the scraped one NAMED AFTER the output one (PhotoRec's recup_dir.1 next to a folder
            # "recup"): its path starts with the output path as a STRING but lies outside it
            O = os.path.join(D, 'work', case.get('oroot', 'O'))
            S = O + '_dir.1'
        os.makedirs(S)
        for rel, src, mt in case['scraped']:
            p = os.path.join(S, rel)
            os.makedirs(os.path.dirname(p), exist_ok=True)
            with open(p, 'wb') as f:
                f.write(scraped_content(case['files'], src))
            if mt is not None:
                os.utime(p, ns=(mt, mt))
        S0 = L.scan_tree(S)
        os.makedirs(O)
        if case.get('prefill'):
            # the output folder already holds, at recorded paths whose content WILL be found, a file of the recorded size (and, for
            # 'mtime', the recorded time) with other bytes — recovering into the rotten archive itself, or over an earlier attempt:
            # the statement wants the recorded bytes and time there afterwards
            present0 = {d for d, _ in S0.values()}
            for dp, _, fs in os.walk(root):
                for fn in fs:
                    src = os.path.join(dp, fn)
                    rel = os.path.relpath(src, root)
                    b = bytearray(open(src, 'rb').read())
                    if not b or T0.get(rel.replace(os.sep, '/'), (None,))[0] not in present0:
                        continue
                    b[len(b) // 2] ^= 0x10
                    dst = os.path.join(O, rel)
                    os.makedirs(os.path.dirname(dst), exist_ok=True)
                    open(dst, 'wb').write(bytes(b))
                    if case['prefill'] == 'mtime':
                        st = os.stat(src)
                        os.utime(dst, ns=(st.st_atime_ns, st.st_mtime_ns))
        cwd = os.path.join(D, 'cwd_run')
        args = ['-i', S, '-d', db, '--filescraping_recovery', '-o', O, '--silent'] + (['-v'] if common.every_fourth(case) else [])
        if case.get('log', True):
            args += ['-l', os.path.join(D, 'cwd_gen', 'scrape.log')]
        res = L.run_rfigc(args, cwd)
        O1 = L.scan_tree(O)
        S1 = L.scan_tree(S)
        ids = L.Ids()
        try:
            real_rows = [L.db_row_tuple(r) for r in L.read_db(db)]
        except Exception as e:
            real_rows = None
        impl = {'result': list(res), 'out': {p: [ids.of(d), L.units(t)] for p, (d, t) in sorted(O1.items())},
                'scraped_untouched': S1 == S0}
        model = None
        agree = False
        if real_rows is not None:
            outs = ctx.model.run(['hchk_gen ' + ' '.join(L.fs_args(T0, ids)),
                                  'hchk_scrape %s %s' % (' '.join(L.db_args(real_rows)), ' '.join(L.fs_args(S0, ids)))])
            mrows = L.parse_gen(outs[0])
            st, ents = outs[1].split(' ')
            mout = {}
            if ents != '.':
                for it in ents.split(','):
                    p, i, m = it.split(':')
                    mout[bytes.fromhex(p).decode('utf-8')] = [int(i), int(m)]
            model = {'status': int(st), 'out': dict(sorted(mout.items())), 'gen_rows_equal': mrows == real_rows}
            agree = (mrows == real_rows and gres == ('RET', 0) and res[0] == 'RET' and res[1] == model['status']
                     and impl['out'] == model['out'])
        # ---- the property predicate, from the statement, on the implementation's output tree
        present = {d for d, _ in S0.values()}
        contents = [d for d, _ in T0.values()]
        distinct = len(set(contents)) == len(contents)
        why = []
        if distinct:
            want = {p: (d, t) for p, (d, t) in T0.items() if d in present}
            if set(O1) != set(want):
                why.append('output paths %r, expected %r' % (sorted(O1), sorted(want)))
            for p in set(O1) & set(want):
                if O1[p][0] != want[p][0]:
                    why.append('bytes of %r' % p)
                if abs(O1[p][1] - want[p][1]) >= 1e-6:
                    why.append('mtime of %r: %r, recorded %r' % (p, O1[p][1], want[p][1]))
            if all(d in present for d in contents) and not why:
                if {p: (d, round(t, 6)) for p, (d, t) in O1.items()} != {p: (d, round(t, 6)) for p, (d, t) in T0.items()}:
                    why.append('output tree differs from the original tree')
        else:   # outside the quantified domain: only "nothing wrong is created"
            for p, (d, t) in O1.items():
                if p not in T0 or T0[p][0] != d or d not in present or abs(T0[p][1] - t) >= 1e-6:
                    why.append('unexpected output file %r' % p)
            for p, (d, t) in T0.items():
                if d in present and not any(O1.get(q, (None,))[0] == d for q in T0):
                    why.append('content of %r found but recreated nowhere' % p)
        if res[0] != 'RET':
            why.append('run ended with %r' % (res,))
        if S1 != S0:
            why.append('scraped folder modified')
        expected = {p: [ids.of(d), L.units(t)] for p, (d, t) in sorted(T0.items()) if d in present} if distinct else 'n/a (duplicate contents)'
        return {'holds': not why, 'agree': agree, 'why': why, 'impl': impl, 'model': model, 'expected': expected,
                'distinct': distinct, 'recovered': len(O1), 'recorded': len(T0),
                'extras': sum(1 for d, _ in S0.values() if d not in set(contents))}
    finally:
        shutil.rmtree(D, ignore_errors=True)


# ---------------------------------------------------------------- generators
def gen_case(rng, stream):
    n = rng.choice([0, 1, 2, 3, 4, 5, 7])
    rels = L.rand_relpaths(rng, n)
    files, big = [], 1
    have_empty = False
    for i, rel in enumerate(rels):
        ln = rng.choice([0, 1, 2, 3, 17, 100, 1000, 5000])
        if big and rng.random() < 0.25:
            ln = rng.choice([65535, 65536, 65537, 131072, 200001]); big -= 1
        if ln == 0:
            if have_empty:
                ln = 1
            have_empty = True
        files.append([rel, ['r', 1000 * rng.randrange(1 << 20) + i, ln], L.rand_mtime_ns(rng)])
    # contents distinct: different seeds could still coincide for tiny lengths -> enforce
    seen = set()
    for f in files:
        while L.content(f[1]) in seen:
            f[1] = ['r', f[1][1] + 1, f[1][2] + 1]
        seen.add(L.content(f[1]))
    if stream == 'dups' and files:
        for _ in range(rng.choice([1, 2])):
            src = rng.choice(files)
            new = L.rand_relpaths(rng, 1)[0]
            if all(new != f[0] and not new.startswith(f[0] + '/') and not f[0].startswith(new + '/') for f in files):
                files.append([new, list(src[1]), L.rand_mtime_ns(rng)])
    scraped, used = [], set()

    def fresh(style):
        for _ in range(50):
            if style == 'flat':
                rel = '%d.stuff' % rng.randrange(10 ** 6)
            else:
                rel = L.rand_relpaths(rng, 1, maxdepth=3)[0]
                if style == 'nest':
                    rel = '/'.join([L.rand_name(rng) for _ in range(rng.choice([1, 2, 3]))] + [rel.split('/')[-1]])
            if rel not in used and not any(rel.startswith(u + '/') or u.startswith(rel + '/') for u in used):
                used.add(rel)
                return rel
        rel = 'fallback%d' % len(used)
        used.add(rel)
        return rel
    style = rng.choice(['flat', 'nest', 'mixed', 'same'])
    for i, f in enumerate(files):
        r = rng.random()
        if r < 0.12:
            continue                                   # content lost
        st = style if style != 'mixed' else rng.choice(['flat', 'nest', 'rand'])
        rel = f[0] if (style == 'same' and f[0] not in used and not any(f[0].startswith(u + '/') or u.startswith(f[0] + '/') for u in used)) else fresh(st)
        used.add(rel)
        mt = rng.choice([None, L.rand_mtime_ns(rng), 'rec-trunc', 'rec-exact'])
        if mt == 'rec-trunc':        # the scraped copy carries the recorded time cut to the whole second (tar / zip / FAT / network share)
            mt = f[2] // 10 ** 9 * 10 ** 9
        elif mt == 'rec-exact':
            mt = f[2]
        if r < 0.24:
            size = f[1][2]
            off = rng.choice([o for o in (0, size - 1, 65535, 65536, 65537, rng.randrange(max(size, 1))) if 0 <= o < max(size, 1)])
            scraped.append([rel, rng.choice([['d', i, off, rng.randrange(8)], ['t', i, rng.random() < 0.5]]), mt])
        else:
            scraped.append([rel, ['o', i], mt])
            if rng.random() < 0.15:                    # the same content twice
                scraped.append([fresh('rand'), ['o', i], None])
    for _ in range(rng.choice([0, 0, 1, 2, 4])):
        scraped.append([fresh(rng.choice(['flat', 'nest', 'rand'])), ['u', rng.randrange(1 << 30), rng.choice([0, 1, 9, 4000])], None])
    if have_empty is False and rng.random() < 0.1:
        scraped.append([fresh('flat'), ['u', 1, 0], None])        # an unknown empty file
    rng.shuffle(scraped)
    case = {'root': rng.choice(['T', 'ro ot', 'r|"é']), 'sroot': rng.choice(['S', 's cr|"ü']), 'oroot': rng.choice(['O', 'o ut"|ß']),
            'files': files, 'scraped': scraped, 'stream': stream, 'log': rng.random() < 0.7}
    r = rng.random()                      # drawn last: the cases of earlier seeds keep their trees
    if r < 0.12:
        case['layout'] = 'sibling'
    elif r < 0.3 and stream != 'dups':
        case['prefill'] = rng.choice(['mtime', 'now'])
    return case


def corpus():
    f = lambda rel, spec, s, fr=0: [rel, spec, s * 10 ** 9 + fr]
    base = [f('a|b"c.txt', ['r', 1, 70000], 1_500_000_000, 123_456_789), f(' lead é.dat', ['r', 2, 10], 1_400_000_000),
            f('sub/ü "q"|.bin', ['r', 3, 65537], 1_300_000_000, 500_000_000), f('sub/deep/x', ['h', ''], 1_200_000_000),
            f('sub/a|b"c.txt', ['r', 5, 5], 1_100_000_000, 999_999_999), f('top.txt', ['r', 6, 131072], 1_000_000_001, 500_000_000)]
    flat = [['%d.stuff' % i, ['o', i], None] for i in range(len(base))]
    out = [{'root': 'T', 'files': base, 'scraped': flat},
           {'root': 'T', 'files': base, 'scraped': [[b[0], ['o', i], None] for i, b in enumerate(base)]},
           {'root': 'T', 'files': base, 'scraped': [['x/y/z/%d' % i, ['o', (i + 2) % 6], None] for i in range(6)]
            + [['unknown 1', ['u', 9, 100], None], ['x/damaged', ['d', 0, 65536, 0], None], ['x/y/short', ['t', 5, True], None]]},
           {'root': 'T', 'files': base, 'scraped': [['only', ['o', 3], None], ['foreign', ['u', 1, 5], None]]},
           {'root': 'T', 'files': base, 'scraped': []},
           {'root': 'T', 'files': [], 'scraped': [['foreign', ['u', 1, 5], None]]},
           {'root': 'T', 'files': base, 'scraped': [['d1', ['d', 2, 65535, 7], None], ['d2', ['d', 5, 131071, 0], None], ['d3', ['d', 3, 0, 0], None]]},
           {'root': 'T', 'stream': 'dups', 'files': [f('one', ['h', 'aa'], 1_500_000_000), f('two/one', ['h', 'aa'], 1_400_000_000), f('three', ['h', 'bb'], 1_300_000_000)],
            'scraped': [['q', ['o', 0], None], ['r', ['o', 2], None]]}]
    # an unknown file that collides on MD5 (the public Wang et al. pair) with a recorded one but differs in SHA-1 and content:
    # a match needs BOTH digests; (a) the genuine file is lost: nothing may be recreated for it, (b) both are present, the
    # collider walked last: the genuine bytes must come out
    m1, m2 = 'd131dd02c5e6eec4693d9a0698aff95c2fcab58712467eab4004583eb8fb7f8955ad340609f4b30283e488832571415a085125e8f7cdc99fd91dbdf280373c5bd8823e3156348f5bae6dacd436c919c6dd53e2b487da03fd02396306d248cda0e99f33420f577ee8ce54b67080a80d1ec69821bcb6a8839396f9652b6ff72a70', 'd131dd02c5e6eec4693d9a0698aff95c2fcab50712467eab4004583eb8fb7f8955ad340609f4b30283e4888325f1415a085125e8f7cdc99fd91dbd7280373c5bd8823e3156348f5bae6dacd436c919c6dd53e23487da03fd02396306d248cda0e99f33420f577ee8ce54b67080280d1ec69821bcb6a8839396f965ab6ff72a70'
    coll = [f('keys/container.bin', ['h', m1], 1_450_000_000), f('notes.txt', ['r', 7, 40], 1_350_000_000)]
    out.append({'root': 'T', 'files': coll, 'scraped': [['zz/unknown.bin', ['x', m2], None], ['a/notes', ['o', 1], None]]})
    out.append({'root': 'T', 'files': coll, 'scraped': [['a/genuine', ['o', 0], None], ['zz/unknown.bin', ['x', m2], None], ['b/notes', ['o', 1], None]]})
    # scraped copies whose own mtime is the recorded one cut to the whole second: the recorded (sub-second) time must still be restored
    out.append({'root': 'T', 'files': base, 'scraped': [['t/%d' % i, ['o', i], b[2] // 10 ** 9 * 10 ** 9] for i, b in enumerate(base)]})
    # several recorded files of exactly the same size (fixed-size sectors / thumbnails), contents pairwise distinct
    same = [f('sectors/s%03d.img' % i, ['r', 50 + i, 512], 1_450_000_000 + i) for i in range(4)] + [f('thumbs/a.thumb', ['r', 60, 512], 1_440_000_000, 5)]
    out.append({'root': 'T', 'files': same, 'scraped': [['x%d' % i, ['o', i], None] for i in range(5)] + [['junk', ['u', 3, 512], None]]})
    # recorded times at and next to the Unix epoch (reproducible archives, container layers): 0.0 is a time like any other
    ep = [f('layer/etc/hostname', ['r', 8, 33], 0), f('layer/etc/motd', ['r', 9, 12], 1), f('readme', ['r', 10, 40], 0, 500_000_000)]
    out.append({'root': 'T', 'files': ep, 'scraped': [['dump/%d.chk' % i, ['o', i], None] for i in range(3)]})
    # files NAMED like the columns of the database, and names that differ by a temporary-file suffix (a recovery that stages its copies
    # under <name>.part / .tmp must not lose the recorded file of that very name); the suffixed contents are met FIRST by the sorted walk
    cn = [f('path', ['r', 81, 30], 1_410_000_000), f('sub/path', ['r', 82, 31], 1_410_000_100), f('md5', ['r', 83, 32], 1_410_000_200)]
    out.append({'root': 'T', 'files': cn, 'scraped': [['%d.chk' % i, ['o', i], None] for i in range(3)]})
    tp = [f('dl/setup.exe', ['r', 84, 50], 1_420_000_000), f('dl/setup.exe.part', ['r', 85, 20], 1_420_000_100), f('dl/setup.exe.tmp', ['r', 86, 21], 1_420_000_200),
          f('dl/setup.exe~', ['r', 87, 22], 1_420_000_300), f('dl/setup.exe.bak', ['r', 88, 23], 1_420_000_400)]
    out.append({'root': 'T', 'files': tp, 'scraped': [['a%d' % i, ['o', i], None] for i in (1, 2, 3, 4)] + [['b0', ['o', 0], None]]})
    out.append({'root': 'T', 'files': tp, 'scraped': [['a0', ['o', 0], None]] + [['b%d' % i, ['o', i], None] for i in (1, 2, 3, 4)]})
    # top-level names that LOOK like drive-qualified or rooted Windows paths but are plain file names here
    wn = [f('x:ray.dat', ['r', 91, 30], 1_430_000_000), f('1:1 meeting notes.txt', ['r', 92, 31], 1_430_000_100), f('\\\\lead.bin', ['r', 93, 32], 1_430_000_200),
          f('sub/2:30pm.txt', ['r', 94, 33], 1_430_000_300), f('..cache/blob', ['r', 95, 34], 1_430_000_400)]
    out.append({'root': 'T', 'files': wn, 'scraped': [['%d.chk' % i, ['o', i], None] for i in range(5)]})
    # folder layouts and a used output folder (see exec_case)
    out.append({'root': 'T', 'files': base, 'scraped': flat, 'layout': 'sibling', 'oroot': 'recup'})
    out.append({'root': 'T', 'files': base, 'scraped': flat, 'prefill': 'mtime'})
    out.append({'root': 'T', 'files': base, 'scraped': flat[:3], 'prefill': 'now'})
    return out


def account(ctx, case, r):
    ctx.evaluations += 1
    ctx.count('stream=' + case.get('stream', 'main'))
    ctx.count('recorded=%d' % r['recorded'])
    ctx.count('recovered=%s' % (r['recovered'] if r['recovered'] < 4 else '4+'))
    ctx.count('unknown-or-damaged=%s' % (r['extras'] if r['extras'] < 3 else '3+'))
    ctx.count('all contents present' if r['recovered'] == r['recorded'] else 'some content lost')
    for _, src, _ in case['scraped']:
        ctx.count('scraped-kind=' + {'o': 'original', 'd': 'bit-flipped', 't': 'truncated/extended', 'u': 'unknown', 'x': 'unknown-md5-collision'}[src[0]])
    if case['scraped'] and (r['extras'] or [s[0] for s in case['scraped']] != [f[0] for f in case['files']]):
        ctx.nontriv(json.dumps(case, sort_keys=True))
    if not r['agree']:
        ctx.disagree(case, r['model'], r['impl'])
    if not r['holds']:
        ctx.fail(case, {'why': r['why'], 'expected_output': r['expected'], 'implementation': r['impl']})
    else:
        ctx.traces += 1


def run(ctx):
    from props import cli_proc
    cli_proc.stream(ctx, ['C17', 'C17@rfigc'])
    rng = ctx.rng
    for case in corpus():
        account(ctx, case, exec_case(ctx, case))
    n_main, n_dup = (500, 60) if ctx.tier == 'quick' else (5000, 500)
    for i in range(n_main + n_dup):
        case = gen_case(rng, 'main' if i < n_main else 'dups')
        r = exec_case(ctx, case)
        account(ctx, case, r)
        ctx.sample({'recorded': [f[0] for f in case['files']], 'scraped': [[s[0], s[1][0]] for s in case['scraped']],
                    'recreated': sorted(r['impl']['out'])}, cap=5)


def replay_case(ctx, case):
    if isinstance(case, dict) and case.get('kind') == 'cli-process':
        from props import cli_proc
        return cli_proc.replay(case)
    r = exec_case(ctx, case)
    return {'holds': r['holds'], 'model_agrees': r['agree'], 'why': r['why'], 'property_expects': r['expected'],
            'implementation': r['impl'], 'model': r['model']}


def classify(case, detail):
    if isinstance(case, dict) and case.get('kind') == 'cli-process':
        return None
    return None


def shrink(ctx, case):
    if isinstance(case, dict) and case.get('kind') == 'cli-process':
        return case
    def bad(c):
        try:
            return not exec_case(ctx, c)['holds']
        except Exception:
            return False
    cur = copy.deepcopy(case)
    budget, improved = 60, True
    while improved and budget > 0:
        improved = False
        cands = []
        for i in range(len(cur['scraped'])):
            c = copy.deepcopy(cur); del c['scraped'][i]; cands.append(c)
        for i in range(len(cur['files']) - 1, -1, -1):
            if not any(s[1][0] in 'odt' and s[1][1] >= i for s in cur['scraped']):
                c = copy.deepcopy(cur); del c['files'][i]; cands.append(c)
        for k in ('root', 'sroot', 'oroot'):
            if cur.get(k) not in (None, 'T', 'S', 'O'):
                c = copy.deepcopy(cur); c[k] = {'root': 'T', 'sroot': 'S', 'oroot': 'O'}[k]; cands.append(c)
        for c in cands:
            budget -= 1
            if budget <= 0:
                break
            if bad(c):
                cur, improved = c, True
                break
    return cur
