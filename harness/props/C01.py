# C01 — damage within the correction capacity of every block is repaired bit-exactly and the run exits 0.
# End-to-end runs of `pff header` / `pff whole`: generate, damage every block within its bound (positions
# chosen from the real layout: message side, parity side, both; every stage and the last short block),
# correct with the same parameters; correspondence of the extracted Pipeline model on every processed file
# and the property predicate evaluated on the implementation's own outputs.
import pipe
from props import C04 as base

RULE = ('fixed corpus (sizes 0 / 1 / block and header boundaries, last short block, single-file input, moved root, all-zero '
        'file with erasures off, exact capacity with errors / erasures / mixed) then random scenarios: both tools, codecs 1-4 (one '
        'child process per GF-table family), max_block_size 2..255, header sizes 1..1024, rates 0.05..1.0 and increasing / '
        'decreasing / equal stage triples, five hash kinds, fast check and --no_fast_check, --enable_erasures with symbols 0 / 255 / 32 '
        '(every received symbol equal to the erasure symbol is counted as an erasure), --only_erasures (no errors drawn), trees of '
        '1-4 files with nested and latin-1 names, directory and single-file input, tree moved to another root.  Damage per block: '
        'exactly floor(parity/2) errors, or erasures / a random mix filling 2e+f <= parity exactly, or a random amount below the '
        'bound; in the message, in the parity, or both; all blocks or a random subset that always includes the last block.  '
        'non-trivial = at least one damaged block repaired; distinct by (tool, codec, hash, fast, erasure mode, damage mode, where, at-capacity).  '
        'Plus: toolrun stream (whole correction runs of both tools against the COMPOSED model of the tool-level theorems, hash and decoder as '
        'recorded tables: counters, exit status, output folder; kinds none / light / heavy / partial / track / missing / truncated / '
        '--ignore_size / --no_fast_check); selrun stream (correction restricted with -e/--errors_file: one observed run per case against '
        'run_h_sel / run_w_sel of coq/Select.v fed with the recorded tables and the list — counters, exit status, output folder — plus the '
        'predicate listed-and-damaged => repaired, not listed => nothing written; lists: all paths, subsets, unknown names, a latin-1 name; '
        'path field damaged within its intra-ecc, size field destroyed); cli-process scenarios (the tools as processes with -l: exit status and '
        'output folder; every alias of the two subcommands; -e written by `pff hash -e` into another directory; ecc file named after the input '
        'folder; used output folder; output folder whose name starts with the input folder name); --hash none repair stream.')
TRUSTED_EXTRA = base.TRUSTED_EXTRA
ASSUMPTIONS = ['dec_complete: the third-party decoders decode every received word that is within capacity of a codeword (oracle hypothesis, '
               'tested here at exactly the capacity, not proved)',
               'chk_enc, code_dist: hypotheses of the pipeline theorems, to be discharged from the Reed-Solomon algebra (C02 / C11)',
               'no accidental hash match: a damaged block does not hash to the stored hash (decidable; checked on every case, a case '
               'falsifying it is dropped and counted)',
               'the premise is evaluated from the bytes: every block + stored parity within the bound, stored hashes and entry metadata intact']


def predicate(job, res):
    """C01 on the implementation's observed behaviour: list of failures (empty = holds) and whether the premise held."""
    fails = []
    wc = res.get('within_capacity', {})
    premise_all = bool(wc) and all(v['ok'] for v in wc.values())
    prot = job['size'] if job['tool'] == 'hdr' else None
    orig = {k: bytes.fromhex(v) for k, v in job['tree'].items()}
    for key, v in wc.items():
        if not v['ok']:
            continue
        o = orig[key]
        d = bytes.fromhex(res['damaged'][key])
        n = min(prot, len(o)) if prot is not None else len(o)
        rel = key.split('/')[-1] if job.get('single') else key
        out = res['outputs'].get(rel)
        if d[:n] != o[:n]:
            if out is None:
                fails.append({'what': 'no output file for a file damaged in its protected region', 'file': key})
            else:
                ob = bytes.fromhex(out)
                if ob[:n] != o[:n] or len(ob) != len(o):
                    fails.append({'what': 'protected region of the output differs from the original', 'file': key,
                                  'first_diff': next((i for i in range(min(len(ob), n)) if ob[i] != o[i]), None)})
                if ob[n:] != d[n:]:
                    fails.append({'what': 'bytes after the protected region are not the damaged file\'s', 'file': key})
        elif out is not None:
            ob = bytes.fromhex(out)
            if ob[:n] != o[:n] or ob[n:] != d[n:]:
                fails.append({'what': 'output for a file not damaged in its protected region is not original + damaged tail', 'file': key})
    if premise_all and res['corr'] != ['RC', 0]:
        fails.append({'what': 'exit status is not 0 although every block is within capacity', 'observed': res['corr'], 'stats': res['stats']})
    return fails, premise_all


def hash_collision(job, res):
    """A damaged block whose hash equals the stored hash (the theorem's explicit no-collision premise is false)."""
    for ent in res.get('files', []):
        orig = bytes.fromhex(job['tree'].get(ent['key'], ''))
        data = bytes.fromhex(ent['file'])
        for f in ent['facts']:
            if f['in_hash_ok'] and data[f['off']:f['off'] + f['len']] != orig[f['off']:f['off'] + f['len']]:
                return True
    return False


def handle(ctx, job, res, origin):
    ctx.evaluations += 1
    ctx.count('tool=%s' % job['tool'])
    ctx.count('codec=%d' % job['algo'])
    ctx.count('origin=%s' % origin)
    d = job['damage']
    ctx.count('damage=%s/%s/%s' % (d.get('mode', d['kind']), d.get('where', '-'), d.get('fill', '-')))
    ctx.count('erasures=%s' % ('off' if not job.get('erasures') else ('only' if job['erasures'].get('only') else 'sym%d' % job['erasures']['sym'])))
    if not res.get('ok'):
        if res.get('ambiguous'):
            ctx.count('dropped_ambiguous_format')
            return
        ctx.fail(job, {'what': 'scenario could not be run', 'gen': res.get('gen'), 'error': res.get('harness_error')})
        return
    if not res.get('markers_ok', True):
        ctx.count('dropped_damage_spells_a_marker')
        return
    if hash_collision(job, res):
        ctx.count('dropped_hash_collision')
        return
    base.assumption_checks(ctx, job, res)
    pipe.correspondence(ctx, job, res, job)
    fails, premise = predicate(job, res)
    ctx.count('premise_%s' % ('holds' if premise else 'fails_for_some_file'))
    if fails:
        # decoder refusals recorded during the run (exception type + the received block), for the known-finding classifier
        refusals = [[c[5], c[2], c[3]] for e in res.get('files', []) for c in e['calls'] if c[0] == 'D' and c[4] is None]
        ctx.fail(job, {'failures': fails[:6], 'decoder_refusals': refusals[:10]})
    wc = res['within_capacity']
    repaired = sum(1 for p, i, c in res['log_events'] if c in (1, 2, 3))
    ctx.count('blocks_repaired', repaired)
    ctx.count('blocks_damaged', sum(v.get('damaged_blocks', 0) for v in wc.values()))
    if repaired:
        ctx.nontriv((job['tool'], job['algo'], job['hash'], job.get('fast', True), str(job.get('erasures')), d.get('mode'), d.get('where'),
                     any(v.get('at_capacity') for v in wc.values())))
    if any(v.get('at_capacity') for v in wc.values()):
        ctx.count('scenarios_with_a_block_exactly_at_capacity')
    ctx.count('exit=%s' % (res['corr'][1] if res['corr'][0] == 'RC' else res['corr'][0]))
    ctx.sample({'tool': job['tool'], 'codec': job['algo'], 'mb': job['mb'], 'rates': job['rates'], 'hash': job['hash'], 'damage': d,
                'erasures': job.get('erasures'), 'exit': res['corr'], 'stats': res['stats'], 'within_capacity': wc}, cap=5)


def content(rng, n, avoid):
    vals = [v for v in range(256) if v != avoid]
    return bytes(rng.choice(vals) for _ in range(n))


def scenario(rng, tier):
    job = base.params(rng, tier)
    er = None
    if rng.random() < 0.4:
        er = {'sym': rng.choice([0, 0, 255, 32]), 'only': rng.random() < 0.15}
        job['erasures'] = er
    ms = max(1, int(round(job['mb'] / (1 + 2 * job['rates'][0]))))
    ms2 = max(1, int(round(job['mb'] / (1 + 2 * job['rates'][-1]))))
    h = job['size']
    names = rng.sample(base.NAMES, rng.choice([1, 1, 2, 3, 4]))
    t = {}
    for nm in names:
        n = rng.choice([0, 1, ms - 1, ms, ms + 1, 2 * ms, h - 1, h, h + 1, h + ms2, h + ms2 + 1, 7 * ms + 3,
                        rng.randrange(0, 2500), rng.randrange(0, 300), rng.randrange(0, 300)])
        n = max(0, min(n, 2500 if job['mb'] > 30 else 900))
        t[nm] = content(rng, n, er['sym'] if er and rng.random() < 0.9 else None).hex()
    job['tree'] = t
    mode = 'errors' if not er else rng.choice(['errors', 'erasures', 'mixed', 'mixed'])
    job['damage'] = {'kind': 'c01', 'mode': mode, 'fill': rng.choice(['exact', 'exact', 'random']),
                     'where': rng.choice(['msg', 'parity', 'both', 'both']), 'blocks': rng.choice(['all', 'some']),
                     'targets': rng.choice(['all', 'all', 'one'])}
    if rng.random() < 0.05:
        job['damage'] = {'kind': 'none'}
    job['dseed'] = rng.randrange(1 << 30)
    if rng.random() < 0.1 and t:
        job['single'] = rng.choice(sorted(t))
    if rng.random() < 0.12:
        job['moved'] = True
    return job


def corpus():
    import random
    r = random.Random(4321)
    out = []
    base_ = {'algo': 3, 'mb': 40, 'size': 200, 'ri': 0.5, 'hash': 'shortmd5', 'fast': True, 'dseed': 11}
    exact = {'kind': 'c01', 'mode': 'errors', 'fill': 'exact', 'where': 'both', 'blocks': 'all', 'targets': 'all'}
    for tool, rates in (('hdr', [0.3]), ('sa', [0.3, 0.2, 0.1])):
        b = dict(base_, tool=tool, rates=rates)
        sizes = [0, 1, 24, 25, 26, 199, 200, 201, 233, 700]
        tr = {'f%d' % n: content(r, n, 0).hex() for n in sizes}
        out.append(dict(b, tree=tr, damage=exact))
        out.append(dict(b, tree=tr, damage=dict(exact, where='msg'), fast=False))
        out.append(dict(b, tree=tr, damage=dict(exact, mode='erasures'), erasures={'sym': 0, 'only': False}))
        out.append(dict(b, tree=tr, damage=dict(exact, mode='mixed'), erasures={'sym': 255, 'only': False}))
        out.append(dict(b, tree=tr, damage=dict(exact, mode='erasures'), erasures={'sym': 0, 'only': True}))
        out.append(dict(b, tree={'sub/deep/x.bin': content(r, 333, 0).hex(), 'y': content(r, 40, 0).hex()}, damage=exact, moved=True))
        out.append(dict(b, tree={'sub/x.bin': content(r, 333, 0).hex(), 'y': content(r, 40, 0).hex()}, damage=exact, single='sub/x.bin'))
        out.append(dict(b, tree={'zero': bytes(150).hex()}, damage=exact))
        for algo in (1, 2, 4):
            out.append(dict(b, algo=algo, mb=16, tree={'f': content(r, 300, 0).hex(), 'zero': bytes(40).hex()}, damage=exact))
        out.append(dict(b, mb=255, size=1024, tree={'big': content(r, 2100, 0).hex()}, damage=exact))
        out.append(dict(b, mb=4, size=10, tree={'t': content(r, 57, 0).hex()}, damage=exact))
    return out


class common_ctx_like(object):
    """minimal stand-in used by the replay of the hash-none stream"""
    def __init__(self, ctx):
        self.evaluations = 0; self.traces = 0; self.prop_failures = []
    def count(self, *a): pass
    def nontriv(self, *a): pass
    def fail(self, case, detail): self.prop_failures.append({'case': case, 'detail': detail})


def hash_none_stream(ctx):
    """`--hash none` (accepted by lib/hasher.py, not listed by --help; see the open finding C03-hash-none): property predicate only,
    straight on the real tools -- a file damaged within capacity is repaired bit-exactly and the run exits 0.  The Pipeline model is
    not run here: its hash oracle is bytes-valued, and with this option the tool compares the str '' with the stored b''."""
    import os, shutil
    import eccrun as E
    r = __import__('random').Random(99)
    for tool, params in (('header', ['--max_block_size', '40', '-s', '120', '-r', '0.3']),
                         ('whole', ['--max_block_size', '40', '-s', '120', '-r1', '0.3', '-r2', '0.2', '-r3', '0.1'])):
        files = {'a.bin': content(r, 333, 0), 'sub/b.txt': content(r, 90, 0), 'e': b''}
        case = {'stream': 'hash-none', 'tool': tool, 'params': params, 'tree': {k: v.hex() for k, v in files.items()}}
        with E.Scratch():
            E.write_tree('in', files)
            rc, _ = E.generate(tool, 'in', 'ecc.db', params + ['--hash', 'none'])
            dmg = {}
            for p, c in files.items():
                b = bytearray(c)
                for i in range(0, min(len(b), 120), 25):       # one wrong byte per 25-byte block of the protected region
                    b[i] ^= 0x5a
                dmg[p] = bytes(b)
            shutil.rmtree('in'); E.write_tree('in', dmg)
            os.mkdir('out')
            rc2, log = E.correct(tool, 'in', 'ecc.db', 'out', params + ['--hash', 'none'])
            outs = E.read_tree('out')
        ctx.evaluations += 1
        ctx.count('hash_none_cases')
        ctx.nontriv(('hash-none', tool))
        bad = [p for p, c in files.items() if c and outs.get(p) != (c if tool == 'whole' else c[:120] + dmg[p][120:])]
        if rc != 0 or rc2 != 0 or bad:
            ctx.fail(case, {'what': '--hash none: damage within capacity not repaired bit-exactly / non-zero exit', 'gen': str(rc), 'exit': str(rc2),
                            'files_not_restored': bad, 'outputs': sorted(outs), 'stats': E.stats(log)})
        else:
            ctx.traces += 1


def run(ctx):
    rng = ctx.rng
    from props import cli_proc
    cli_proc.stream(ctx, ['C01-header', 'C01-whole', 'C01-header-efile', 'C01-whole-efile', 'C01-header-efile1', 'C01-whole-efile1',
                          'C01-header-dbname', 'C01-whole-dbname', 'C01-header-efilepath', 'C01-whole-efilepath',
                          'C01-whole@structural_adaptive_ecc', 'C01-whole@saecc', 'C01-whole@protect', 'C01-whole@repair',
                          'C01-header@header_ecc', 'C01-header@hecc',
                          'C01-header-prefill', 'C01-whole-prefill', 'C01-header-prefixout', 'C01-whole-prefixout',
                          'C01-header-skipext', 'C01-whole-skipext', 'C01-header-hashdmg', 'C01-whole-hashdmg', 'C01-header-symout', 'C01-whole-symout', 'C01-header-bigheader', 'C01-header-sizememo', 'C01-whole-sizememo', 'C01-whole-smallsize', 'C01-header-smallsize'])
    from props import toolrun_lib
    toolrun_lib.stream(ctx)
    from props import selrun_lib
    selrun_lib.stream(ctx)
    hash_none_stream(ctx)
    cj = corpus()
    for job, res in zip(cj, pipe.run_jobs(cj)):
        handle(ctx, job, res, 'corpus')
    n = 400 if ctx.tier == "quick" else 3000
    jobs = [scenario(rng, ctx.tier) for _ in range(n)]
    step = 1000
    for s in range(0, len(jobs), step):
        for job, res in zip(jobs[s:s + step], pipe.run_jobs(jobs[s:s + step])):
            handle(ctx, job, res, 'random')


def replay_case(ctx, case):
    if case.get('stream') == 'toolrun':
        from props import toolrun_lib
        return toolrun_lib.replay(ctx, case)
    if case.get('kind') == 'cli-process':
        from props import cli_proc
        return cli_proc.replay(case)
    if case.get('kind') == 'selrun':
        from props import selrun_lib
        return selrun_lib.replay(ctx, case)
    if case.get('stream') == 'hash-none':
        sub = common_ctx_like(ctx)
        hash_none_stream(sub)
        return {'holds': not sub.prop_failures, 'failures': sub.prop_failures[:2]}
    res = pipe.run_jobs([case])[0]
    if not res.get('ok'):
        return {'holds': bool(res.get('ambiguous')), 'note': 'scenario could not be run', 'detail': {k: res.get(k) for k in ('gen', 'ambiguous', 'harness_error')}}
    fails, premise = predicate(case, res)
    if not res.get('markers_ok', True) or hash_collision(case, res):
        return {'holds': True, 'note': 'case outside the premise: the damage spells a marker / delimiter, or a damaged block hashes to the stored hash'}
    n0 = len(ctx.disagreements)
    pipe.correspondence(ctx, case, res, case)
    dis = [d['what'] for d in ctx.disagreements[n0:]]
    return {'holds': not fails, 'premise_holds_for_all_files': premise, 'property_failures': fails[:6], 'failures': fails[:6],
            'decoder_refusals': [[c[5], c[2], c[3]] for e in res.get('files', []) for c in e['calls'] if c[0] == 'D' and c[4] is None][:10],
            'implementation': {'exit': res['corr'], 'stats': res['stats'], 'outputs': {k: len(v) // 2 for k, v in res['outputs'].items()},
                               'within_capacity': res['within_capacity'],
                               'unrepairable': [[p, i] for p, i, c in res['log_events'] if c == 4][:20]},
            'model_vs_implementation': dis or 'agree'}


def shrink(ctx, case):
    if case.get('stream') in ('hash-none', 'toolrun') or case.get('kind') in ('cli-process', 'selrun'):
        return case
    def bad(c):
        r = pipe.run_jobs([c])[0]
        return bool(r.get('ok')) and bool(predicate(c, r)[0])
    cur = case
    for _ in range(6):
        cands = []
        names = sorted(cur['tree'])
        if len(names) > 1 and not cur.get('single'):
            for nm in names:
                t = dict(cur['tree'])
                del t[nm]
                cands.append(dict(cur, tree=t))
        for nm in names:
            if len(cur['tree'][nm]) > 200:
                t = dict(cur['tree'])
                t[nm] = t[nm][:len(t[nm]) // 4 * 2]
                cands.append(dict(cur, tree=t))
        for c in cands:
            if bad(c):
                cur = c
                break
        else:
            break
    return cur


def classify(case, detail):
    """open finding C02-codec12-mixed-errata-incomplete seen through the tools (recorded under C01 as
    C01-codec12-mixed-errata-incomplete): codec 1 or 2, erasure handling on (not --only_erasures), and the blocks that were
    not repaired are blocks on which the third-party decoder raised RSCodecError although the received block carries
    erasure symbols (mixed errors-and-erasures; errors-only and erasures-only words decode)."""
    try:
        er = case.get('erasures')
        if case.get('algo') not in (1, 2) or not er or er.get('only') or not isinstance(detail, dict):
            return None
        ref = detail.get('decoder_refusals') or []
        if not ref or any(not (str(r[0]).startswith('RSCodecError') and 'Chien Search' in str(r[0])) for r in ref):
            return None     # only the third-party decoder's own locator failure; the facade's capacity check raises another message
        sym = '%02x' % er['sym']
        if all(sym in [r[1][i:i + 2] for i in range(0, len(r[1]), 2)] + [r[2][i:i + 2] for i in range(0, len(r[2]), 2)] for r in ref):
            return 'C01-codec12-mixed-errata-incomplete'
    except Exception:
        return None
    return None
