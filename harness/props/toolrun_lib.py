# toolrun_lib.py — the whole correction run of `pff header` / `pff whole` against the COMPOSED model (coq/Drv/ToolRun.v: Stream's entry
# loop + Entry's intra-ecc + Pipeline's per-block stage through C03Inst.blocksH_pipe / blocksW_pipe + the verified facade check), the
# object of the tool-level theorems C03_clean_*_rs and C01_tool_*_rs.  The real tool is run in-process (codec 3) with two recorders
# installed on the classes: Hasher.hash (message -> hash) and ECCMan.decode ((k, message, parity) -> answer | refused); the model gets
# those two tables, the ecc file as given, the tree as found at check time and the tool's own rate -> message-size rule, and must
# produce the same counters, exit status and output folder.
import os, sys, shutil, importlib
from common import hx, hxl, unhx
import eccrun as E
import pipe

WINDOW = 65535


class Recorder(object):
    def __init__(self):
        self.hashes, self.decs, self.saved = {}, {}, []

    def install(self, tool):
        importlib.import_module(E.TOOLS[tool])
        rec = self
        seen = set()
        for name, m in list(sys.modules.items()):
            if m is None:
                continue
            last = name.split('.')[-1]
            if last == 'eccman' and hasattr(m, 'ECCMan') and id(m.ECCMan) not in seen:
                seen.add(id(m.ECCMan))
                cls, orig = m.ECCMan, m.ECCMan.decode

                def dec(self, message, ecc, k=None, *a, _orig=orig, **kw):
                    kk = k if k else self.k
                    key = (kk, bytes(bytearray(message if not isinstance(message, str) else message.encode('latin-1'))),
                           bytes(bytearray(ecc if not isinstance(ecc, str) else ecc.encode('latin-1'))))
                    try:
                        r = _orig(self, message, ecc, k, *a, **kw)
                    except Exception:
                        rec.decs[key] = None
                        raise
                    rec.decs[key] = (bytes(bytearray(r[0])), bytes(bytearray(r[1])))
                    return r
                cls.decode = dec
                self.saved.append((cls, 'decode', orig))
            if last == 'hasher' and hasattr(m, 'Hasher') and id(m.Hasher) not in seen:
                seen.add(id(m.Hasher))
                cls, orig = m.Hasher, m.Hasher.hash

                def hsh(self, mes, _orig=orig):
                    r = _orig(self, mes)
                    if isinstance(r, (bytes, bytearray)) and self.algo != 'none':
                        rec.hashes[bytes(bytearray(mes if not isinstance(mes, str) else mes.encode('latin-1')))] = bytes(r)
                    return r
                cls.hash = hsh
                self.saved.append((cls, 'hash', orig))

    def remove(self):
        for cls, name, orig in self.saved:
            setattr(cls, name, orig)
        self.saved = []


def opt(params, name, default):
    return params[params.index(name) + 1] if name in params else default


def run_case(ctx, tool, params, files, damage, extra=()):
    """files: rel -> bytes (pristine tree); damage(root, eccpath) mutates the tree / the ecc file in place after generation.
    Returns (comparison dict | None when skipped, observation summary)."""
    mod = importlib.import_module(E.TOOLS[tool])
    mb, hdr, ri, hk = int(opt(params, '--max_block_size', 255)), int(opt(params, '-s', 1024)), float(opt(params, '-ri', 0.5)), opt(params, '--hash', 'md5')
    job = {'tool': 'hdr' if tool == 'header' else 'sa', 'mb': mb, 'size': hdr, 'hash': hk,
           'rates': [float(opt(params, '-r', 0.3))] if tool == 'header' else [float(opt(params, '-r1', 0.3)), float(opt(params, '-r2', 0.2)), float(opt(params, '-r3', 0.1))]}
    ik = mod.compute_ecc_params(mb, ri, mod.Hasher('none'))['message_size']
    ms = mod.compute_ecc_params(mb, job['rates'][0], mod.Hasher(hk))['message_size']
    hlen = len(mod.Hasher(hk))
    with E.Scratch():
        E.write_tree('in', files)
        rc_g, _ = E.generate(tool, 'in', 'ecc.db', list(params))
        if rc_g != 0:
            return None, {'skipped': 'generation failed', 'rc': str(rc_g)}
        damage('in', 'ecc.db')
        db = open('ecc.db', 'rb').read()
        tree = E.read_tree('in')
        os.mkdir('out')
        rec = Recorder()
        rec.install(tool)
        try:
            rc, log = E.correct(tool, 'in', 'ecc.db', 'out', list(params) + list(extra))
        finally:
            rec.remove()
        outs = E.read_tree('out')
    st = E.stats(log)
    try:
        tpairs = []
        for rel, c in sorted(tree.items()):
            tpairs += [rel.encode('latin-1'), c]
    except UnicodeEncodeError:
        return None, {'skipped': 'non latin-1 name'}
    sizes = sorted(set(len(c) for c in files.values()))
    musz, mutb = [], []
    if tool == 'whole':
        for s in sizes:
            # offsets the run can reach for a file recorded with size s: up to its recorded size, or its present length if it grew
            need = max([s] + [len(tree[rel]) for rel, c in files.items() if len(c) == s and rel in tree])
            t = pipe.mu_table(job, mod, s, need)
            if any(x < 1 or x > mb for x in t):
                return None, {'skipped': 'rate rule leaves 1..max_block_size'}
            musz.append(s); mutb.append(t)
    htab = []
    for m, h in rec.hashes.items():
        htab += [m, h]
    dk, dm, dp, df, drm, drp = [], [], [], [], [], []
    for (k, m, p), r in rec.decs.items():
        dk.append(k); dm.append(m); dp.append(p); df.append(0 if r is None else 1)
        drm.append(b'' if r is None else r[0]); drp.append(b'' if r is None else r[1])
    ints = lambda l: ','.join(str(x) for x in l) if l else '.'
    er = 256
    if '--enable_erasures' in extra:
        er = int(opt(list(extra), '--erasure_symbol', 0))
    line = 'toolrun %d %d %d %d %d %d %d %d %d %d %d %d %s %s %s %s %s %s %s %s %s %s %s' % (
        0 if tool == 'header' else 1, int(opt(params, '--ecc_algo', 3)), mb, hdr, ms, ik, mb - ik, hlen, 0 if '--no_fast_check' in extra else 1,
        1 if '--ignore_size' in extra else 0, WINDOW, er, hx(db), hxl(tpairs), hxl(htab), ints(dk), hxl(dm), hxl(dp), ints(df), hxl(drm), hxl(drp),
        ints(musz), ';'.join(','.join(str(x) for x in t) or '1' for t in mutb) or '.')
    ans = ctx.model.run([line])[0]
    if ans.startswith('ERR'):
        return {'model_error': ans[:200]}, {}
    cs, os_ = ans.split(' ')
    m_ctr = None if cs == 'CRASH' else [int(x) for x in cs.split(',')]
    m_out = {} if os_ == '.' else {unhx(kv.split(':')[0]).decode('latin-1'): unhx(kv.split(':')[1]) for kv in os_.split(',')}
    crashed = not isinstance(rc, int)
    i_ctr = None if crashed else [st.get('processed', 0), st.get('corrupted', 0), st.get('repaired completely', 0), st.get('repaired partially', 0),
                                  st.get('skipped', 0), rc]
    diffs = {}
    if m_ctr != i_ctr:
        diffs['counters_exit'] = {'model': m_ctr, 'impl': i_ctr if not crashed else str(rc)}
    if not crashed and m_ctr is not None:
        if sorted(m_out) != sorted(outs):
            diffs['output_paths'] = {'model': sorted(m_out)[:6], 'impl': sorted(outs)[:6]}
        else:
            bad = [p for p in outs if outs[p] != m_out[p]]
            if bad:
                diffs['output_bytes'] = bad[:6]
    return diffs, {'counters': i_ctr, 'decode_calls': len(rec.decs), 'hash_calls': len(rec.hashes), 'outputs': len(outs)}


# ---------------------------------------------------------------------------------- scenarios
def flip(path, positions, x=0x5a):
    b = bytearray(open(path, 'rb').read())
    for i in positions:
        if i < len(b):
            b[i] ^= x
    open(path, 'wb').write(bytes(b))


def scenarios(rng, tier):
    rb = lambda n: bytes(rng.randrange(256) for _ in range(n))
    psets = {'header': [['--max_block_size', '40', '-s', '120', '-r', '0.3', '-ri', '0.5'],
                        ['--max_block_size', '20', '-s', '64', '-r', '0.5', '-ri', '1.0', '--hash', 'shortmd5']],
             'whole': [['--max_block_size', '40', '-s', '60', '-r1', '0.3', '-r2', '0.2', '-r3', '0.1', '-ri', '0.5'],
                       ['--max_block_size', '30', '-s', '50', '-r1', '0.5', '-r2', '0.5', '-r3', '0.25', '-ri', '0.3', '--hash', 'minisha256']]}
    out = []
    reps = 1 if tier == 'quick' else 6
    for rep in range(reps):
        for tool in ('header', 'whole'):
            for pi, params in enumerate(psets[tool]):
                files = {'a.bin': rb(rng.choice([333, 700])), 'sub/b.txt': rb(rng.choice([1, 90, 150])), 'sub/deep/c\xe9.dat': rb(200), 'e': b''}
                seed = rng.randrange(1 << 30)
                for kind in ('none', 'light', 'light-nofast', 'heavy', 'one-heavy', 'track', 'missing', 'truncated', 'truncated-ignore', 'grown-ignore',
                             'zeroed-erasures', 'ff-erasures255', 'none-erasures'):
                    if tier == 'quick' and (pi + len(kind)) % 2 and kind not in ('none', 'light', 'heavy'):
                        continue
                    out.append({'tool': tool, 'params': params, 'files': {k: v.hex() for k, v in files.items()}, 'kind': kind, 'dseed': seed})
            # codecs 1 and 2 (same GF table family as codec 3, so the same process; codec 4 is covered by the pipe-based streams, which
            # run it in its own process)
            for algo in (1, 2):
                files = {'a.bin': rb(333), 'sub/b.txt': rb(90), 'e': b''}
                seed = rng.randrange(1 << 30)
                for kind in ('none', 'light', 'heavy', 'track'):
                    out.append({'tool': tool, 'params': psets[tool][0] + ['--ecc_algo', str(algo)], 'files': {k: v.hex() for k, v in files.items()},
                                'kind': kind, 'dseed': seed})
    return out


def damage_fn(case):
    import random
    r = random.Random(case['dseed'])
    kind = case['kind']

    def f(root, eccpath):
        a = os.path.join(root, 'a.bin'); b = os.path.join(root, 'sub', 'b.txt')
        if kind in ('light', 'light-nofast'):
            flip(a, [r.randrange(300) for _ in range(3)]); flip(b, [0])
        elif kind == 'heavy':
            for p in (a, b):
                n = os.path.getsize(p)
                open(p, 'wb').write(bytes(r.randrange(256) for _ in range(n)))
        elif kind == 'one-heavy':
            n = os.path.getsize(a)
            d = bytearray(open(a, 'rb').read())
            for i in range(0, min(n, 60)):
                d[i] = r.randrange(256)
            open(a, 'wb').write(bytes(d)); flip(b, [0])
        elif kind == 'track':
            # damage inside the block track of the first entry (avoiding bytes that could spell a marker / delimiter)
            d = bytearray(open(eccpath, 'rb').read())
            from props import streamlib as S
            ents = S.parse_pristine(bytes(d))
            if ents:
                e0 = ents[0]
                for _ in range(6):
                    if e0['e'] - e0['track'] > 2:
                        i = r.randrange(e0['track'], e0['e'])
                        d[i] = r.choice([x for x in range(1, 250) if x != d[i]])
            open(eccpath, 'wb').write(bytes(d)); flip(a, [5])
        elif kind in ('zeroed-erasures', 'ff-erasures255'):
            # a burst overwritten with the erasure symbol (more than the errors-only capacity, within the erasure capacity) + one wrong byte
            sym = 0 if kind == 'zeroed-erasures' else 255
            d = bytearray(open(a, 'rb').read())
            st = r.randrange(0, 40)
            for i in range(st, min(len(d), st + 8)):
                d[i] = sym
            if len(d) > 100:
                d[100] ^= 0x21
            open(a, 'wb').write(bytes(d))
        elif kind == 'missing':
            os.remove(b)
        elif kind in ('truncated', 'truncated-ignore'):
            d = open(a, 'rb').read(); open(a, 'wb').write(d[:len(d) // 2])
        elif kind == 'grown-ignore':
            d = open(a, 'rb').read(); open(a, 'wb').write(d + b'tail' * 10); flip(a, [3])
    return f


def extra_of(case):
    ex = []
    if case['kind'] == 'light-nofast':
        ex.append('--no_fast_check')
    if case['kind'].endswith('-ignore'):
        ex.append('--ignore_size')
    if case['kind'] in ('zeroed-erasures', 'none-erasures'):
        ex.append('--enable_erasures')
    if case['kind'] == 'ff-erasures255':
        ex += ['--enable_erasures', '--erasure_symbol', '255']
    return ex


def replay(ctx, case):
    files = {k: bytes.fromhex(v) for k, v in case['files'].items()}
    diffs, obs = run_case(ctx, case['tool'], case['params'], files, damage_fn(case), extra_of(case))
    return {'holds': True, 'model_vs_implementation': diffs if diffs else ('skipped' if diffs is None else 'agree'), 'implementation': obs}


def stream(ctx, only_kinds=None):
    for case in scenarios(ctx.rng, ctx.tier):
        if only_kinds and case['kind'] not in only_kinds:
            continue
        c = dict(case, stream='toolrun')
        files = {k: bytes.fromhex(v) for k, v in case['files'].items()}
        try:
            diffs, obs = run_case(ctx, case['tool'], case['params'], files, damage_fn(case), extra_of(case))
        except Exception as e:
            ctx.disagree(c, 'harness', repr(e), what='toolrun stream: the run could not be observed')
            continue
        ctx.evaluations += 1
        ctx.count('toolrun_cases')
        ctx.count('toolrun_kind=' + case['kind'])
        if diffs is None:
            ctx.count('toolrun_skipped: ' + str(obs.get('skipped')))
            continue
        ctx.nontriv(('toolrun', case['tool'], tuple(case['params']), case['kind'], tuple(obs.get('counters') or ())))
        if diffs:
            ctx.disagree(c, {k: (v.get('model') if isinstance(v, dict) else v) for k, v in diffs.items()},
                         {k: (v.get('impl') if isinstance(v, dict) else v) for k, v in diffs.items()},
                         what='whole correction run: composed model != implementation')
        else:
            ctx.traces += 1
