# C06 — byte-wise majority vote: correspondence of Vote.v with majority_vote_byte_scan and the
# property predicate evaluated on the implementation's own output.
import io, itertools, os, shutil, tempfile
from common import hx, hxl, unhx

RULE = ('exhaustive: every 3-tuple of copies over alphabet {0,1,2} with lengths 0..3 x chunk sizes 1..4, every 4- and '
        '5-tuple over {0,1} with lengths 0..2 x chunk sizes 1..3; random: 3..7 copies, lengths 0..300, truncated copies in '
        'any position, chunk sizes 1,2,7,64,>len; 0..2 copies through real files. Each case runs '
        'replication_repair.majority_vote_byte_scan and the extracted Vote.vote_chunked and evaluates the plurality '
        'predicate on the implementation output. non-trivial = copies not all equal; distinct by (copies, chunk size).')
TRUSTED_EXTRA = ['modelled: replication_repair.majority_vote_byte_scan (chunk loop, histogram dict, stable sort, '
                 'single-survivor shortcut, <3 copies branch); file objects are modelled as byte lists']
ASSUMPTIONS = ['reading a copy returns its bytes in order (io.BytesIO / regular files)']


LAST = {'offsets': None}      # the offsets named in the message of the last vote of >= 3 copies (None: no message)


def reported_offsets(msg):
    import re
    m = re.search(r'on characters: \[(.*?)\]', msg or '')
    if not m:
        return None
    return [int(x.strip(" '\""), 16) for x in m.group(1).split(',') if x.strip()]


def all_differ_offsets(copies):
    n = max([len(c) for c in copies] or [0])
    out = []
    for i in range(n):
        col = [c[i] for c in copies if i < len(c)]
        if len(col) >= 2 and len(set(col)) == len(col):
            out.append(i)
    return out


def impl_vote(bs, copies):
    LAST['offsets'] = None
    from pyFileFixity.replication_repair import majority_vote_byte_scan
    if len(copies) >= 3:
        out = io.BytesIO()
        code, msg = majority_vote_byte_scan('f', [io.BytesIO(c) for c in copies], out, blocksize=bs)
        LAST['offsets'] = reported_offsets(msg)
        return out.getvalue(), code
    d = tempfile.mkdtemp(prefix='pffc06')
    try:
        paths = []
        for i, c in enumerate(copies):
            p = os.path.join(d, 'in%d' % i)
            open(p, 'wb').write(c)
            paths.append(p)
        os.mkdir(os.path.join(d, 'out'))
        code, msg = majority_vote_byte_scan('f', paths, os.path.join(d, 'out'), blocksize=bs)
        return open(os.path.join(d, 'out', 'f'), 'rb').read(), code
    finally:
        shutil.rmtree(d, ignore_errors=True)


def spec(copies):
    """The property, straight from its statement (independent of the Coq model)."""
    if len(copies) < 3:
        return (copies[0] if copies else b''), 1
    n = max(len(c) for c in copies)
    out, status = bytearray(), 0
    for i in range(n):
        col = [c[i] for c in copies if i < len(c)]
        best = max(col.count(v) for v in col)
        out.append(next(v for v in col if col.count(v) == best))
        if len(col) >= 2 and len(set(col)) == len(col):
            status = 1
    return bytes(out), status


def check_batch(ctx, cases):
    """cases: list of (bs, copies)."""
    lines = ['vote %d %s' % (bs, hxl(cs)) for bs, cs in cases]
    outs = ctx.model.run(lines)
    for (bs, cs), o in zip(cases, outs):
        mo, ms = o.split(' ')
        model = (unhx(mo), int(ms))
        try:
            impl = impl_vote(bs, cs)
        except Exception as e:  # an exception is an observable too
            impl = ('EXC', repr(e))
        ctx.evaluations += 1
        case = {'bs': bs, 'copies': [c.hex() for c in cs]}
        if len(set(cs)) > 1:
            ctx.nontriv((bs, tuple(cs)))
        ctx.count('copies=%d' % len(cs))
        if impl != model:
            ctx.disagree(case, [model[0].hex(), model[1]], [impl[0].hex() if isinstance(impl[0], bytes) else impl[0], impl[1]])
        want = spec(cs)
        offs = LAST['offsets']
        if impl != want:
            ctx.fail(case, {'expected': [want[0].hex(), want[1]],
                            'got': [impl[0].hex() if isinstance(impl[0], bytes) else impl[0], impl[1]]})
        elif len(cs) >= 3 and (offs or []) != all_differ_offsets(cs):
            # "offsets where all copies differ are reported": the offsets the message names are exactly those
            ctx.fail(case, {'what': 'offsets reported as ambiguous', 'expected': all_differ_offsets(cs)[:20], 'got': (offs or [])[:20]})
        else:
            ctx.traces += 1
        ctx.sample({'bs': bs, 'copies': [c.hex() for c in cs], 'output': want[0].hex(), 'status': want[1]}, cap=4)


def words(alpha, maxlen):
    r = []
    for n in range(maxlen + 1):
        r += [bytes(t) for t in itertools.product(alpha, repeat=n)]
    return r


def dup_tool_case(order, files, extra_dirs=(), mtimes=None):
    """`pff dup` as a process on replica folders given in `order` (folder names); files: {folder: {rel: bytes}}.
    Returns (exit status, {rel: bytes} of the output)."""
    from props import cli_proc
    d = tempfile.mkdtemp(prefix='pffc06')
    try:
        for fo, tree in files.items():
            os.makedirs(os.path.join(d, fo), exist_ok=True)
            cli_proc.write_tree(os.path.join(d, fo), tree)
            if mtimes and fo in mtimes:
                for rel in tree:
                    os.utime(os.path.join(d, fo, *rel.split('/')), (mtimes[fo], mtimes[fo]))
        rc, out = cli_proc.pff(['dup', '-i'] + list(order) + ['-o', 'out', '-f', '--silent'], d)
        got = cli_proc.read_tree(os.path.join(d, 'out')) if os.path.isdir(os.path.join(d, 'out')) else {}
        return rc, got
    finally:
        shutil.rmtree(d, ignore_errors=True)


def dup_tool_stream(ctx):
    """The clauses of C06 that only show at the level of the command: the order of the copies is the order GIVEN on the command line
    (not the alphabetical order of the folder names), and a path held by fewer than three replicas is the first copy with a non-zero
    status."""
    base = bytes(range(65, 91)) * 8
    def mut(i, v):
        b = bytearray(base); b[i] = v; return bytes(b)
    scen = [
        # all three copies differ at offset 100: the value of the FIRST GIVEN copy; folders deliberately not in alphabetical order
        ('all-differ, order zeta alpha mid', ['zeta', 'alpha', 'mid'], {'zeta': {'f.bin': mut(100, 0x5a)}, 'alpha': {'f.bin': mut(100, 0x41)}, 'mid': {'f.bin': mut(100, 0x4d)}},
         {'f.bin': mut(100, 0x5a)}, 'nonzero'),
        # four copies, a 2-2 tie at offset 7
        ('tie 2-2, order d c b a', ['d', 'c', 'b', 'a'], {'d': {'t': mut(7, 0x78)}, 'c': {'t': mut(7, 0x79)}, 'b': {'t': mut(7, 0x78)}, 'a': {'t': mut(7, 0x79)}},
         {'t': mut(7, 0x78)}, 'any'),
        # a path held by exactly two of three replicas, the two copies differ: first copy verbatim, non-zero status
        ('two copies of three replicas', ['r1', 'r2', 'r3'], {'r1': {'common': base, 'pair': mut(3, 0x31)}, 'r2': {'common': base, 'pair': mut(3, 0x32)}, 'r3': {'common': base}},
         {'common': base, 'pair': mut(3, 0x31)}, 'nonzero'),
        # the same with the two copies equal: still "cannot vote"
        ('two equal copies of three replicas', ['r1', 'r2', 'r3'], {'r1': {'common': base}, 'r2': {'common': base, 'pair': base}, 'r3': {'common': base, 'pair': base}},
         {'common': base, 'pair': base}, 'nonzero'),
    ]
    # the same scenarios with replicas written on different days, the first given one the most recent: the order is still the given one
    day = 86400
    scen += [(name + ', replicas dated on different days', order, files, want, status,
              {fo: 1_600_000_000 - k * 3 * day for k, fo in enumerate(order)}) for (name, order, files, want, status) in scen[:2]]
    for sc in scen:
        name, order, files, want, status = sc[:5]
        rc, got = dup_tool_case(order, files, mtimes=sc[5] if len(sc) > 5 else None)
        ctx.evaluations += 1
        ctx.count('dup_tool_scenarios')
        ctx.nontriv(('dup-tool', name))
        bad = {}
        if got != want:
            bad['output'] = {k: (got.get(k) or b'')[:120].hex() for k in want if got.get(k) != want[k]}
        if status == 'nonzero' and rc == 0:
            bad['exit'] = rc
        if bad:
            ctx.fail({'kind': 'dup-tool', 'scenario': name}, dict(bad, expected_status=status))
        else:
            ctx.traces += 1


def run(ctx):
    rng = ctx.rng
    dup_tool_stream(ctx)
    # corpus: minimised earlier failures
    corpus = [(4, [b'', b'', b'abcdefghijkl']), (4, [b'abcd', b'abcdefgh', b'abcdefghijklmnopqrstuvwxyz']),
              (1, [b'a', b'b', b'c']), (3, [b'ab', b'ab', b'']), (2, [b'', b'', b''])]
    check_batch(ctx, corpus)
    batch = []
    w3 = words([0, 1, 2], 3 if ctx.tier == 'thorough' else 2)
    for cs in itertools.product(w3, repeat=3):
        for bs in (1, 2, 3, 4):
            batch.append((bs, list(cs)))
    w2 = words([0, 1], 2)
    for cs in itertools.product(w2, repeat=4):
        for bs in (1, 2, 3):
            batch.append((bs, list(cs)))
    if ctx.tier == 'thorough':
        for cs in itertools.product(w2, repeat=5):
            for bs in (1, 2, 3):
                batch.append((bs, list(cs)))
    ctx.extra['exhaustive_cases'] = len(batch)
    for i in range(0, len(batch), 20000):
        check_batch(ctx, batch[i:i + 20000])
    # random, structured: an original, corrupted / truncated / extended copies
    batch = []
    nrand = 1500 if ctx.tier == 'quick' else 30000
    for _ in range(nrand):
        n = rng.choice([0, 1, 2, 3, 3, 3, 4, 5, 5, 6, 7])
        L = rng.choice([0, 1, 2, 5, 17, 64, 65, 130, 300])
        alpha = rng.choice([[0, 255], [97, 98, 99], list(range(256))])
        orig = bytes(rng.choice(alpha) for _ in range(L))
        cs = []
        for _ in range(n):
            c = bytearray(orig)
            mode = rng.random()
            if mode < 0.5:
                for _ in range(rng.choice([0, 1, 2, 5])):
                    if c:
                        c[rng.randrange(len(c))] = rng.choice(alpha)
            if rng.random() < 0.3:
                c = c[:rng.randrange(len(c) + 1)]
            if rng.random() < 0.15:
                c += bytes(rng.choice(alpha) for _ in range(rng.choice([1, 3, 40])))
            cs.append(bytes(c))
        bs = rng.choice([1, 2, 3, 7, 64, 65, 1000])
        batch.append((bs, cs))
    check_batch(ctx, batch)


def replay_case(ctx, case):
    if isinstance(case, dict) and case.get('kind') == 'dup-tool':
        sub = type('X', (), {'evaluations': 0, 'traces': 0, 'fails': [], 'count': lambda self, *a: None, 'nontriv': lambda self, *a: None,
                             'fail': lambda self, c, det: self.fails.append((c, det))})()
        dup_tool_stream(sub)
        f = [det for c, det in sub.fails if c.get('scenario') == case.get('scenario')]
        return {'holds': not f, 'implementation': f[:1]}
    bs, cs = case['bs'], [bytes.fromhex(c) for c in case['copies']]
    try:
        impl = impl_vote(bs, cs)
    except Exception as e:
        impl = ('EXC', repr(e))
    want = spec(cs)
    mo, ms = ctx.model.run(['vote %d %s' % (bs, hxl(cs))])[0].split(' ')
    return {'holds': impl == want, 'implementation': [impl[0].hex() if isinstance(impl[0], bytes) else impl[0], impl[1]],
            'property_expects': [want[0].hex(), want[1]], 'model': [mo, int(ms)]}


def shrink(ctx, case):
    if isinstance(case, dict) and case.get('kind') == 'dup-tool':
        return case
    def bad(c):
        try:
            return impl_vote(c['bs'], [bytes.fromhex(x) for x in c['copies']]) != spec([bytes.fromhex(x) for x in c['copies']])
        except Exception:
            return True
    cur = case
    improved = True
    while improved:
        improved = False
        cands = []
        cs = cur['copies']
        for i in range(len(cs)):
            if len(cs) > 3:
                cands.append({'bs': cur['bs'], 'copies': cs[:i] + cs[i + 1:]})
            if cs[i]:
                cands.append({'bs': cur['bs'], 'copies': cs[:i] + [cs[i][:-2]] + cs[i + 1:]})
                cands.append({'bs': cur['bs'], 'copies': cs[:i] + [cs[i][2:]] + cs[i + 1:]})
        if cur['bs'] > 1:
            cands.append({'bs': cur['bs'] - 1, 'copies': cs})
        for c in cands:
            if bad(c):
                cur, improved = c, True
                break
    return cur
