(* handlers/Facade.ml — C02, C11, C12 *)
let b01 (b : bool) : string = if b then "1" else "0"
let () = register "gfmul" (function [algo] -> hex_of_bytes (drv_gfmul_table (ni algo)) | _ -> "ERR gfmul")
let () = register "gfpow" (function [algo; cnt] -> hex_of_bytes (drv_gfpow_table (ni algo) (ni cnt)) | _ -> "ERR gfpow")
let () = register "gfinv" (function [algo] -> hex_of_bytes (drv_gfinv_table (ni algo)) | _ -> "ERR gfinv")
let () = register "rsgen" (function [algo; nsym] -> hex_of_bytes (drv_gen (ni algo) (ni nsym)) | _ -> "ERR rsgen")
let () = register "enc" (function
  | [algo; n; sk; k; m] -> hex_of_bytes (drv_encode (ni algo) (ni n) (ni sk) (ni k) (bytes_of_hex m))
  | _ -> "ERR enc")
let () = register "chk" (function
  | [algo; n; sk; k; m; e] -> b01 (drv_check (ni algo) (ni n) (ni sk) (ni k) (bytes_of_hex m) (bytes_of_hex e))
  | _ -> "ERR chk")
let () = register "decto" (function
  | [algo; n; sk; k; er; m; e; m'; e'] ->
      b01 (drv_decodes_to (ni algo) (ni n) (ni sk) (ni k) (ni er) (bytes_of_hex m) (bytes_of_hex e) (bytes_of_hex m') (bytes_of_hex e'))
  | _ -> "ERR decto")
let () = register "wcap" (function
  | [algo; n; sk; k; er; m; e; m0] ->
      b01 (drv_within_capacity (ni algo) (ni n) (ni sk) (ni k) (ni er) (bytes_of_hex m) (bytes_of_hex e) (bytes_of_hex m0))
  | _ -> "ERR wcap")
let () = register "facdec12" (function
  | [n; sk; k; er; m; e; has; im; ie] ->
      (match drv_facdec12 (ni n) (ni sk) (ni k) (ni er) (bytes_of_hex m) (bytes_of_hex e) (has = "1") (bytes_of_hex im) (bytes_of_hex ie) with
       | Some (a, b) -> Printf.sprintf "S %s %s" (hex_of_bytes a) (hex_of_bytes b)
       | None -> "N")
  | _ -> "ERR facdec12")
