(* handlers/ToolRun.ml — toolrun <tool 0|1> <algo> <mb> <hdr> <ms> <ik> <ies> <hlen> <fast> <ignore_size> <window> <erasure symbol | 256> <db> <tree: path,content,...>
   <hash table: msg,hash,...> <dk> <dm> <dp> <df> <drm> <drp> <file sizes> <mu tables "a,b;c,d">
   -> "<processed,corrupted,full,partial,skipped,exit | CRASH> <output folder: path:content,... | .>" *)
let () = register "toolrun" (function
  | [tool; algo; mb; hdr; ms; ik; ies; hlen; fast; ign; w; er; db; tree; htab; dk; dm; dp; df; drm; drp; musz; mutb] ->
      let nl_ s = List.map n_of_int (ints_of_arg s) in
      let tabs = if mutb = "." then [] else
        List.map (fun s -> List.map n_of_int (ints_of_arg s)) (String.split_on_char ';' mutb) in
      let (ctr, outs) =
        drv_toolrun (ni tool) (ni algo) (ni mb) (ni hdr) (ni ms) (ni ik) (ni ies) (ni hlen) (ni fast) (ni ign) (ni w) (ni er)
          (bytes_of_hex db) (list_of_arg tree) (list_of_arg htab)
          (nl_ dk) (list_of_arg dm) (list_of_arg dp) (nl_ df) (list_of_arg drm) (list_of_arg drp) (nl_ musz) tabs in
      let cs = match ctr with None -> "CRASH" | Some l -> String.concat "," (List.map (fun x -> string_of_int (int_of_n x)) l) in
      let os = if outs = [] then "." else String.concat ","
        (List.map (fun (p, c) -> hex_of_bytes p ^ ":" ^ hex_of_bytes c) outs) in
      Printf.sprintf "%s %s" cs os
  | _ -> "ERR toolrun: bad arguments")
