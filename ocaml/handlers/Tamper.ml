(* handlers/Tamper.ml — C19.  Encodings: rational "n/e" = n / 2^e; option "none";
   burst "lo,hi"; draws "." or comma-separated tokens u<k> (= k/2^53), v<k>/<e> (= k/2^e), i<z>. *)
let tam_rat (s : string) : z * n =
  match String.split_on_char '/' s with
  | [a; b] -> (zi a, ni b)
  | _ -> failwith "rational"
let tam_opt (f : string -> 'a) (s : string) : 'a option = if s = "none" then None else Some (f s)
let tam_burst (s : string) : z * z =
  match String.split_on_char ',' s with [a; b] -> (zi a, zi b) | _ -> failwith "burst"
let tam_draw (t : string) : bool * (z * n) =
  let body = String.sub t 1 (String.length t - 1) in
  match t.[0] with
  | 'u' -> (true, (zi body, n_of_int 53))
  | 'v' -> (true, tam_rat body)
  | 'i' -> (false, (zi body, N0))
  | _ -> failwith "draw"
let tam_draws (s : string) : (bool * (z * n)) list =
  if s = "." then [] else List.rev (List.rev_map tam_draw (String.split_on_char ',' s))
let tam_rats (s : string) : (z * n) list =
  if s = "." then [] else List.map tam_rat (String.split_on_char ',' s)
let tam_err (c : n) : string =
  "ERR " ^ (match int_of_n c with 1 -> "OutOfStream" | 2 -> "BadDraw" | 3 -> "BadRange" | 4 -> "OutOfFuel" | _ -> "?")
let tam_ns (l : n list) : string = arg_of_ints (List.map int_of_n l)

let () = register "tfile" (function
  | [mode; p; bp; burst; h; bs; content; rnd] ->
      (match drv_tamper_file (bytes_of_hex mode) (tam_rat p) (tam_opt tam_rat bp) (tam_opt tam_burst burst)
               (tam_opt zi h) (ni bs) (bytes_of_hex content) (tam_draws rnd) with
       | Inl c -> tam_err c
       | Inr (((o, (c, s)), left), trace) ->
           let tr = if trace = [] then "." else
             String.concat ";" (List.map (fun (sel, (a, b)) ->
               Printf.sprintf "%d:%d:%d" (if sel then 1 else 0) (int_of_n a) (int_of_n b)) trace) in
           Printf.sprintf "OK %s %d %d %d %s" (hex_of_bytes o) (int_of_n c) (int_of_n s) (int_of_n left) tr)
  | _ -> "ERR tfile: bad arguments")

let () = register "tmainfile" (function
  | [mode; p; bp; burst; h; bs; content; rnd] ->
      (match drv_tamper_main_file (bytes_of_hex mode) (tam_rat p) (tam_opt tam_rat bp) (tam_opt tam_burst burst)
               (tam_opt zi h) (ni bs) (bytes_of_hex content) (tam_draws rnd) with
       | Inl c -> tam_err c
       | Inr ((o, rp), left) -> Printf.sprintf "OK %s %s %d" (hex_of_bytes o) (tam_ns rp) (int_of_n left))
  | _ -> "ERR tmainfile: bad arguments")

let () = register "tmaindir" (function
  | [mode; bp; burst; h; bs; ps; contents; rnd] ->
      (match drv_tamper_main_dir (bytes_of_hex mode) (tam_opt tam_rat bp) (tam_opt tam_burst burst)
               (tam_opt zi h) (ni bs) (tam_rats ps) (list_of_arg contents) (tam_draws rnd) with
       | Inl c -> tam_err c
       | Inr ((cs, rp), left) -> Printf.sprintf "OK %s %s %d" (arg_of_list cs) (tam_ns rp) (int_of_n left))
  | _ -> "ERR tmaindir: bad arguments")
