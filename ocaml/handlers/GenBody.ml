(* handlers/GenBody.ml — genbody <tool 0|1> <algo> <mb> <hdr> <ms> <ik> <ies> <hash table: msg,hash,msg,hash,...> <file sizes> <mu tables "a,b;c,d">
   <paths> <contents>  ->  the ecc body (hex) of the composed model *)
let () = register "genbody" (function
  | [tool; algo; mb; hdr; ms; ik; ies; htab; musz; mutb; ps; cs] ->
      let tabs = if mutb = "." then [] else
        List.map (fun s -> List.map n_of_int (ints_of_arg s)) (String.split_on_char ';' mutb) in
      hex_of_bytes (drv_genbody (ni tool) (ni algo) (ni mb) (ni hdr) (ni ms) (ni ik) (ni ies) (list_of_arg htab)
                      (List.map n_of_int (ints_of_arg musz)) tabs (list_of_arg ps) (list_of_arg cs))
  | _ -> "ERR genbody: bad arguments")
