(* handlers/Vote.ml — C06 *)
let () = register "vote" (function
  | [bs; cs] ->
      let (o, s) = drv_vote (ni bs) (list_of_arg cs) in
      Printf.sprintf "%s %d" (hex_of_bytes o) (int_of_n s)
  | _ -> "ERR vote: bad arguments")
