(* handlers/Merge.ml — C07: walk / sync / sortdict / sortgroup / cmp *)
let bools_of_arg (s : string) : bool list = List.map (fun i -> i <> 0) (ints_of_arg s)
let sb (b : bool) : string = if b then "1" else "0"

let () = register "walk" (function
  | [ps] -> arg_of_list (drv_walk (list_of_arg ps))
  | _ -> "ERR walk: bad arguments")

let () = register "sync" (function
  | bs :: rest ->
      let rec pairs = function
        | p :: c :: t -> (list_of_arg p, list_of_arg c) :: pairs t
        | [] -> []
        | _ -> failwith "sync: odd number of replica arguments" in
      let ((rows, o), rc) = drv_sync (ni bs) (pairs rest) in
      let row (((p, hs), c), s) =
        Printf.sprintf "%s:%s:%s:%d" (hex_of_bytes p) (arg_of_ints (List.map int_of_n hs)) (hex_of_bytes c) (int_of_n s) in
      Printf.sprintf "%s %d %d" (if rows = [] then "." else String.concat ";" (List.map row rows)) (int_of_n o) (int_of_n rc)
  | _ -> "ERR sync: bad arguments")

let () = register "sortdict" (function
  | [pr; ps] ->
      let l = drv_sortdict (bools_of_arg pr) (list_of_arg ps) in
      if l = [] then "." else
      String.concat "," (List.map (fun ((i, b), p) -> Printf.sprintf "%d:%s:%s" (int_of_n i) (sb b) (hex_of_bytes p)) l)
  | _ -> "ERR sortdict: bad arguments")

let () = register "sortgroup" (function
  | [f; pr; ps] ->
      (match drv_sortgroup (f <> "0") (bools_of_arg pr) (list_of_arg ps) with
       | None -> "None"
       | Some gs ->
           String.concat ";" (List.map (fun g ->
             String.concat "," (List.map (fun (i, p) -> Printf.sprintf "%d:%s" (int_of_n i) (hex_of_bytes p)) g)) gs))
  | _ -> "ERR sortgroup: bad arguments")

let () = register "cmp" (function
  | [p; q] -> let (a, b) = drv_cmp (bytes_of_hex p) (bytes_of_hex q) in sb a ^ " " ^ sb b
  | _ -> "ERR cmp: bad arguments")
