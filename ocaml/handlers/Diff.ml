(* handlers/Diff.ml — C20 *)
let () = register "diff" (function
  | [bs; s1; s2; f1; f2] ->
      let ((d, t), same) = drv_diff (ni bs) (ni s1) (ni s2) (bytes_of_hex f1) (bytes_of_hex f2) in
      Printf.sprintf "%d %d %d" (int_of_n d) (int_of_n t) (if same then 1 else 0)
  | _ -> "ERR diff: bad arguments")
let () = register "diffdir" (function
  | [bs; rk; rv; ok; ov] ->
      let (((d, t), (c, n)), e) = drv_diffdir (ni bs) (list_of_arg rk) (list_of_arg rv) (list_of_arg ok) (list_of_arg ov) in
      Printf.sprintf "%d %d %d %d %d" (int_of_n d) (int_of_n t) (int_of_n c) (int_of_n n) (int_of_n e)
  | _ -> "ERR diffdir: bad arguments")
