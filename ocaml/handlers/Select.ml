(* handlers/Select.ml — C01: correction restricted with an errors file (coq/Select.v) *)
let () = register "selrun" (function
  | [tool; m; d; db; ign; w; tree; itab; btab; lst] ->
      let (ctr, outs) =
        drv_sel_run (ni tool) (bytes_of_hex m) (bytes_of_hex d) (bytes_of_hex db) (ign = "1") (ni w)
          (list_of_arg tree) (list_of_arg itab) (list_of_arg btab) (list_of_arg lst) in
      let cs = match ctr with None -> "CRASH" | Some l -> String.concat "," (List.map (fun x -> string_of_int (int_of_n x)) l) in
      let os = if outs = [] then "." else String.concat ","
        (List.map (fun (p, c) -> hex_of_bytes p ^ ":" ^ hex_of_bytes c) outs) in
      Printf.sprintf "%s %s" cs os
  | _ -> "ERR selrun: bad arguments")
