(* handlers/Scan.ml — C14 *)
let () = register "scan" (function
  | [m; oc; bs; s; p] ->
      let rs = drv_scan (bytes_of_hex m) (oc = "1") (ni bs) (bytes_of_hex s) (ni p) in
      String.concat ";" (List.map (fun ((((tag, a), e), l), pos) ->
        (match int_of_n tag with
         | 0 -> "N"
         | 1 -> Printf.sprintf "C:%d:%d" (int_of_n a) (int_of_n e)
         | 2 -> "B:" ^ hex_of_bytes l
         | _ -> "FUEL") ^ "@" ^ string_of_int (int_of_n pos)) rs)
  | _ -> "ERR scan: bad arguments")

let () = register "entries" (function
  | [m; s; p] ->
      let es = drv_entries (bytes_of_hex m) (bytes_of_hex s) (ni p) in
      if es = [] then "." else
      String.concat ";" (List.map (fun (a, e) -> Printf.sprintf "%d:%d" (int_of_n a) (int_of_n e)) es)
  | _ -> "ERR entries: bad arguments")
