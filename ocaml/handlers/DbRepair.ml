(* handlers/DbRepair.ml — C18
   dbrepair <usedb> <report> <bs> <nrep> <path comps> <holder ids> <holder contents> <db rows> <hash table>
     db rows:    "comp,comp:md5:sha1:size;..." ("." = none)      hash table: "content:md5:sha1;..." ("." = none)
     answer:     <out> <errcode> <dir cells> <hash cell> <error cell> <errors filled 0/1> <taken replica index or -1> <oracle miss 0/1>
   dbstatus <codes>                          -> exit status of the run
   rfigc1 <path comps> <content> <db rows> <hash table>   -> return value of the single-file check of rfigc *)
let c18_rows (s : string) =
  if s = "." then [] else
    List.map (fun r -> match String.split_on_char ':' r with
      | [p; m; h; z] -> (list_of_arg p, (bytes_of_hex m, (bytes_of_hex h, ni z)))
      | _ -> failwith "bad db row") (String.split_on_char ';' s)
let c18_tab (s : string) =
  if s = "." then [] else
    List.map (fun r -> match String.split_on_char ':' r with
      | [c; m; h] -> (bytes_of_hex c, (bytes_of_hex m, bytes_of_hex h))
      | _ -> failwith "bad table entry") (String.split_on_char ';' s)
let c18_cell (c : n) : string = match int_of_n c with 0 -> "-" | 1 -> "X" | 2 -> "O" | 3 -> "K" | _ -> "N"

let () = register "dbrepair" (function
  | [usedb; report; bs; nrep; p; ids; cs; db; tb] ->
      let t = c18_tab tb in
      let contents = list_of_arg cs in
      let (o, (e, (tk, (has, (dirs, (hc, (ec, msg))))))) =
        drv_dbrepair t (usedb = "1") (report = "1") (ni bs) (ni nrep) (list_of_arg p)
          (List.map n_of_int (ints_of_arg ids)) contents (c18_rows db) in
      let miss = not (List.for_all (fun c -> drv_dbtab_has t c) (o :: contents)) in
      Printf.sprintf "%s %d %s %s %s %d %d %d" (hex_of_bytes o) (int_of_n e)
        (if has then String.concat "" (List.map c18_cell dirs) else ".")
        (if has then c18_cell hc else ".") (if has then c18_cell ec else ".")
        (if msg then 1 else 0) (int_of_n tk - 1) (if miss then 1 else 0)
  | _ -> "ERR dbrepair: bad arguments")

let () = register "dbstatus" (function
  | [codes] -> string_of_int (int_of_n (drv_dbstatus (List.map n_of_int (ints_of_arg codes))))
  | _ -> "ERR dbstatus: bad arguments")

let () = register "rfigc1" (function
  | [p; c; db; tb] ->
      if drv_rfigc_single (c18_tab tb) (list_of_arg p) (bytes_of_hex c) (c18_rows db) then "1" else "0"
  | _ -> "ERR rfigc1: bad arguments")
