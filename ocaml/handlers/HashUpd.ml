(* handlers/HashUpd.ml — C16
   hashupd <paths0> <contents0> <kinds> <paths> <contents>
     -> "<status>:<row>/<row>/...;..." one group per state (initial generation, then every step);
        row = "<path>,<content>,<size>,<ext>" (hex, "-" when empty); "." for an empty database
   hashext <path> -> extension (hex)        hashwalk <paths> -> paths in walk order *)
let () = register "hashupd" (function
  | [ps0; cs0; ks; ps; cs] ->
      let res = drv_hashupd (list_of_arg ps0) (list_of_arg cs0)
                  (List.map n_of_int (ints_of_arg ks)) (list_of_arg ps) (list_of_arg cs) in
      let row (((p, h), s), e) =
        String.concat "," [hex_of_bytes p; hex_of_bytes h; string_of_int (int_of_n s); hex_of_bytes e] in
      let grp (st, db) =
        Printf.sprintf "%d:%s" (int_of_n st) (if db = [] then "." else String.concat "/" (List.map row db)) in
      String.concat ";" (List.map grp res)
  | _ -> "ERR hashupd: bad arguments")
let () = register "hashext" (function
  | [p] -> hex_of_bytes (drv_hashext (bytes_of_hex p))
  | _ -> "ERR hashext: bad arguments")
let () = register "hashwalk" (function
  | [ps] -> arg_of_list (drv_hashwalk (list_of_arg ps))
  | _ -> "ERR hashwalk: bad arguments")
