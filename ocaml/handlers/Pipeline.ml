(* handlers/Pipeline.ml — C04, C01: one file through the per-block pipeline of either tool *)
let nl (s : string) : n list = List.map n_of_int (ints_of_arg s)
let pipe_answer (((out, vs), (cls, miss)), trace) =
  let q (((kind, k), (m, p))) =
    Printf.sprintf "%d:%d:%s:%s" (int_of_n kind) (int_of_n k) (hex_of_bytes m) (hex_of_bytes p) in
  Printf.sprintf "%s %s %d %d %s"
    (match out with None -> "N" | Some b -> hex_of_bytes b)
    (arg_of_ints (List.map int_of_n vs)) (int_of_n cls) (int_of_n miss)
    (if trace = [] then "." else String.concat ";" (List.map q trace))
let () = register "pipe_hdr" (function
  | [fast; ms; mb; hlen; hdr; recorded; file; track; hk; hv; ck; cm; cp; cv; dk; dm; dp; df; drm; drp] ->
      pipe_answer (drv_pipe_hdr (ni fast) (ni ms) (ni mb) (ni hlen) (ni hdr) (ni recorded)
        (bytes_of_hex file) (bytes_of_hex track) (list_of_arg hk) (list_of_arg hv)
        (nl ck) (list_of_arg cm) (list_of_arg cp) (nl cv)
        (nl dk) (list_of_arg dm) (list_of_arg dp) (nl df) (list_of_arg drm) (list_of_arg drp))
  | _ -> "ERR pipe_hdr: bad arguments")
let () = register "pipe_sa" (function
  | [fast; mb; hlen; tlen; mutab; file; db; hk; hv; ck; cm; cp; cv; dk; dm; dp; df; drm; drp] ->
      pipe_answer (drv_pipe_sa (ni fast) (ni mb) (ni hlen) (ni tlen) (nl mutab)
        (bytes_of_hex file) (bytes_of_hex db) (list_of_arg hk) (list_of_arg hv)
        (nl ck) (list_of_arg cm) (list_of_arg cp) (nl cv)
        (nl dk) (list_of_arg dm) (list_of_arg dp) (nl df) (list_of_arg drm) (list_of_arg drp))
  | _ -> "ERR pipe_sa: bad arguments")
let () = register "pipe_tally" (function
  | [ks] -> arg_of_ints (List.map int_of_n (drv_pipe_tally (nl ks)))
  | _ -> "ERR pipe_tally: bad arguments")
