(* handlers/Entry.ml — C09.  Oracle tables (recorded around ECCMan.encode/check/decode by the harness):
     enc table  "m:e;m:e;..."            chk table "m:e:0|1;..."        dec table "m:e:m2:e2;...", "m:e:N" = decoder raised
   byte strings in hex ("-" = empty), "." = empty table.  A query that is not in its table raises Oracle_miss. *)
exception Oracle_miss of string
let ent_rows (s : string) : string list list =
  if s = "." then [] else List.map (String.split_on_char ':') (String.split_on_char ';' s)
let ent_enc (tab : string) : byte list -> byte list =
  let h = Hashtbl.create 64 in
  List.iter (function [m; e] -> Hashtbl.replace h m (bytes_of_hex e) | _ -> failwith "bad enc table") (ent_rows tab);
  fun m -> let key = hex_of_bytes m in
    (match Hashtbl.find_opt h key with Some e -> e | None -> raise (Oracle_miss ("enc " ^ key)))
let ent_chk (tab : string) : byte list -> byte list -> bool =
  let h = Hashtbl.create 64 in
  List.iter (function [m; e; r] -> Hashtbl.replace h (m ^ ":" ^ e) (r = "1") | _ -> failwith "bad chk table") (ent_rows tab);
  fun m e -> let key = hex_of_bytes m ^ ":" ^ hex_of_bytes e in
    (match Hashtbl.find_opt h key with Some r -> r | None -> raise (Oracle_miss ("chk " ^ key)))
let ent_dec (tab : string) : byte list -> byte list -> (byte list * byte list) option =
  let h = Hashtbl.create 64 in
  List.iter (function [m; e; "N"] -> Hashtbl.replace h (m ^ ":" ^ e) None
                    | [m; e; m2; e2] -> Hashtbl.replace h (m ^ ":" ^ e) (Some (bytes_of_hex m2, bytes_of_hex e2))
                    | _ -> failwith "bad dec table") (ent_rows tab);
  fun m e -> let key = hex_of_bytes m ^ ":" ^ hex_of_bytes e in
    (match Hashtbl.find_opt h key with Some r -> r | None -> raise (Oracle_miss ("dec " ^ key)))
let ent_b (x : bool) : string = if x then "1" else "0"
let ent_res (((f, c), ok) : (byte list * bool) * bool) : string =
  Printf.sprintf "%s %s %s" (hex_of_bytes f) (ent_b c) (ent_b ok)
let ent_optz = function None -> "N" | Some z -> string_of_int (int_of_z z)

let () = register "ent_find" (function
  | [sub; s; st] -> string_of_int (int_of_z (drv_ent_find (bytes_of_hex sub) (bytes_of_hex s) (zi st)))
  | _ -> "ERR ent_find: bad arguments")
let () = register "ent_slice" (function
  | [s; lo; hi] -> hex_of_bytes (drv_ent_slice (bytes_of_hex s) (zi lo) (zi hi))
  | _ -> "ERR ent_slice: bad arguments")
let () = register "ent_int" (function
  | [s] -> ent_optz (drv_ent_int (bytes_of_hex s))
  | _ -> "ERR ent_int: bad arguments")
let () = register "ent_decimal" (function
  | [n] -> hex_of_bytes (drv_ent_decimal (ni n))
  | _ -> "ERR ent_decimal: bad arguments")
let () = register "ent_fields_hdr" (function
  | [d; e] ->
      let ((((p, s), pe), se), tr) = drv_ent_fields_hdr (bytes_of_hex d) (bytes_of_hex e) in
      String.concat " " (List.map hex_of_bytes [p; s; pe; se; tr])
  | _ -> "ERR ent_fields_hdr: bad arguments")
let () = register "ent_fields_whole" (function
  | [bs; d; f; p0; p1] ->
      let ((((p, s), pe), se), (a, b)) = drv_ent_fields_whole (ni bs) (bytes_of_hex d) (bytes_of_hex f) (zi p0) (zi p1) in
      Printf.sprintf "%s %d %d" (String.concat " " (List.map hex_of_bytes [p; s; pe; se])) (int_of_z a) (int_of_z b)
  | _ -> "ERR ent_fields_whole: bad arguments")
let () = register "ent_encode" (function
  | [tool; k; enc; f] -> hex_of_bytes (drv_ent_encode (ni tool) (ni k) (ent_enc enc) (bytes_of_hex f))
  | _ -> "ERR ent_encode: bad arguments")
let () = register "ent_correct" (function
  | [tool; k; es; chk; dec; f; e] ->
      ent_res (drv_ent_correct (ni tool) (ni k) (ni es) (ent_chk chk) (ent_dec dec) (bytes_of_hex f) (bytes_of_hex e))
  | _ -> "ERR ent_correct: bad arguments")
let () = register "ent_format" (function
  | [tool; k; enc; mk; d; p; n] ->
      hex_of_bytes (drv_ent_format (ni tool) (ni k) (ent_enc enc) (bytes_of_hex mk) (bytes_of_hex d) (bytes_of_hex p) (ni n))
  | _ -> "ERR ent_format: bad arguments")
let () = register "ent_meta_hdr" (function
  | [k; es; chk; dec; d; e] ->
      let (((rp, rs), sz), tr) = drv_ent_meta_hdr (ni k) (ni es) (ent_chk chk) (ent_dec dec) (bytes_of_hex d) (bytes_of_hex e) in
      Printf.sprintf "%s %s %s %s" (ent_res rp) (ent_res rs) (ent_optz sz) (hex_of_bytes tr)
  | _ -> "ERR ent_meta_hdr: bad arguments")
let () = register "ent_meta_whole" (function
  | [k; es; chk; dec; bs; d; f; p0; p1] ->
      let (((rp, rs), sz), (a, b)) = drv_ent_meta_whole (ni k) (ni es) (ent_chk chk) (ent_dec dec) (ni bs)
                                       (bytes_of_hex d) (bytes_of_hex f) (zi p0) (zi p1) in
      Printf.sprintf "%s %s %s %d %d" (ent_res rp) (ent_res rs) (ent_optz sz) (int_of_z a) (int_of_z b)
  | _ -> "ERR ent_meta_whole: bad arguments")
let () = register "ent_unamb" (function
  | [d; p; s; pe; se] ->
      ent_b (drv_ent_unambiguous (bytes_of_hex d) (bytes_of_hex p) (bytes_of_hex s) (bytes_of_hex pe) (bytes_of_hex se))
  | _ -> "ERR ent_unamb: bad arguments")
let () = register "ent_hamming" (function
  | [a; b] -> string_of_int (int_of_n (drv_ent_hamming (bytes_of_hex a) (bytes_of_hex b)))
  | _ -> "ERR ent_hamming: bad arguments")
