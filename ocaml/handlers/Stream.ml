(* handlers/Stream.ml — C08 / C13 / C03 *)
let () = register "st_scan" (function
  | [m; db] ->
      let l = drv_st_scan (bytes_of_hex m) (bytes_of_hex db) in
      if l = [] then "." else String.concat "," (List.map (fun (s, e) -> Printf.sprintf "%d:%d" (int_of_n s) (int_of_n e)) l)
  | _ -> "ERR st_scan: bad arguments")

let () = register "st_fields" (function
  | [d; t] ->
      let (l, off) = drv_st_fields (bytes_of_hex d) (bytes_of_hex t) in
      Printf.sprintf "%s %d" (arg_of_list l) (int_of_z off)
  | _ -> "ERR st_fields: bad arguments")

let () = register "st_pyint" (function
  | [s] -> (match drv_st_pyint (bytes_of_hex s) with
            | Some (neg, ds) ->
                let str = String.concat "" (List.map (fun b -> String.make 1 (Char.chr (int_of_byte b))) ds) in
                if neg then "-" ^ str else str
            | None -> "ValueError")
  | _ -> "ERR st_pyint: bad arguments")

let () = register "streamrun" (function
  | [tool; m; d; db; ign; w; tree; itab; btab] ->
      let (tr, (miss, (ctr, outs))) =
        drv_stream_run (ni tool) (bytes_of_hex m) (bytes_of_hex d) (bytes_of_hex db) (ign = "1") (ni w)
          (list_of_arg tree) (list_of_arg itab) (list_of_arg btab) in
      let trs = if tr = [] then "." else String.concat ","
        (List.map (fun (((s, e), t), c) -> Printf.sprintf "%d:%d:%d:%d" (int_of_n s) (int_of_n e) (int_of_n t) (int_of_n c)) tr) in
      let cs = match ctr with None -> "CRASH" | Some l -> String.concat "," (List.map (fun x -> string_of_int (int_of_n x)) l) in
      let os = if outs = [] then "." else String.concat ","
        (List.map (fun (p, c) -> hex_of_bytes p ^ ":" ^ hex_of_bytes c) outs) in
      Printf.sprintf "%s %d %s %s" trs (int_of_n miss) cs os
  | _ -> "ERR streamrun: bad arguments")
