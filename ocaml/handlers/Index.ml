(* handlers/Index.ml — C15 *)
let () = register "idx_eccfile" (function
  | [pre; fields] -> hex_of_bytes (drv_idx_eccfile (bytes_of_hex pre) (list_of_arg fields))
  | _ -> "ERR idx_eccfile: bad arguments")
let () = register "idx_msgs" (function
  | [sa; pre; fields] -> arg_of_list (drv_idx_msgs (ni sa) (bytes_of_hex pre) (list_of_arg fields))
  | _ -> "ERR idx_msgs: bad arguments")
let () = register "idx_gen" (function
  | [sa; pre; fields; ek; ev] ->
      hex_of_bytes (drv_idx_gen (ni sa) (bytes_of_hex pre) (list_of_arg fields) (list_of_arg ek) (list_of_arg ev))
  | _ -> "ERR idx_gen: bad arguments")
let () = register "idx_be64" (function
  | [v] -> let (b, n) = drv_idx_be64 (ni v) in Printf.sprintf "%s %d" (hex_of_bytes b) (int_of_n n)
  | _ -> "ERR idx_be64: bad arguments")
let () = register "idx_recover" (function
  | [ecc; idx; t1; t2; bs; cm; ce; ca; dm; de; dv] ->
      let (o, miss) = drv_idx_recover (bytes_of_hex ecc) (bytes_of_hex idx) (ni t1) (ni t2) (ni bs)
                        (list_of_arg cm) (list_of_arg ce) (bytes_of_hex ca)
                        (list_of_arg dm) (list_of_arg de) (list_of_arg dv) in
      Printf.sprintf "%s %d" (hex_of_bytes o) (int_of_n miss)
  | _ -> "ERR idx_recover: bad arguments")
let () = register "idx_hamming" (function
  | [ecc; t1; t2; bs] -> hex_of_bytes (drv_idx_hamming (bytes_of_hex ecc) (ni t1) (ni t2) (ni bs))
  | _ -> "ERR idx_hamming: bad arguments")
