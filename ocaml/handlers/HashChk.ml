(* handlers/HashChk.ml — C05, C17 (rfigc generation, check mode, file-scraping recovery) *)
let hchk_ns (s : string) : n list = List.map n_of_int (ints_of_arg s)
let hchk_zs (s : string) : z list = List.map z_of_int (ints_of_arg s)
let hchk_flag (s : string) : bool = (s = "1")
let hchk_rep (l : (byte list * n list) list) : string =
  if l = [] then "." else
  String.concat "," (List.map (fun (p, ks) ->
    hex_of_bytes p ^ ":" ^ String.concat "+" (List.map (fun k -> string_of_int (int_of_n k)) ks)) l)
let () = register "hchk_gen" (function
  | [ps; ids; ms; ss; szs; mts] ->
      let rows = drv_hchk_gen (list_of_arg ps) (hchk_ns ids) (list_of_arg ms) (list_of_arg ss) (hchk_ns szs) (hchk_zs mts) in
      if rows = [] then "." else
      String.concat "," (List.map (fun (p, (a, (b, (m, (s, e))))) ->
        Printf.sprintf "%s:%s:%s:%d:%d:%s" (hex_of_bytes p) (hex_of_bytes a) (hex_of_bytes b)
          (int_of_z m) (int_of_n s) (hex_of_bytes e)) rows)
  | _ -> "ERR hchk_gen: bad arguments")
let () = register "hchk_check" (function
  | [sh; nm; sm; ht; t; ps; ids; ms; ss; szs; mts; dp; dm; ds; dmt; dsz; de] ->
      let (rep, (ef, ex)) =
        drv_hchk_check (hchk_flag sh) (hchk_flag nm) (hchk_flag sm) (hchk_flag ht) (bytes_of_hex t)
          (list_of_arg ps) (hchk_ns ids) (list_of_arg ms) (list_of_arg ss) (hchk_ns szs) (hchk_zs mts)
          (list_of_arg dp) (list_of_arg dm) (list_of_arg ds) (hchk_zs dmt) (hchk_ns dsz) (list_of_arg de) in
      Printf.sprintf "%d %s %s" (if ex then 1 else 0) (hchk_rep rep) (hchk_rep ef)
  | _ -> "ERR hchk_check: bad arguments")
let () = register "hchk_scrape" (function
  | [dp; dm; ds; dmt; dsz; de; ps; ids; ms; ss; szs; mts] ->
      let (out, st) =
        drv_hchk_scrape (list_of_arg dp) (list_of_arg dm) (list_of_arg ds) (hchk_zs dmt) (hchk_ns dsz) (list_of_arg de)
          (list_of_arg ps) (hchk_ns ids) (list_of_arg ms) (list_of_arg ss) (hchk_ns szs) (hchk_zs mts) in
      Printf.sprintf "%d %s" (int_of_n st)
        (if out = [] then "." else
         String.concat "," (List.map (fun (p, (i, m)) ->
           Printf.sprintf "%s:%d:%d" (hex_of_bytes p) (int_of_n i) (int_of_z m)) out))
  | _ -> "ERR hchk_scrape: bad arguments")
let () = register "hchk_mtime" (function
  | [a; b] -> let (c, r) = drv_hchk_mtime (zi a) (zi b) in Printf.sprintf "%d %d" (if c then 1 else 0) (int_of_z r)
  | _ -> "ERR hchk_mtime: bad arguments")
let () = register "hchk_ext" (function
  | [p] -> let (e, b) = drv_hchk_ext (bytes_of_hex p) in Printf.sprintf "%s %s" (hex_of_bytes e) (hex_of_bytes b)
  | _ -> "ERR hchk_ext: bad arguments")
