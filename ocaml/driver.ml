(* driver.ml — line-oriented driver around the extracted models.
   One request per input line: "<cmd> <arg> <arg> ...", one answer line per request.
   Encodings: integers in decimal; a byte string in hex, "-" when empty;
   a list of byte strings joined by ",", "." when the list is empty. *)
open Pffmodel

let rec pos_of_int (i : int) : positive =
  if i = 1 then XH else if i land 1 = 0 then XO (pos_of_int (i lsr 1)) else XI (pos_of_int (i lsr 1))
let n_of_int (i : int) : n = if i = 0 then N0 else Npos (pos_of_int i)
let rec int_of_pos = function XH -> 1 | XO p -> 2 * int_of_pos p | XI p -> 2 * int_of_pos p + 1
let int_of_n = function N0 -> 0 | Npos p -> int_of_pos p
let rec int_of_nat = function O -> 0 | S n -> 1 + int_of_nat n

let byte_tab : byte array = Array.of_list all_bytes
let byte_of_int (i : int) : byte = byte_tab.(i)
let int_of_byte (b : byte) : int = int_of_n (n_of_byte b)

let bytes_of_hex (s : string) : byte list =
  if s = "-" then [] else begin
    let n = String.length s / 2 in
    let rec go i acc = if i < 0 then acc else go (i - 1) (byte_of_int (int_of_string ("0x" ^ String.sub s (2 * i) 2)) :: acc) in
    go (n - 1) [] end
let hex_of_bytes (l : byte list) : string =
  if l = [] then "-" else begin
    let b = Buffer.create 64 in
    List.iter (fun x -> Buffer.add_string b (Printf.sprintf "%02x" (int_of_byte x))) l;
    Buffer.contents b end
let list_of_arg (s : string) : byte list list =
  if s = "." then [] else List.map bytes_of_hex (String.split_on_char ',' s)
let arg_of_list (l : byte list list) : string =
  if l = [] then "." else String.concat "," (List.map hex_of_bytes l)

let handle (line : string) : string =
  match String.split_on_char ' ' line with
  | ["vote"; bs; cs] ->
      let (o, s) = drv_vote (n_of_int (int_of_string bs)) (list_of_arg cs) in
      Printf.sprintf "%s %d" (hex_of_bytes o) (int_of_n s)
  | ["diff"; bs; s1; s2; f1; f2] ->
      let i x = n_of_int (int_of_string x) in
      let ((d, t), same) = drv_diff (i bs) (i s1) (i s2) (bytes_of_hex f1) (bytes_of_hex f2) in
      Printf.sprintf "%d %d %d" (int_of_n d) (int_of_n t) (if same then 1 else 0)
  | ["diffdir"; bs; rk; rv; ok; ov] ->
      let (((d, t), (c, n)), e) = drv_diffdir (n_of_int (int_of_string bs)) (list_of_arg rk) (list_of_arg rv) (list_of_arg ok) (list_of_arg ov) in
      Printf.sprintf "%d %d %d %d %d" (int_of_n d) (int_of_n t) (int_of_n c) (int_of_n n) (int_of_n e)
  | _ -> "ERR bad request"

let () =
  try
    while true do
      let line = input_line stdin in
      let out = try handle line with e -> "ERR " ^ Printexc.to_string e in
      print_string out; print_char '\n'
    done
  with End_of_file -> ()
