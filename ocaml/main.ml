(* main.ml — request loop *)
let handle (line : string) : string =
  match String.split_on_char ' ' line with
  | cmd :: args -> (match Hashtbl.find_opt handlers cmd with
                    | Some f -> f args
                    | None -> "ERR unknown command " ^ cmd)
  | [] -> "ERR empty request"

let () =
  try
    while true do
      let line = input_line stdin in
      let out = try handle line with e -> "ERR " ^ Printexc.to_string e in
      print_string out; print_char '\n'
    done
  with End_of_file -> ()
