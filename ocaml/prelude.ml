(* prelude.ml — shared part of the line-oriented driver around the extracted models.
   One request per input line: "<cmd> <arg> <arg> ...", one answer line per request.
   Encodings: integers in decimal; a byte string in hex, "-" when empty;
   a list of byte strings joined by ",", "." when the list is empty.
   The final driver is prelude.ml ++ handlers/*.ml ++ main.ml (concatenated by tools/genbuild.py). *)
open Pffmodel

let rec pos_of_int (i : int) : positive =
  if i = 1 then XH else if i land 1 = 0 then XO (pos_of_int (i lsr 1)) else XI (pos_of_int (i lsr 1))
let n_of_int (i : int) : n = if i = 0 then N0 else Npos (pos_of_int i)
let z_of_int (i : int) : z = if i = 0 then Z0 else if i > 0 then Zpos (pos_of_int i) else Zneg (pos_of_int (- i))
let rec int_of_pos = function XH -> 1 | XO p -> 2 * int_of_pos p | XI p -> 2 * int_of_pos p + 1
let int_of_n = function N0 -> 0 | Npos p -> int_of_pos p
let int_of_z = function Z0 -> 0 | Zpos p -> int_of_pos p | Zneg p -> - (int_of_pos p)
let rec int_of_nat = function O -> 0 | S n -> 1 + int_of_nat n
let rec nat_of_int (i : int) : nat = if i <= 0 then O else S (nat_of_int (i - 1))
let ni (s : string) : n = n_of_int (int_of_string s)
let zi (s : string) : z = z_of_int (int_of_string s)

let byte_tab : byte array = Array.of_list all_bytes
let byte_of_int (i : int) : byte = byte_tab.(i)
let int_of_byte (b : byte) : int = int_of_n (n_of_byte b)

let bytes_of_hex (s : string) : byte list =
  if s = "-" then [] else begin
    let n = String.length s / 2 in
    let rec go i acc = if i < 0 then acc else go (i - 1) (byte_of_int (int_of_string ("0x" ^ String.sub s (2 * i) 2)) :: acc) in
    go (n - 1) [] end
let hex_of_bytes (l : byte list) : string =
  if l = [] then "-" else begin
    let b = Buffer.create 64 in
    List.iter (fun x -> Buffer.add_string b (Printf.sprintf "%02x" (int_of_byte x))) l;
    Buffer.contents b end
let list_of_arg (s : string) : byte list list =
  if s = "." then [] else List.map bytes_of_hex (String.split_on_char ',' s)
let arg_of_list (l : byte list list) : string =
  if l = [] then "." else String.concat "," (List.map hex_of_bytes l)
(* lists of integers: "1,2,3", "." when empty *)
let ints_of_arg (s : string) : int list =
  if s = "." then [] else List.map int_of_string (String.split_on_char ',' s)
let arg_of_ints (l : int list) : string =
  if l = [] then "." else String.concat "," (List.map string_of_int l)

let handlers : (string, string list -> string) Hashtbl.t = Hashtbl.create 64
let register (name : string) (f : string list -> string) : unit = Hashtbl.replace handlers name f
