#!/usr/bin/env python3
"""eqtest.py <AREA> [n] — false-alarm test with behaviour-preserving rewrites produced by a sub-agent (/tmp/eq_<AREA>_out/patch<n>.diff).
For each patch: a scratch worktree of /repo HEAD gets the patch, the unedited 60-test suite must pass there, then EVERY quick check
is run with VERIF_REPO pointing at the worktree (all 20 in parallel; /repo itself is never touched).  A check that prints a VIOLATION
line or exits non-zero on such a tree is a candidate false alarm and is listed; the patch and the results are kept as
/verif/harmless/<AREA><n>/{patch.diff, meta.json}.  The worktree is removed afterwards."""
import json, os, re, shutil, subprocess, sys, concurrent.futures
V = os.path.dirname(os.path.dirname(os.path.abspath(__file__)))
area = sys.argv[1]
only = int(sys.argv[2]) if len(sys.argv) > 2 else None
src = '/tmp/eq_%s_out' % area
PROPS = ['C%02d' % i for i in range(1, 21)]
SUITE = ['/venv/bin/python', '-m', 'pytest', '-ra', '-q', '-p', 'no:cacheprovider', '--timeout=900', '--continue-on-collection-errors']


def sh(cmd, cwd=None, timeout=2400, env=None):
    try:
        r = subprocess.run(cmd, cwd=cwd, capture_output=True, text=True, timeout=timeout, env=env)
        return r.returncode, r.stdout + r.stderr
    except subprocess.TimeoutExpired as e:
        return 'TIMEOUT', (e.stdout or b'').decode(errors='replace') if isinstance(e.stdout, bytes) else (e.stdout or '')


def run_check(p, wt):
    env = dict(os.environ, VERIF_REPO=wt, VERIF_SEED='0')
    rc, out = sh([os.path.join(V, 'check'), p, '--tier', 'quick'], cwd=V, env=env)
    lines = out.strip().split('\n')
    return p, {'exit': rc, 'violations': [l for l in lines if l.startswith('VIOLATION')], 'summary': lines[-1][:300] if lines else ''}


for n in (1, 2, 3, 4, 5):
    if only and n != only:
        continue
    pf = os.path.join(src, 'patch%d.diff' % n)
    if not os.path.exists(pf):
        continue
    wt = '/tmp/eqwt_%s_%d' % (area, n)
    sh(['git', '-C', '/repo', 'worktree', 'remove', '--force', wt])
    sh(['git', '-C', '/repo', 'worktree', 'add', '--detach', wt, 'HEAD'])
    res = {}
    try:
        if os.path.exists('/tmp/fix_tee.diff'):     # a fix: commit not yet in /repo while the sub-agents still compare against it
            sh(['git', '-C', wt, 'apply', '/tmp/fix_tee.diff'])
        rc, out = sh(['git', '-C', wt, 'apply', pf])
        res['patch_applies'] = rc == 0
        if rc == 0:
            rcs, os_ = sh(SUITE, cwd=wt)
            m = re.search(r'(\d+) passed', os_)
            res['suite'] = {'passed': int(m.group(1)) if m else 0, 'failed': bool(re.search(r'\d+ failed', os_))}
            sh(['git', '-C', wt, 'clean', '-fdxq', 'tests'])
            with concurrent.futures.ThreadPoolExecutor(max_workers=10) as ex:
                res['checks'] = dict(ex.map(lambda p: run_check(p, wt), PROPS))
    finally:
        sh(['git', '-C', '/repo', 'worktree', 'remove', '--force', wt])
        shutil.rmtree(wt, ignore_errors=True)
    alarms = sorted(p for p, r in res.get('checks', {}).items() if r['exit'] != 0 or r['violations'])
    res['alarms'] = alarms
    print(area, n, 'applies=%s suite=%s alarms=%s' % (res.get('patch_applies'), res.get('suite'), alarms))
    d = os.path.join(V, 'harmless', '%s%d' % (area, n))
    os.makedirs(d, exist_ok=True)
    shutil.copy(pf, os.path.join(d, 'patch.diff'))
    meta = {}
    mf = os.path.join(src, 'meta%d.json' % n)
    if os.path.exists(mf):
        try:
            meta = json.load(open(mf))
        except Exception:
            meta = {'meta_unreadable': True}
    meta['area'] = area
    meta['check_results'] = res
    meta['repo_head'] = subprocess.run(['git', '-C', '/repo', 'rev-parse', '--short', 'HEAD'], capture_output=True, text=True).stdout.strip()
    json.dump(meta, open(os.path.join(d, 'meta.json'), 'w'), indent=1)
