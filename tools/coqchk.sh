#!/bin/sh
# coqchk.sh — independent re-check (coqchk) of every property file's compiled closure; prints the axioms the
# checker finds in everything it loaded.  Output is committed as evidence/coqchk.txt.
cd "$(dirname "$0")/../coq" || exit 1
mods=$(ls Props/C*.v | sed 's#Props/\(.*\)\.v#PFF.Props.\1#' | tr '\n' ' ')
{ echo "# coqchk -silent -o -Q . PFF $mods"; echo "# $(coqchk --version 2>&1 | head -1)"; date -u; 
  timeout 7200 coqchk -silent -o -Q . PFF $mods 2>&1 | tail -400; echo "exit: $?"; } > ../evidence/coqchk.txt
