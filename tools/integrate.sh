#!/bin/sh
# integrate.sh <ID> — copy a build worker's NEW files from /tmp/build_<ID>/verif into /verif (never overwriting),
# report files that exist on both sides and differ, list the worker's fix commits.
ID=$1; SRC=/tmp/build_$ID/verif
cd /verif
for d in coq harness claims findings design ocaml/handlers; do
  mkdir -p $d
  rsync -a --ignore-existing --exclude '*.vo' --exclude '*.vok' --exclude '*.vos' --exclude '*.glob' --exclude '.*.aux' --exclude 'Makefile*' --exclude '.Makefile.d' --exclude '_CoqProject' --exclude 'Extract.v' --exclude '.lia.cache' --exclude '.nia.cache' --exclude '__pycache__' --exclude '_dbg_tmp*' $SRC/$d/ $d/
done
cp -n $SRC/known_findings.add.*.json . 2>/dev/null
echo "== differing shared files:"
for f in $(cd $SRC && find coq harness ocaml/handlers ocaml/prelude.ml ocaml/main.ml check setup.sh tools claims findings -type f \( -name '*.v' -o -name '*.py' -o -name '*.ml' -o -name '*.json' -o -name check -o -name '*.sh' \) 2>/dev/null | grep -v "Extract.v\|_dbg_tmp\|/gen/"); do
  if [ -f /verif/$f ] && ! cmp -s $SRC/$f /verif/$f; then echo "DIFF $f"; fi
done
echo "== fix commits in worktree:"
git -C /tmp/build_$ID/repo log --oneline $(git -C /repo rev-parse HEAD 2>/dev/null)..HEAD 2>/dev/null || git -C /tmp/build_$ID/repo log --oneline -8
