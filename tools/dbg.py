#!/usr/bin/env python3
"""dbg.py FILE LINE [COL] — compile FILE truncated just before (LINE,COL) and Show the goal."""
import sys, subprocess, os, tempfile
f, line = sys.argv[1], int(sys.argv[2]); col = int(sys.argv[3]) if len(sys.argv) > 3 else 0
src = open(f).read().split('\n')
head = src[:line-1] + [src[line-1][:col]]
txt = '\n'.join(head)
# cut at last complete sentence ('. ' or '.\n' or ';' boundary is not a sentence; use last '.')
import re
idx = max(txt.rfind('. '), txt.rfind('.\n'))
txt = txt[:idx+1] + '\nShow. \n'
d = os.path.dirname(os.path.abspath(f))
tmp = os.path.join(d, '_dbg_tmp.v')
open(tmp, 'w').write(txt)
root = '/verif/coq'
r = subprocess.run(['coqc', '-Q', root, 'PFF', tmp], capture_output=True, text=True, timeout=300)
print(r.stdout[-6000:]); print(r.stderr[-3000:])
for ext in ('.v', '.vo', '.glob', '.vok', '.vos'):
    try: os.remove(tmp[:-2] + ext)
    except OSError: pass
try: os.remove(os.path.join(d, '._dbg_tmp.aux'))
except OSError: pass
