#!/usr/bin/env python3
"""seedtest.py <seeded-dir> [prop ...] [--tier quick|thorough] [--worktree] — apply seeded/<id>/patch.diff to /repo (or, with
--worktree, to a scratch git worktree of /repo HEAD handed to the checks through VERIF_REPO, so several can run side by side and
/repo is never touched), run the given checks (default: the property named in meta.json), undo the patch, and record what was
reported in meta.json."""
import json, os, subprocess, sys
V = os.path.dirname(os.path.dirname(os.path.abspath(__file__)))
args = [a for a in sys.argv[1:] if not a.startswith('--')]
use_wt = '--worktree' in sys.argv
tier = 'quick'
if '--tier' in sys.argv:
    tier = sys.argv[sys.argv.index('--tier') + 1]; args.remove(tier)
d = os.path.abspath(args[0])
meta = json.load(open(os.path.join(d, 'meta.json')))
props = args[1:] or [meta['property']]
target = '/repo'
env = dict(os.environ)
if use_wt:
    target = '/tmp/seedwt_' + os.path.basename(d)
    subprocess.run(['git', '-C', '/repo', 'worktree', 'remove', '--force', target], capture_output=True)
    subprocess.check_call(['git', '-C', '/repo', 'worktree', 'add', '--detach', target, 'HEAD'], stdout=subprocess.DEVNULL, stderr=subprocess.DEVNULL)
    env['VERIF_REPO'] = target
else:
    assert subprocess.run(['git', '-C', '/repo', 'status', '--porcelain'], capture_output=True, text=True).stdout.strip() == '', '/repo not clean'
subprocess.check_call(['git', '-C', target, 'apply', os.path.join(d, 'patch.diff')])
res = {}
try:
    for p in props:
        try:
            r = subprocess.run([os.path.join(V, 'check'), p, '--tier', tier], cwd=V, capture_output=True, text=True, timeout=1500, env=env)
        except subprocess.TimeoutExpired as e:
            import types
            subprocess.run('pkill -f "^/venv/bin/python /verif/check %s" ; pkill -x pffmodel' % p, shell=True)
            r = types.SimpleNamespace(returncode=124, stdout='CHECK TIMED OUT after 1500 s (the change makes the implementation or the check hang)\n')
        lines = [l for l in r.stdout.split('\n') if l.startswith('VIOLATION')]
        res[p] = {'exit': r.returncode, 'violations': lines[:3], 'summary': r.stdout.strip().split('\n')[-1][:300]}
        # keep the first replay as a sample of what was reported
        print(p, r.returncode, lines[:2], r.stdout.strip().split('\n')[-1][:200])
finally:
    if use_wt:
        subprocess.run(['git', '-C', '/repo', 'worktree', 'remove', '--force', target], capture_output=True)
    else:
        subprocess.check_call(['git', '-C', '/repo', 'checkout', '--', '.'])
meta.setdefault('check_results', {})[tier] = res
meta['detected'] = any(v['exit'] != 0 for t in meta['check_results'].values() for v in t.values())
json.dump(meta, open(os.path.join(d, 'meta.json'), 'w'), indent=1)
