#!/usr/bin/env python3
"""mkdesign.py — assembles DESIGN.md from design/_head.md, design/_sec4_intro.md, per-property notes
(design/Cxx.md = as built; design/plan/Cxx.md = the round-0 plan, used while a property is not built), design/_tail.md."""
import os
V = os.path.dirname(os.path.dirname(os.path.abspath(__file__)))
D = os.path.join(V, 'design')
out = [open(os.path.join(D, '_head.md')).read(), open(os.path.join(D, '_sec4_intro.md')).read()]
for i in range(1, 21):
    pid = 'C%02d' % i
    built = os.path.join(D, pid + '.md')
    plan = os.path.join(D, 'plan', pid + '.md')
    if os.path.exists(built):
        t = open(built).read().strip('\n')
        if not t.startswith('### '):
            t = '### %s (as built)\n' % pid + t
        out.append(t + '\n\n')
    else:
        out.append(open(plan).read().strip('\n').replace('### %s ' % pid, '### %s (plan, not yet built) ' % pid, 1) + '\n\n')
out.append('---------------------------------------------------------------------------------------\n\n')
tail = open(os.path.join(D, '_tail.md')).read()
import json, glob
rows = ['| seeded change | what it does (needs) | reported by (quick tier) |', '|---|---|---|']
for d in sorted(glob.glob(os.path.join(V, 'seeded', '*', 'meta.json'))):
    m = json.load(open(d))
    name = os.path.basename(os.path.dirname(d))
    res = m.get('check_results', {})
    rep = []
    for tier, pr in res.items():
        for p_, v in pr.items():
            if v.get('exit'):
                kind = 'no-failing-input-found' if any('no-failing-input-found' in x for x in v.get('violations', [])) and not any('no-failing' not in x for x in v.get('violations', [])) else 'replay'
                rep.append('%s (%s)' % (p_, kind))
    summ = (m.get('summary', '')[:150] + ' — needs: ' + m.get('needs', '')[:110]).replace('|', '/').replace('\n', ' ')
    rows.append('| %s | %s | %s |' % (name, summ, ', '.join(sorted(set(rep))) or 'NOT reported'))
tail = tail.replace('@@SEEDED_TABLE@@', '\n'.join(rows))
out.append(tail)
open(os.path.join(V, 'DESIGN.md'), 'w').write(''.join(out))
