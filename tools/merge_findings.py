#!/usr/bin/env python3
"""merge_findings.py [old=new ...] — merge known_findings.add.*.json into known_findings.json (dedupe by id),
rewriting worker commit hashes to the hashes they got in /repo after cherry-pick."""
import json, glob, os, sys
V = os.path.dirname(os.path.dirname(os.path.abspath(__file__)))
mp = dict(a.split('=') for a in sys.argv[1:])
kf = json.load(open(os.path.join(V, 'known_findings.json')))
ids = {f['id'] for f in kf}
for p in sorted(glob.glob(os.path.join(V, 'known_findings.add.*.json'))):
    for f in json.load(open(p)):
        s = json.dumps(f)
        for o, n in mp.items():
            s = s.replace(o, n)
        f = json.loads(s)
        if f['id'] not in ids:
            kf.append(f); ids.add(f['id'])
    os.remove(p)
json.dump(kf, open(os.path.join(V, 'known_findings.json'), 'w'), indent=1)
print(len(kf), 'findings')
