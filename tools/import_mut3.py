#!/usr/bin/env python3
"""import_mut3.py <AREA> — round 3 (cross-cutting areas): source /tmp/mut3_<AREA>_out, the target property is meta["property"], kept as
seeded/<PROP>-<next free n>.  Otherwise as import_mut.py <PROP> — take a mutation worker's deliverables from /tmp/mut_<PROP>_out, confirm each in a scratch worktree
of /repo HEAD (patch applies; unedited test suite: 60 passed; demo FAILs with the change and PASSes without), and keep the
confirmed ones as /verif/seeded/<PROP>-<n>/{patch.diff, demo.py, meta.json}.  The worktree is removed afterwards."""
import json, os, re, shutil, subprocess, sys
V = os.path.dirname(os.path.dirname(os.path.abspath(__file__)))
area = sys.argv[1]
rnd = int(os.environ.get('MUT_ROUND', '3'))          # 3: cross-cutting areas, 4: lenses
src = '/tmp/mut%d_%s_out' % (rnd, area)
SUITE = ['/venv/bin/python', '-m', 'pytest', '-ra', '-q', '-p', 'no:cacheprovider', '--timeout=900', '--continue-on-collection-errors']


def sh(cmd, cwd=None, timeout=1800):
    r = subprocess.run(cmd, cwd=cwd, capture_output=True, text=True, timeout=timeout)
    return r.returncode, r.stdout + r.stderr


only = int(sys.argv[2]) if len(sys.argv) > 2 else None
for n in (1, 2, 3, 4):
    if only and n != only:
        continue
    pf = os.path.join(src, 'patch%d.diff' % n)
    if not os.path.exists(pf):
        continue
    prop = json.load(open(os.path.join(src, 'meta%d.json' % n)))['property'].strip().split()[0].rstrip(',')
    wt = '/tmp/confirm_%s_%s_%d_%d' % (area, prop, rnd, n)
    sh(['git', '-C', '/repo', 'worktree', 'remove', '--force', wt])
    rc, out = sh(['git', '-C', '/repo', 'worktree', 'add', '--detach', wt, 'HEAD'])
    conf = {}
    try:
        demo = os.path.join(src, 'demo%d.py' % n)
        rc0, o0 = sh(['/venv/bin/python', demo, wt], cwd='/tmp')
        conf['demo_without_change'] = {'exit': rc0, 'tail': o0.strip().split('\n')[-1][:200]}
        rc, out = sh(['git', '-C', wt, 'apply', pf])
        conf['patch_applies'] = rc == 0
        if rc == 0:
            rc1, o1 = sh(['/venv/bin/python', demo, wt], cwd='/tmp')
            conf['demo_with_change'] = {'exit': rc1, 'tail': o1.strip().split('\n')[-1][:300]}
            rcs, os_ = sh(SUITE, cwd=wt)
            m = re.search(r'(\d+) passed', os_)
            conf['suite_with_change'] = {'passed': int(m.group(1)) if m else 0, 'failed': bool(re.search(r'\d+ failed', os_)), 'tail': os_.strip().split('\n')[-1][:200]}
        ok = conf.get('patch_applies') and conf['demo_without_change']['exit'] == 0 and conf['demo_with_change']['exit'] != 0 \
            and conf['suite_with_change']['passed'] == 60 and not conf['suite_with_change']['failed']
        conf['confirmed'] = bool(ok)
    finally:
        sh(['git', '-C', '/repo', 'worktree', 'remove', '--force', wt])
        shutil.rmtree(wt, ignore_errors=True)
    print(area, prop, n, json.dumps(conf)[:600])
    if conf.get('confirmed'):
        k = 5
        while os.path.exists(os.path.join(V, 'seeded', '%s-%d' % (prop, k))):
            k += 1
        d = os.path.join(V, 'seeded', '%s-%d' % (prop, k))
        os.makedirs(d, exist_ok=True)
        shutil.copy(pf, os.path.join(d, 'patch.diff'))
        shutil.copy(demo, os.path.join(d, 'demo.py'))
        meta = json.load(open(os.path.join(src, 'meta%d.json' % n)))
        meta['confirmation'] = conf
        meta['round'] = rnd
        meta['area'] = area
        meta['repo_head_at_confirmation'] = subprocess.run(['git', '-C', '/repo', 'rev-parse', '--short', 'HEAD'], capture_output=True, text=True).stdout.strip()
        json.dump(meta, open(os.path.join(d, 'meta.json'), 'w'), indent=1)
