#!/usr/bin/env python3
"""Regenerates MANIFEST.json from claims/Cxx.json (the single place where claims are edited)."""
import json, os
V = os.path.dirname(os.path.dirname(os.path.abspath(__file__)))
ALL = ['C%02d' % i for i in range(1, 21)]
CLAIMS = {}
for _f in sorted(os.listdir(os.path.join(V, 'claims'))):
    if _f.endswith('.json'):
        CLAIMS[_f[:-5]] = json.load(open(os.path.join(V, 'claims', _f)))
NOT_YET = 'not yet built in this round (planned per DESIGN.md section 7); no claim is made'

def main():
    checks, na = [], []
    for pid in ALL:
        c = CLAIMS.get(pid)
        if not c:
            na.append({'property_id': pid, 'reason': NOT_YET}); continue
        checks.append({
            'property_id': pid,
            'quick_cmd': './check %s --tier quick' % pid,
            'thorough_cmd': './check %s --tier thorough' % pid,
            'evidence_file': 'evidence/%s.json' % pid,
            'replay_cmd_template': './check %s --replay {path}' % pid,
            'engine': 'coq-proof+correspondence',
            'level_claimed': {'category': 'proof', 'text': c['text'], 'design_ref': c['design']},
            'level_note': c['note'],
            'technique': c['technique'],
        })
    m = {
        'version': 1,
        'setup_cmd': './setup.sh',
        'hooks': {
            'guard': 'LRQ3000_PYFILEFIXITY_VERIF',
            'enable': 'no source hooks: checks import pyFileFixity from /repo\'s working tree and observe it by wrapping module attributes from the harness process; the guard variable is set by ./check but read by nothing in /repo',
            'baseline_off_cmd': 'cd /repo && /venv/bin/python -m pytest -ra -q -p no:cacheprovider --timeout=900 --continue-on-collection-errors',
            'source_commits': [],
            'add_only': True,
        },
        'engines': [{'name': 'coq-proof+correspondence', 'path': 'check',
                     'serves_properties': [c['property_id'] for c in checks],
                     'kind_free_text': 'Coq 8.16 theorems about hand-written Gallina models (coq/), extracted to OCaml (ocaml/) and compared with /repo on generated inputs by harness/props/<id>.py'}],
        'checks': checks,
        'not_applicable': na,
        'notes': 'Repairs of genuine defects are unguarded "fix:" commits in /repo, listed in known_findings.json.',
    }
    json.dump(m, open(os.path.join(V, 'MANIFEST.json'), 'w'), indent=1)

if __name__ == '__main__':
    main()
