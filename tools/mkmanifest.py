#!/usr/bin/env python3
"""Regenerates MANIFEST.json from the table below (the single place where claims are edited)."""
import json, os
V = os.path.dirname(os.path.dirname(os.path.abspath(__file__)))
ALL = ['C%02d' % i for i in range(1, 21)]
CLAIMS = {
 'C06': dict(
   text='Proof (Coq): the chunked read loop of majority_vote_byte_scan refines the unchunked column vote for every chunk size '
        '>= 1 and every list of >= 3 copies; the column vote returns a value of maximal count, the earliest such in copy order; '
        'output length = longest copy; status non-zero iff some offset reached by >= 2 copies has all values distinct; strict '
        'majority at every offset gives back the original; < 3 copies gives the first copy and status 1. All seven theorems '
        'are closed under the global context. The model is tied to /repo by running the extracted model and the real function '
        'on the same inputs (exhaustive small space + random) and by evaluating the plurality predicate on the implementation.',
   design='DESIGN.md section 4, C06',
   note='trusted: Coq kernel+VM, extraction (ExtrOcamlBasic), OCaml driver, the harness; file objects modelled as byte lists; '
        'for < 3 copies the function is exercised through real files (with in-memory handles it raises NameError: not the CLI path)',
   technique='Coq proof (induction over read rounds, refinement to column-vote spec) + differential correspondence via extraction'),
 'C20': dict(
   text='Proof (Coq): for every chunk size >= 1 and start offsets, the chunked loop of diff_bytes_files returns (#differing '
        'positions over the common length + |length difference|, longer length); the difference is 0 iff the files are equal; '
        'diff_count_files is list equality; the tree metrics are the sums over the reference tree (missing file = wholly '
        'different, extra files ignored); the exit rule is 0 iff every reference file has an identical counterpart (a missing '
        'EMPTY file adds 0 bytes - stated in the theorem). Seven theorems, closed under the global context. Tied to /repo by '
        'running the extracted model and the real functions on real files (exhaustive small space + random + trees + '
        'restest main() on stub configs).',
   design='DESIGN.md section 4, C20',
   note='trusted: Coq kernel+VM, extraction, OCaml driver, harness; the float step diff/total*100 == 0 <=> diff == 0 (total > 0) '
        'is not proved in Coq; config parsing / command execution of restest are not modelled',
   technique='Coq proof (induction over read rounds, refinement to Hamming+length spec) + differential correspondence via extraction'),
}
NOT_YET = 'not yet built in this round (planned per DESIGN.md section 7); no claim is made'

def main():
    checks, na = [], []
    for pid in ALL:
        c = CLAIMS.get(pid)
        if not c:
            na.append({'property_id': pid, 'reason': NOT_YET}); continue
        checks.append({
            'property_id': pid,
            'quick_cmd': './check %s --tier quick' % pid,
            'thorough_cmd': './check %s --tier thorough' % pid,
            'evidence_file': 'evidence/%s.json' % pid,
            'replay_cmd_template': './check %s --replay {path}' % pid,
            'engine': 'coq-proof+correspondence',
            'level_claimed': {'category': 'proof', 'text': c['text'], 'design_ref': c['design']},
            'level_note': c['note'],
            'technique': c['technique'],
        })
    m = {
        'version': 1,
        'setup_cmd': './setup.sh',
        'hooks': {
            'guard': 'LRQ3000_PYFILEFIXITY_VERIF',
            'enable': 'no source hooks: checks import pyFileFixity from /repo\'s working tree and observe it by wrapping module attributes from the harness process; the guard variable is set by ./check but read by nothing in /repo',
            'baseline_off_cmd': 'cd /repo && /venv/bin/python -m pytest -ra -q -p no:cacheprovider --timeout=900 --continue-on-collection-errors',
            'source_commits': [],
            'add_only': True,
        },
        'engines': [{'name': 'coq-proof+correspondence', 'path': 'check',
                     'serves_properties': [c['property_id'] for c in checks],
                     'kind_free_text': 'Coq 8.16 theorems about hand-written Gallina models (coq/), extracted to OCaml (ocaml/) and compared with /repo on generated inputs by harness/props/<id>.py'}],
        'checks': checks,
        'not_applicable': na,
        'notes': 'Repairs of genuine defects are unguarded "fix:" commits in /repo, listed in known_findings.json.',
    }
    json.dump(m, open(os.path.join(V, 'MANIFEST.json'), 'w'), indent=1)

if __name__ == '__main__':
    main()
