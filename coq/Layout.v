(* Layout.v — executable model of the block layout of both ECC tools.
   - compute_ecc_params (lib/eccman.py): message size = int(round(float(mb)/(1+2*rate), 0)),
     in IEEE binary64 via PrimFloat (the only float code of the development; no theorem
     reasons about it: the layout theorems quantify over an arbitrary size function mu).
   - feature_scaling, stream_compute_ecc_hash (generation) and stream_entry_assemble
     (correction) of structural_adaptive_ecc.py;
   - compute_ecc_hash (generation) and entry_assemble (correction) of header_ecc.py.
   Model only. *)
From Coq Require Import List Arith Bool ZArith PrimFloat Uint63.
Import ListNotations.

(* ------------------------------------------------------------------ *)
(* the float rule                                                      *)
(* ------------------------------------------------------------------ *)
Definition f_of_Z (z : Z) : float := PrimFloat.of_uint63 (Uint63.of_Z z).
Definition two52 : float := 0x1p52%float.
(* round-half-even to an integer, exact for 0 <= x < 2^51 (Python round(x, 0)) *)
Definition round_half_even (x : float) : float := ((x + two52) - two52)%float.
(* integer value of a small non-negative integral float *)
Fixpoint float_to_nat_upto (fuel : nat) (i : Z) (y : float) : Z :=
  match fuel with
  | O => (-1)%Z
  | S f => if PrimFloat.eqb (f_of_Z i) y then i else float_to_nat_upto f (i + 1)%Z y
  end.
Definition msize (mb : Z) (rate : float) : Z :=
  float_to_nat_upto 300 0%Z (round_half_even (f_of_Z mb / (1 + 2 * rate))%float).
(* a + float(x - xmin) * (b - a) / (xmax - xmin) *)
Definition scale (x xmin xmax : Z) (a b : float) : float :=
  (a + f_of_Z (x - xmin) * (b - a) / f_of_Z (xmax - xmin))%float.
(* the whole-file tool: constant rate below the header size, interpolated after it *)
Definition mu_whole (mb hdr size : Z) (r1 r2 r3 : float) (cur : Z) : Z :=
  if (cur <? hdr)%Z then msize mb r1 else msize mb (scale cur hdr size r2 r3).

(* ------------------------------------------------------------------ *)
(* partitions, for an arbitrary size function                          *)
(* ------------------------------------------------------------------ *)
Section Layout.
  Variable mu : nat -> nat.        (* message size of the block that starts at an offset *)
  Variables mb hlen : nat.

  (* a block: (offset, message length, parity length) *)
  Definition blk := (nat * nat * nat)%type.

  (* stream_compute_ecc_hash: while curpos < size: read mu(curpos) bytes ... *)
  Fixpoint gen_blocks (fuel size cur : nat) : list blk :=
    match fuel with
    | 0 => []
    | S f =>
        if cur <? size then
          let ms := mu cur in
          let l := Nat.min ms (size - cur) in
          (cur, l, mb - ms) :: gen_blocks f size (cur + l)
        else []
    end.
  Definition gen (size : nat) : list blk := gen_blocks size size 0.

  (* bytes of hash+parity written for a list of blocks *)
  Definition track_len (bl : list blk) : nat :=
    fold_right (fun b acc => hlen + snd b + acc) 0 bl.

  (* stream_entry_assemble: loop driven by the ecc cursor; fsize = actual size of the file read,
     [ecur, eend) = the entry's track, etotal = size of the whole ecc file (reads may run past eend) *)
  Fixpoint corr_blocks (fuel fsize eend etotal cur ecur : nat) : list blk :=
    match fuel with
    | 0 => []
    | S f =>
        if ecur <? eend then
          let ms := mu cur in
          let l := Nat.min ms (fsize - cur) in
          if l =? 0 then []
          else
            let got := Nat.min (hlen + (mb - ms)) (etotal - ecur) in
            (cur, l, got - hlen) :: corr_blocks f fsize eend etotal (cur + l) (ecur + got)
        else []
    end.
  Definition corr (fsize estart eend etotal : nat) : list blk :=
    corr_blocks (S fsize) fsize eend etotal 0 estart.
End Layout.

(* header tool: constant message size ms over the first min(size, hdr) bytes *)
Fixpoint range_from (fuel cur n step : nat) : list nat :=
  match fuel with
  | 0 => []
  | S f => if cur <? n then cur :: range_from f (cur + step) n step else []
  end.
(* range(0, n, step), step >= 1 *)
Definition range0 (n step : nat) : list nat := range_from n 0 n step.

Definition hdr_gen (ms mb size hdr : nat) : list blk :=
  let n := Nat.min size hdr in
  map (fun i => (i, Nat.min ms (n - i), mb - ms)) (range0 n ms).

(* entry_assemble: fileheader = read(recorded size) if 0 < recorded < hdr else read(hdr);
   zip(range(0, len(fileheader), ms), range(0, len(ecc_field), hlen + es)) *)
Definition hdr_corr (ms mb hlen recorded actual hdr tracklen : nat) : list blk :=
  let want := if (0 <? recorded) && (recorded <? hdr) then recorded else hdr in
  let n := Nat.min want actual in
  let es := mb - ms in
  map (fun ij => (fst ij, Nat.min ms (n - fst ij), Nat.min es (tracklen - snd ij - hlen)))
      (combine (range0 n ms) (range0 tracklen (hlen + es))).

(* ------------------------------------------------------------------ *)
(* entry points used by the generated case files (Z in, Z out)         *)
(* ------------------------------------------------------------------ *)
Definition flatZ (bl : list blk) : list Z :=
  flat_map (fun b => [Z.of_nat (fst (fst b)); Z.of_nat (snd (fst b)); Z.of_nat (snd b)]) bl.
Definition digest (l : list Z) : Z :=
  fold_left (fun h x => ((h * 1000003 + x + 1) mod 2305843009213693951)%Z) l (Z.of_nat (length l)).

Definition mu_whole_nat (mb hdr size : Z) (r1 r2 r3 : float) (o : nat) : nat :=
  Z.to_nat (mu_whole mb hdr size r1 r2 r3 (Z.of_nat o)).

(* whole tool: generation partition, correction partition on the pristine file and exact track *)
Definition whole_case (mb hdr size hlen : Z) (r1 r2 r3 : float) : list Z * list Z :=
  let mu := mu_whole_nat mb hdr size r1 r2 r3 in
  let g := gen mu (Z.to_nat mb) (Z.to_nat size) in
  let t := track_len (Z.to_nat hlen) g in
  let c := corr mu (Z.to_nat mb) (Z.to_nat hlen) (Z.to_nat size) 7 (7 + t) (7 + t + 5) in
  (flatZ g, flatZ c).

Definition header_case (mb hdr size hlen : Z) (r : float) : list Z * list Z :=
  let ms := Z.to_nat (msize mb r) in
  let g := hdr_gen ms (Z.to_nat mb) (Z.to_nat size) (Z.to_nat hdr) in
  let t := track_len (Z.to_nat hlen) g in
  let c := hdr_corr ms (Z.to_nat mb) (Z.to_nat hlen) (Z.to_nat size) (Z.to_nat size) (Z.to_nat hdr) t in
  (flatZ g, flatZ c).
