(* C18 — with a hash database, replica repair reports OK only for hash-correct output.
   Property theorems only; proofs are in Proofs/DbRepairP.v, the model in DbRepair.v.

   md5, sha1 : list byte -> list byte are arbitrary functions (the hash oracles); a path is a list of
   components, so every statement below holds for files at any depth of the tree.

     recorded db p r        :=  In r db /\ r_path r = p /\ p <> []            (r is an entry of the database for p)
     matches md5 sha1 c r   :=  md5 c = r_md5 r /\ sha1 c = r_sha1 r           (c has the hashes stored in r)
     hash_correct md5 sha1 db p c
                            :=  (exists r, recorded db p r) /\ forall r, recorded db p r -> matches md5 sha1 c r

   merge_step md5 sha1 odb report bs nrep p holders is what synchronize_files does for the relative path p
   held by `holders` (replica index, content) : content written (`out`), contribution to the exit status
   (`errcode`), replica used as the already-correct copy (`taken`), report row (`row` = dirN cells,
   hash-correct cell, error_code cell, errors column filled?). *)
From Coq Require Import List Arith Bool NArith.
From Coq Require Import Strings.Byte.
From PFF Require Import Bytes Vote DbRepair Proofs.VoteP Proofs.DbRepairP.
Import ListNotations.

(* The hash-correct column says exactly what the written file is w.r.t. the entries recorded for THAT path:
   'OK' iff there is an entry and the output has the hashes of every entry; 'KO' iff some entry is not
   matched; '-' iff the database has no entry for the path.  In particular 'OK' (with or without an error
   contribution) only if the output matches the recorded hashes. *)
Theorem C18_ok_sound : forall md5 sha1 db report bs nrep p holders dirs hc ec msg,
  row (merge_step md5 sha1 (Some db) report bs nrep p holders) = Some (dirs, hc, ec, msg) ->
  let o := out (merge_step md5 sha1 (Some db) report bs nrep p holders) in
  (hc = COK <-> hash_correct md5 sha1 db p o) /\
  (hc = CKO <-> exists r, recorded db p r /\ ~ matches md5 sha1 o r) /\
  (hc = CDash <-> ~ exists r, recorded db p r).
Proof. exact ok_sound. Qed.
Print Assumptions C18_ok_sound.

(* The error column is 'OK' exactly when the path does not contribute to the exit status. *)
Theorem C18_error_column : forall md5 sha1 db report bs nrep p holders dirs hc ec msg,
  row (merge_step md5 sha1 (Some db) report bs nrep p holders) = Some (dirs, hc, ec, msg) ->
  let e := errcode (merge_step md5 sha1 (Some db) report bs nrep p holders) in
  (ec = COK <-> e = 0) /\ (ec = CKO <-> e <> 0) /\ (msg = false <-> e = 0).
Proof. exact error_column. Qed.
Print Assumptions C18_error_column.

(* No contribution to the exit status (report or not) => every entry recorded for the path is matched. *)
Theorem C18_no_error_sound : forall md5 sha1 db report bs nrep p holders,
  errcode (merge_step md5 sha1 (Some db) report bs nrep p holders) = 0 ->
  forall r, recorded db p r -> matches md5 sha1 (out (merge_step md5 sha1 (Some db) report bs nrep p holders)) r.
Proof. exact no_error_sound. Qed.
Print Assumptions C18_no_error_sound.

(* Exit status 0 for the run => for every processed path, every entry recorded for it is matched by the output. *)
Theorem C18_exit_zero : forall md5 sha1 db report bs nrep (items : list (path * list (nat * list byte))),
  run_status (map (fun it => errcode (merge_step md5 sha1 (Some db) report bs nrep (fst it) (snd it))) items) = 0 ->
  forall it, In it items -> forall r, recorded db (fst it) r ->
    matches md5 sha1 (out (merge_step md5 sha1 (Some db) report bs nrep (fst it) (snd it))) r.
Proof. exact exit_zero. Qed.
Print Assumptions C18_exit_zero.

Theorem C18_exit_status : forall codes, run_status codes = 0 <-> forall c, In c codes -> c = 0.
Proof. exact run_status_zero. Qed.
Print Assumptions C18_exit_status.

(* A replica is taken as the already-correct copy only if a database is given, the path has >= 2 holders,
   the replica holds the path, its content has the recorded hashes for that path, it is what is written,
   and no earlier holder has the recorded hashes. *)
Theorem C18_pre_vote : forall md5 sha1 odb report bs nrep p holders i,
  taken (merge_step md5 sha1 odb report bs nrep p holders) = Some i ->
  2 <= length holders /\
  exists c db, odb = Some db /\ In (i, c) holders /\ out (merge_step md5 sha1 odb report bs nrep p holders) = c /\
               hash_correct md5 sha1 db p c /\
               exists l1 l2, holders = l1 ++ (i, c) :: l2 /\ forall g, In g l1 -> ~ hash_correct md5 sha1 db p (snd g).
Proof. exact pre_vote. Qed.
Print Assumptions C18_pre_vote.

(* In the report, an 'O' under a replica of a path with >= 2 holders means that replica was taken. *)
Theorem C18_O_column : forall md5 sha1 odb bs nrep p holders dirs hc ec msg i,
  row (merge_step md5 sha1 odb true bs nrep p holders) = Some (dirs, hc, ec, msg) ->
  2 <= length holders -> nth_error dirs i = Some CO ->
  taken (merge_step md5 sha1 odb true bs nrep p holders) = Some i.
Proof. exact O_column. Qed.
Print Assumptions C18_O_column.

(* The first replica is damaged (its hashes are not those recorded for the path, which are orig's), and either
   another holder has orig's hashes or the vote over >= 3 holders gives orig: then what is written has the
   recorded hashes, is not the first replica's content, the hash-correct cell is 'OK', and the only possible
   error contribution is the ambiguity status of the vote. *)
Theorem C18_first_replica_not_trusted : forall md5 sha1 db report bs nrep p i0 c0 rest orig,
  0 < bs -> rest <> [] ->
  hash_correct md5 sha1 db p orig ->
  ~ (md5 c0 = md5 orig /\ sha1 c0 = sha1 orig) ->
  ((exists i c, In (i, c) rest /\ md5 c = md5 orig /\ sha1 c = sha1 orig) \/
   (2 <= length rest /\ vote_spec byte_eqb (c0 :: map snd rest) = orig)) ->
  let res := merge_step md5 sha1 (Some db) report bs nrep p ((i0, c0) :: rest) in
  hash_correct md5 sha1 db p (out res) /\ out res <> c0 /\
  errcode res = match taken res with Some _ => 0 | None => status_spec byte_eqb (c0 :: map snd rest) end /\
  (forall dirs hc ec msg, row res = Some (dirs, hc, ec, msg) -> hc = COK).
Proof. exact first_not_trusted. Qed.
Print Assumptions C18_first_replica_not_trusted.

(* Damage within the majority (at every offset more than half of the holders reaching it carry orig's byte):
   the output has the recorded hashes, no error contribution; under collision-freedom of (md5, sha1) at orig
   the output IS orig. *)
Theorem C18_majority_restores : forall md5 sha1 db report bs nrep p i0 c0 rest orig,
  0 < bs -> 2 <= length rest ->
  hash_correct md5 sha1 db p orig ->
  ~ (md5 c0 = md5 orig /\ sha1 c0 = sha1 orig) ->
  length orig = maxlen (c0 :: map snd rest) ->
  (forall i x, nth_error orig i = Some x ->
     length (@column byte i (c0 :: map snd rest)) < 2 * cnt byte_eqb x (column i (c0 :: map snd rest))) ->
  let res := merge_step md5 sha1 (Some db) report bs nrep p ((i0, c0) :: rest) in
  hash_correct md5 sha1 db p (out res) /\ out res <> c0 /\ errcode res = 0 /\
  ((forall c', md5 c' = md5 orig -> sha1 c' = sha1 orig -> c' = orig) -> out res = orig).
Proof. exact majority_restores. Qed.
Print Assumptions C18_majority_restores.

(* A path without entry in the database is processed exactly as if no database had been given
   (no replica is trusted, hash-correct cell '-', error code of the vote only). *)
Theorem C18_absent_path : forall md5 sha1 db report bs nrep p holders,
  (~ exists r, recorded db p r) ->
  merge_step md5 sha1 (Some db) report bs nrep p holders = merge_step md5 sha1 None report bs nrep p holders.
Proof. exact absent_as_without_database. Qed.
Print Assumptions C18_absent_path.

(* Output, error contribution and taken replica are the same with and without --report. *)
Theorem C18_report_irrelevant : forall md5 sha1 odb r1 r2 bs nrep p holders,
  let a := merge_step md5 sha1 odb r1 bs nrep p holders in
  let b := merge_step md5 sha1 odb r2 bs nrep p holders in
  out a = out b /\ errcode a = errcode b /\ taken a = taken b.
Proof. exact step_report_irrelevant. Qed.
Print Assumptions C18_report_irrelevant.

(* Why the delegation to rfigc's single-file check had to go: that check looks only at rows whose path is the
   bare file name, so for a nested file without such a row it reports no error whatever the content. *)
Theorem C18_legacy_check_blind : forall md5 sha1 db rel c,
  rel <> [] -> (forall r, In r db -> r_path r <> [last rel []]) ->
  rfigc_single md5 sha1 db rel c = false.
Proof. exact rfigc_single_blind. Qed.
Print Assumptions C18_legacy_check_blind.

(* ---------- non-vacuity: toy oracles md5 := identity, sha1 := reverse ---------- *)
Definition ex_md5 (c : list byte) := c.
Definition ex_sha1 (c : list byte) := rev c.
Definition ex_good : list byte := [x67; x6f; x6f; x64].          (* "good" *)
Definition ex_bad : list byte := [x58; x58; x58; x58].           (* "XXXX" *)
Definition ex_path : path := [[x61]; [x62]; [x6e; x2e; x74]].   (* a/b/n.t : depth 2 *)
Definition ex_db : list dbrow :=
  [ {| r_path := [[x6e; x2e; x74]]; r_md5 := ex_bad; r_sha1 := rev ex_bad; r_size := 4 |};   (* n.t at top level *)
    {| r_path := ex_path; r_md5 := ex_good; r_sha1 := rev ex_good; r_size := 4 |} ].

(* first replica destroyed, replicas 2 and 3 intact, depth-2 path: replica 2 is taken, output = good, OK|OK *)
Example C18_example_depth2 :
  merge_step ex_md5 ex_sha1 (Some ex_db) true 1000 3 ex_path [(0, ex_bad); (1, ex_good); (2, ex_good)]
  = {| out := ex_good; errcode := 0; taken := Some 1; row := Some ([CX; CO; CX], COK, COK, false) |}.
Proof. vm_compute. reflexivity. Qed.

(* all replicas damaged at different offsets: the vote restores, OK|OK *)
Example C18_example_vote :
  merge_step ex_md5 ex_sha1 (Some ex_db) true 2 3 ex_path
    [(0, [x58; x6f; x6f; x64]); (1, [x67; x58; x6f; x64]); (2, [x67; x6f; x58; x64])]
  = {| out := ex_good; errcode := 0; taken := None; row := Some ([CX; CX; CX], COK, COK, false) |}.
Proof. vm_compute. reflexivity. Qed.

(* majority damaged identically: the vote is wrong, and it is reported: KO|KO, exit contribution 1 *)
Example C18_example_beyond :
  merge_step ex_md5 ex_sha1 (Some ex_db) true 2 3 ex_path [(0, ex_bad); (1, ex_bad); (2, [x67; x6f; x6f; x65])]
  = {| out := ex_bad; errcode := 1; taken := None; row := Some ([CX; CX; CX], CKO, CKO, true) |}.
Proof. vm_compute. reflexivity. Qed.

(* path absent from the database: nothing is trusted, nothing is marked *)
Example C18_example_absent :
  merge_step ex_md5 ex_sha1 (Some ex_db) true 2 3 [[x61]; [x75]] [(0, ex_bad); (1, ex_good); (2, ex_good)]
  = {| out := ex_good; errcode := 0; taken := None; row := Some ([CX; CX; CX], CDash, COK, false) |}.
Proof. vm_compute. reflexivity. Qed.

(* the hypotheses of C18_first_replica_not_trusted are satisfiable (this instance) *)
Example C18_example_hyps :
  hash_correct ex_md5 ex_sha1 ex_db ex_path ex_good /\ ~ (ex_md5 ex_bad = ex_md5 ex_good /\ ex_sha1 ex_bad = ex_sha1 ex_good).
Proof.
  split.
  - apply (proj1 (db_check_true ex_md5 ex_sha1 ex_db ex_path ex_good)). vm_compute. reflexivity.
  - intros [H _]. discriminate H.
Qed.

(* the legacy check on the same data: the destroyed nested file raised no error (the defect that was repaired),
   and a correct nested file was judged against the top-level row of the same name *)
Example C18_example_legacy :
  rfigc_single ex_md5 ex_sha1 [ {| r_path := ex_path; r_md5 := ex_good; r_sha1 := rev ex_good; r_size := 4 |} ] ex_path ex_bad = false
  /\ rfigc_single ex_md5 ex_sha1 ex_db ex_path ex_good = true.
Proof. vm_compute. split; reflexivity. Qed.
