(* C16 — database updates (pff hash -u -a / -r / -a -r) converge to a fresh generation.
   Property theorems only; the model is HashUpd.v, the proofs are in Proofs/HashUpdP.v.

   A state is (file tree, database rows); a history starts from a tree fs0 with one entry per
   path and its generated database gen_db fs0, and is any list over
   Add p c | Del p | UpdA t | UpdR t | UpdAR t  with  t = Folder | File q.
   The theorems of the Section hold for every choice of the oracles (hash, size, extension,
   walk order) and every decidable path equality. *)
From Coq Require Import List Bool NArith Permutation.
From Coq Require Import Strings.Byte.
From PFF Require Import Bytes HashUpd Proofs.HashUpdP.
Import ListNotations.

Section C16.
  Variables Path Content Digest Ext : Type.
  Variable path_eqb : Path -> Path -> bool.
  Variable path_leb : Path -> Path -> bool.
  Variable hash : Content -> Digest.
  Variable size : Content -> N.
  Variable ext : Path -> Ext.
  Hypothesis path_eqb_spec : forall x y, reflect (x = y) (path_eqb x y).

  Notation rpath := (rpath Path Digest Ext).
  Notation paths := (paths Path Digest Ext).
  Notation keys := (keys Path Content).
  Notation mkrow := (mkrow Path Content Digest Ext hash size ext).
  Notation fs_get := (fs_get Path Content path_eqb).
  Notation walk_tgt := (walk_tgt Path Content path_leb).
  Notation upd_remove := (upd_remove Path Content Digest Ext path_eqb).
  Notation upd_append := (upd_append Path Content Digest Ext path_eqb path_leb hash size ext).
  Notation gen_db := (gen_db Path Content Digest Ext path_eqb path_leb hash size ext).
  Notation run := (run Path Content Digest Ext path_eqb path_leb hash size ext).
  Notation clean_for := (clean_for Path Content Digest Ext path_eqb path_leb hash size ext).

  (* Every reachable state has one tree entry per path and at most one row per path. *)
  Theorem C16_invariant : forall fs0 ops, NoDup (keys fs0) ->
    let st := run (fs0, gen_db fs0) ops in NoDup (keys (fst st)) /\ NoDup (paths (snd st)).
  Proof. eapply reach_inv; eauto. Qed.

  (* Remove mode, any input: a row of an existing file is never dropped (so a dropped row
     belongs to a file that no longer exists), no row is invented or altered, and no
     duplicate path appears. *)
  Theorem C16_remove : forall t fs db,
    (forall r, In r db -> In (rpath r) (keys fs) -> In r (upd_remove t fs db)) /\
    (forall r, In r (upd_remove t fs db) -> In r db) /\
    (NoDup (paths db) -> NoDup (paths (upd_remove t fs db))).
  Proof.
    intros t fs db. split; [|split].
    - intros r. eapply remove_keeps_existing; eauto.
    - intros r. apply remove_sub.
    - apply remove_nodup.
  Qed.

  (* Remove mode, folder input: exactly the rows whose file exists are kept. *)
  Theorem C16_remove_folder : forall fs db r,
    In r (upd_remove Folder fs db) <-> In r db /\ In (rpath r) (keys fs).
  Proof. eapply remove_folder_in; eauto. Qed.

  (* Remove mode, single-file input (the file exists, else the run is rejected): no row is dropped. *)
  Theorem C16_remove_file : forall q fs db, In q (keys fs) -> upd_remove (File q) fs db = db.
  Proof. eapply remove_file_id; eauto. Qed.

  (* Append mode, any input: the existing rows stay untouched (as a prefix); the added rows are
     exactly one fresh row per walked file whose path has no row yet; no path is duplicated. *)
  Theorem C16_append : forall t fs db, NoDup (keys fs) ->
    exists new, upd_append t fs db = db ++ new /\ NoDup (paths new) /\
      (forall r, In r new <-> exists p c, In p (walk_tgt t fs) /\ ~ In p (paths db) /\
                                         fs_get p fs = Some c /\ r = mkrow p c) /\
      (NoDup (paths db) -> NoDup (paths (db ++ new))).
  Proof. eapply append_spec; eauto. Qed.

  (* After ANY history, a final folder update -a -r leaves exactly one row per file of the
     current tree and no other row, each row being the row of its path for some content. *)
  Theorem C16_converge : forall fs0 ops, NoDup (keys fs0) ->
    let st := run (fs0, gen_db fs0) (ops ++ [UpdAR Folder]) in
    NoDup (paths (snd st)) /\ (forall p, In p (paths (snd st)) <-> In p (keys (fst st))) /\
    (forall r, In r (snd st) -> exists c, r = mkrow (rpath r) c).
  Proof. eapply converge_paths; eauto. Qed.

  (* ... and the row of path p is the fresh one unless p was, at some point of the history,
     created with a content that a row still held for p did not describe. *)
  Theorem C16_row_fresh : forall fs0 ops r c, NoDup (keys fs0) ->
    let st := run (fs0, gen_db fs0) (ops ++ [UpdAR Folder]) in
    In r (snd st) -> clean_for (rpath r) (fs0, gen_db fs0) ops ->
    fs_get (rpath r) (fst st) = Some c -> r = mkrow (rpath r) c.
  Proof. eapply converge_row_fresh; eauto. Qed.

  (* The first sentence of the property under the complement of the known finding's classifier:
     the final rows are exactly (as a list up to order, hence without repetition) those of a
     generation from scratch on the current tree. *)
  Theorem C16_partial : forall fs0 ops, NoDup (keys fs0) ->
    (forall p, clean_for p (fs0, gen_db fs0) ops) ->
    let st := run (fs0, gen_db fs0) (ops ++ [UpdAR Folder]) in
    Permutation (snd st) (gen_db (fst st)).
  Proof. eapply converge_partial; eauto. Qed.
End C16.

Print Assumptions C16_invariant.
Print Assumptions C16_remove.
Print Assumptions C16_remove_folder.
Print Assumptions C16_remove_file.
Print Assumptions C16_append.
Print Assumptions C16_converge.
Print Assumptions C16_row_fresh.
Print Assumptions C16_partial.

(* The first sentence of the property at full strength (no side condition), for all oracles. *)
Definition C16_full : Prop :=
  forall (Path Content Digest Ext : Type) (path_eqb path_leb : Path -> Path -> bool)
         (hash : Content -> Digest) (size : Content -> N) (ext : Path -> Ext),
    (forall x y, reflect (x = y) (path_eqb x y)) ->
    forall (fs0 : FS Path Content) (ops : list (op Path Content)), NoDup (keys Path Content fs0) ->
      let gen := gen_db Path Content Digest Ext path_eqb path_leb hash size ext in
      let st := run Path Content Digest Ext path_eqb path_leb hash size ext (fs0, gen fs0) (ops ++ [UpdAR Folder]) in
      Permutation (snd st) (gen (fst st)).

(* It does not hold: generate with f = "A"; delete f; create f = "B"; update -a -r keeps the
   stale row of f (append never looks at existing rows, remove sees that the file exists). *)
Theorem C16_refuted : ~ C16_full.
Proof.
  intros H.
  specialize (H (list byte) (list byte) (list byte) (list byte) bytes_eqb walk_leb bhash bsize ext_of
                bytes_eqb_spec [([x66], [x41])] [Del [x66]; Add [x66] [x42]]).
  assert (N1 : NoDup (keys (list byte) (list byte) [([x66], [x41])])).
  { constructor; [simpl; tauto|constructor]. }
  specialize (H N1). vm_compute in H.
  apply Permutation_length_1 in H. discriminate H.
Qed.
Print Assumptions C16_refuted.

(* ---- non-vacuity, on the byte-string instance ---- *)
Definition fA : list byte := [x61; x2e; x74; x78; x74].          (* "a.txt" *)
Definition fB : list byte := [x73; x2f; x62].                    (* "s/b"   *)

(* the witness of C16_refuted, computed: the final database holds the row of the old content *)
Example C16_stale_row :
  snd (brun ([(fA, [x41])], bgen_db [(fA, [x41])]) [Del fA; Add fA [x42; x42]; UpdAR Folder])
  = [(fA, [x41], 1%N, [x2e; x74; x78; x74])]
  /\ bgen_db (fst (brun ([(fA, [x41])], bgen_db [(fA, [x41])]) [Del fA; Add fA [x42; x42]; UpdAR Folder]))
  = [(fA, [x42; x42], 2%N, [x2e; x74; x78; x74])].
Proof. vm_compute. split; reflexivity. Qed.

(* the hypothesis of C16_partial is satisfiable by a history that deletes a file, updates, and
   re-creates it with another content; the final database is then the fresh one *)
Example C16_partial_applies :
  let fs0 := [(fA, [x41]); (fB, [x43])] in
  let ops := [Del fA; UpdR (File fB); UpdR Folder; Add fA [x42; x42]; UpdA (File fA); Del fB] in
  (forall p, clean_for (list byte) (list byte) (list byte) (list byte) bytes_eqb walk_leb bhash bsize ext_of
                       p (fs0, bgen_db fs0) ops) /\
  snd (brun (fs0, bgen_db fs0) (ops ++ [UpdAR Folder])) = [(fA, [x42; x42], 2%N, [x2e; x74; x78; x74])].
Proof.
  split; [|vm_compute; reflexivity].
  intros p. simpl. repeat split; trivial.
  intros Hq r [<-|[]] Hp. subst p. vm_compute in Hp. discriminate Hp.
Qed.

(* single-file remove keeps the rows of the other files, folder remove drops the row of the
   deleted one, append through a single file adds just that file *)
Example C16_single_file :
  let fs0 := [(fA, [x41]); (fB, [x43])] in
  map (fun s => map (rpath (list byte) (list byte) (list byte)) (snd s))
      (btrace (fs0, bgen_db fs0)
              [Del fB; UpdR (File fA); UpdR Folder; Add fB []; Add [x7a] [x44]; UpdA (File [x7a]); UpdAR (File fB)])
  = map (fun l => l) [ [fA; fB]; [fA; fB]; [fA]; [fA]; [fA]; [fA; [x7a]]; [fA; [x7a]; fB] ].
Proof. vm_compute. reflexivity. Qed.
