(* C20 — resilience-tester metrics are exact, so "error 0" means identical trees.
   Property theorems only; proofs are in Proofs/DiffP.v.  Symbols are bytes. *)
From Coq Require Import List Arith Bool.
From Coq Require Import Strings.Byte.
From PFF Require Import Bytes Diff Proofs.DiffP.
Import ListNotations.

Notation differing a b :=
  (length (filter (fun p : byte * byte => negb (byte_eqb (fst p) (snd p))) (combine a b))).

(* The byte metric of the chunked loop = (#differing positions over the common length
   + |length difference|, longer length) on what follows the start offsets, for every chunk size. *)
Theorem C20_bytes : forall bs st1 st2 f1 f2, 0 < bs ->
  let a := skipn st1 f1 in let b := skipn st2 f2 in
  diff_bytes byte_eqb bs st1 st2 f1 f2
  = (differing a b + ((length a - length b) + (length b - length a)), Nat.max (length a) (length b)).
Proof.
  intros bs st1 st2 f1 f2 H. cbv zeta.
  rewrite (diff_bytes_spec byte_eqb bs st1 st2 f1 f2 H). unfold diff_spec, absdiff.
  rewrite (ham_count byte_eqb). reflexivity.
Qed.
Print Assumptions C20_bytes.

Theorem C20_chunk_independent : forall bs1 bs2 st1 st2 f1 f2, 0 < bs1 -> 0 < bs2 ->
  diff_bytes byte_eqb bs1 st1 st2 f1 f2 = diff_bytes byte_eqb bs2 st1 st2 f1 f2.
Proof.
  intros. rewrite !(diff_bytes_spec byte_eqb) by assumption. reflexivity.
Qed.
Print Assumptions C20_chunk_independent.

(* zero difference <=> identical *)
Theorem C20_zero_iff : forall bs f1 f2, 0 < bs ->
  fst (diff_bytes byte_eqb bs 0 0 f1 f2) = 0 <-> f1 = f2.
Proof.
  intros bs f1 f2 H. rewrite (diff_bytes_spec byte_eqb bs 0 0 f1 f2 H).
  exact (diff_zero_iff byte_eqb byte_eqb_spec f1 f2).
Qed.
Print Assumptions C20_zero_iff.

(* the identical-files predicate is list equality, for every chunk size *)
Theorem C20_same : forall bs f1 f2, 0 < bs -> diff_same byte_eqb bs 0 0 f1 f2 = true <-> f1 = f2.
Proof.
  intros bs f1 f2 H. rewrite (diff_same_spec byte_eqb bs 0 0 f1 f2 H).
  exact (list_eqb_iff byte_eqb byte_eqb_spec f1 f2).
Qed.
Print Assumptions C20_same.

(* tree metrics: sums over the reference tree; a missing file counts wholly; extra files of the
   other tree are never looked at (the fold ranges over the reference tree only) *)
Theorem C20_tree_bytes : forall (P : Type) bs (ref : list (P * list byte)) other, 0 < bs ->
  bytes_dir byte_eqb bs ref other
  = (list_sum (map (fun pc => fst (file_bytes byte_eqb other pc)) ref),
     list_sum (map (fun pc => snd (file_bytes byte_eqb other pc)) ref)).
Proof. exact (fun P => @bytes_dir_spec byte byte_eqb P). Qed.
Print Assumptions C20_tree_bytes.

Theorem C20_tree_count : forall (P : Type) bs (ref : list (P * list byte)) other, 0 < bs ->
  count_dir byte_eqb bs ref other = (length (filter (file_differs byte_eqb other) ref), length ref).
Proof. exact (fun P => @count_dir_spec byte byte_eqb P). Qed.
Print Assumptions C20_tree_count.

(* exit 0 (final error 0) <=> every reference file has a byte-identical counterpart
   (a missing file counts by its length, so only a missing EMPTY file adds nothing). *)
Theorem C20_exit : forall (P : Type) bs (ref : list (P * list byte)) other, 0 < bs ->
  exit_status byte_eqb bs ref other = 0 <->
  forall p c, In (p, c) ref -> match other p with Some c' => c' = c | None => c = [] end.
Proof. exact (fun P => @exit_zero_iff byte byte_eqb byte_eqb_spec P). Qed.
Print Assumptions C20_exit.

Example C20_example :
  diff_bytes byte_eqb 3 0 0 [x61;x62;x63;x64;x65] [x61;x78;x63;x64;x65;x66;x67;x68] = (4, 8).
Proof. vm_compute. reflexivity. Qed.
