(* C02 — the Reed-Solomon facade corrects every pattern within its capacity.
   Property theorems only.  What is PROVED: parity length, validity of the encoder's output, left-padding
   (shortening) equivalence, the erasure-index shift, per-call k, and that ANY decoder answer that passes the
   facade's own acceptance test (decodes_to: right lengths, passes the check, lies within the errors-and-erasures
   radius of the received word) is exactly the original message and parity whenever the original is within
   capacity (2*errors + erasures <= n-k; errors only: erasure set empty).  What is NOT proved (oracle, tested by the
   correspondence check): that the four third-party decoders always return such an answer within capacity
   (completeness).  algo ranges over all N (4 = codec 4, anything else = the field of codecs 1-3). *)
From Coq Require Import List Arith Bool NArith.
From Coq Require Import Strings.Byte.
From PFF Require Import Bytes GF256 RS Facade Proofs.FacadeP.
Import ListNotations.

Theorem C02_parity_length : forall algo n selfk k m,
  length (fac_encode (codec_of algo) n selfk k m) = n - eff_k selfk k.
Proof. intros algo n selfk k m. exact (fac_encode_length (codec_of algo) (codec_field algo) n selfk k m). Qed.
Print Assumptions C02_parity_length.

Theorem C02_encode_valid : forall algo n selfk k m,
  fac_check (codec_of algo) n selfk k m (fac_encode (codec_of algo) n selfk k m) = true.
Proof. intros algo n selfk k m. exact (fac_check_encode (codec_of algo) (codec_field algo) n selfk k m). Qed.
Print Assumptions C02_encode_valid.

(* erasures = None: errors only (2e <= n-k); Some ch: every position of message+ecc holding ch is an erasure *)
Theorem C02_decode_unique : forall algo n selfk k erasures m e m0 m' e',
  let k' := eff_k selfk k in
  n <= 255 -> k' <= n -> length m0 <= k' -> length m = length m0 -> length e <= n - k' ->
  within_capacity (codec_of algo) n selfk k erasures m e m0 = true ->
  decodes_to (codec_of algo) n selfk k erasures m e m' e' = true ->
  m' = m0 /\ e' = fac_encode (codec_of algo) n selfk k m0.
Proof. intros algo n selfk k er m e m0 m' e'. exact (fac_decode_unique (codec_of algo) (codec_field algo) n selfk k er m e m0 m' e'). Qed.
Print Assumptions C02_decode_unique.

(* messages shorter than k behave as if left-padded with zeros (same parity, same check) ... *)
Theorem C02_short_message : forall algo n selfk k m e,
  let k' := eff_k selfk k in
  fac_encode (codec_of algo) n selfk k (lpad k' m) = fac_encode (codec_of algo) n selfk k m /\
  fac_check (codec_of algo) n selfk k (lpad k' m) e = fac_check (codec_of algo) n selfk k m e.
Proof.
  intros algo n selfk k m e. split.
  - exact (fac_encode_pad (codec_of algo) n selfk k m).
  - exact (fac_check_pad (codec_of algo) n selfk k m e).
Qed.
Print Assumptions C02_short_message.

(* ... and the padding is never mistaken for erasures: the erasure positions handed to the decoder are exactly
   the positions of the padded word that hold the erasure symbol and lie outside the pad *)
Theorem C02_pad_never_erased : forall k' ch m e,
  fac_erasures k' ch m e = filter (fun x => k' - length m <=? x) (positions_from 0 ch (lpad k' m ++ e)) /\
  forall x, In x (fac_erasures k' ch m e) -> k' - length m <= x.
Proof.
  intros k' ch m e. split.
  - exact (fac_erasures_spec (codec_of 3) k' 0 ch m e).
  - intro x. exact (pad_never_erased (codec_of 3) k' 0 ch m e x).
Qed.
Print Assumptions C02_pad_never_erased.

(* a per-call k overrides the geometry chosen at construction and behaves like a codec built with that k *)
Theorem C02_per_call_k : forall algo n selfk k m e, k <> 0 ->
  fac_encode (codec_of algo) n selfk k m = fac_encode (codec_of algo) n k 0 m /\
  fac_check (codec_of algo) n selfk k m e = fac_check (codec_of algo) n k 0 m e.
Proof.
  intros algo n selfk k m e Hk. unfold fac_encode, fac_check. rewrite (eff_k_call selfk k Hk). split; reflexivity.
Qed.
Print Assumptions C02_per_call_k.

(* Non-vacuity: (20,11); 4 wrong symbols (message and parity) are within capacity and the original passes
   the acceptance test; 2 errors + 5 erasures (zero symbol) likewise; an all-zero short message. *)
Definition hello : list byte := [x68;x65;x6c;x6c;x6f;x20;x77;x6f;x72;x6c;x64].
Definition hello_p : list byte := [xce;xea;x90;x99;x8d;xc4;xaa;x60;x3e].
Example C02_example_errors :
  let m := [x68;x00;x6c;xff;x6f;x20;x77;x6f;x72;x6c;x64] in
  let e := [xce;xea;x91;x99;x8d;xc4;xaa;x60;x3f] in
  within_capacity (codec_of 3) 20 11 0 None m e hello = true /\
  decodes_to (codec_of 3) 20 11 0 None m e hello hello_p = true /\
  fac_encode (codec_of 3) 20 11 0 hello = hello_p.
Proof. vm_compute. auto. Qed.
Example C02_example_erasures :
  let m := [x00;x00;x00;x6c;x6f;x20;x77;x41;x72;x6c;x64] in
  let e := [xce;xea;x00;x00;x8d;xc4;xaa;x60;x3f] in
  within_capacity (codec_of 3) 20 11 0 (Some x00) m e hello = true /\
  within_capacity (codec_of 3) 20 11 0 None m e hello = false.
Proof. vm_compute. auto. Qed.
Example C02_example_short_zero :
  fac_encode (codec_of 1) 20 11 0 [x00;x00;x00] = repeat x00 9 /\
  fac_erasures 11 x00 [x00;x00;x00] (repeat x00 9) = [8;9;10;11;12;13;14;15;16;17;18;19].
Proof. vm_compute. auto. Qed.
