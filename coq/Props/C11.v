(* C11 — the parity check accepts exactly the valid codewords within detection range.
   Property theorems only; proofs are in Proofs/GF256P.v (field laws by whole-domain reflection),
   Proofs/RSP.v (BCH bound, encoder validity) and Proofs/FacadeP.v (padding).  algo ranges over all N:
   4 selects (GF(2^8)/0x187, generator 2, first root 120), every other value the field of codecs 1-3
   (0x11b, generator 3, first root 1).  n, selfk (constructor k), k (per-call k, 0 = use selfk) are arbitrary. *)
From Coq Require Import List Arith Bool NArith.
From Coq Require Import Strings.Byte.
From PFF Require Import Bytes GF256 RS Facade Proofs.FacadeP.
Import ListNotations.

(* the check accepts every message (any length, also shorter than k: left-padded) with the parity produced for it *)
Theorem C11_accepts : forall algo n selfk k m,
  fac_check (codec_of algo) n selfk k m (fac_encode (codec_of algo) n selfk k m) = true.
Proof. intros algo n selfk k m. exact (fac_check_encode (codec_of algo) (codec_field algo) n selfk k m). Qed.
Print Assumptions C11_accepts.

(* every word (m', e') - e' possibly truncated, then right-padded with zeros as the facade does - whose padded form
   differs from the padded valid codeword of m in d symbols with 1 <= d <= n-k is rejected, wherever those symbols
   lie (message or parity; the zero padding of a short message is common to both words and cannot differ);
   d = 0 (e.g. a truncated parity whose cut bytes were zero) is accepted. *)
Theorem C11_detects : forall algo n selfk k m m' e',
  let k' := eff_k selfk k in
  n <= 255 -> k' <= n -> length m <= k' -> length m' = length m -> length e' <= n - k' ->
  let d := RS.hdist byte byte_eqb (received n k' m' e') (received n k' m (fac_encode (codec_of algo) n selfk k m)) in
  (1 <= d <= n - k' -> fac_check (codec_of algo) n selfk k m' e' = false) /\
  (d = 0 -> fac_check (codec_of algo) n selfk k m' e' = true).
Proof. intros algo n selfk k m m' e'. exact (fac_detect (codec_of algo) (codec_field algo) n selfk k m m' e'). Qed.
Print Assumptions C11_detects.

(* the padding takes no part: checking a short message is checking its unpadded symbols *)
Theorem C11_padding_transparent : forall algo n selfk k m e,
  fac_check (codec_of algo) n selfk k m e
  = ccheck (codec_of algo) (n - eff_k selfk k) (m ++ rpad (n - eff_k selfk k) e).
Proof. intros algo n selfk k m e. exact (fac_check_unpadded (codec_of algo) (codec_field algo) n selfk k m e). Qed.
Print Assumptions C11_padding_transparent.

(* Non-vacuity: the (20,11) parity of b"hello world" (the bytes ECCMan(20,11,algo=1|2|3).encode returns),
   a detected 9-symbol corruption, a codec-4 codeword, and an accepted zero-truncated parity. *)
Definition hello : list byte := [x68;x65;x6c;x6c;x6f;x20;x77;x6f;x72;x6c;x64].
Example C11_example_parity :
  fac_encode (codec_of 3) 20 11 0 hello = [xce;xea;x90;x99;x8d;xc4;xaa;x60;x3e].
Proof. vm_compute. reflexivity. Qed.
Example C11_example_detect :
  fac_check (codec_of 3) 20 11 0 [x00;x01;x02;x03;x04;x05;x06;x07;x08;x6c;x64] [xce;xea;x90;x99;x8d;xc4;xaa;x60;x3e] = false
  /\ fac_check (codec_of 4) 20 11 0 hello (fac_encode (codec_of 4) 20 11 0 hello) = true
  /\ fac_check (codec_of 3) 20 11 0 [x00;x00] (firstn 3 (fac_encode (codec_of 3) 20 11 0 [x00;x00])) = true.
Proof. vm_compute. auto. Qed.
