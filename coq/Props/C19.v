(* C19 — the tampering tool damages only what it says, and never the length.
   Property theorems only; proofs are in Proofs/TamperP.v.  Every statement is FOR EVERY stream
   [rnd] of random draws (that is what "all random seeds" means); a run for which the stream is
   exhausted or malformed is the explicit value [Err _], and the statements speak about [Ok _].
   Vocabulary (Tamper.v): differing, only_zeroed, block, region_size, bsize, dir_chain. *)
From Coq Require Import List NArith ZArith QArith Bool Lia.
From Coq Require Import Strings.Byte.
From PFF Require Import Bytes Tamper Proofs.TamperP.
Import ListNotations.
Local Open Scope nat_scope.

(* the file never changes length *)
Theorem C19_length : forall md p bp burst h bs content rnd content' count scanned rnd',
  tamper_file md p bp burst h bs content rnd = Ok (content', count, scanned, rnd') ->
  length content' = length content.
Proof. exact tf_length. Qed.
Print Assumptions C19_length.

(* with --header z (z > 0): every byte at an offset >= z is untouched *)
Theorem C19_region : forall md p bp burst z bs content rnd content' count scanned rnd',
  (0 < z)%Z ->
  tamper_file md p bp burst (Some z) bs content rnd = Ok (content', count, scanned, rnd') ->
  skipn (Z.to_nat z) content' = skipn (Z.to_nat z) content /\
  forall i, Z.to_nat z <= i -> nth_error content' i = nth_error content i.
Proof.
  intros md p bp burst z bs content rnd content' count scanned rnd' Hz H.
  pose proof (tf_region _ _ _ _ _ _ _ _ _ _ _ _ Hz H) as S.
  split; [exact S | exact (skipn_eq_nth _ _ _ S)].
Qed.
Print Assumptions C19_region.

(* with a block probability: a block that was not selected is identical and counts nothing
   (the trace lists, per block read, whether it was selected, how many positions, its length;
   tamper_file's count and scanned are the sums over that trace) *)
Theorem C19_region_blocks : forall md p bp burst h bs content rnd content' trace rnd',
  tamper_trace md p bp burst h bs content rnd = Ok (content', trace, rnd') ->
  tamper_file md p bp burst h bs content rnd = Ok (content', sum_cnt trace, sum_len trace, rnd') /\
  forall k rc, nth_error trace k = Some rc -> b_sel rc = false ->
    block (bsize h bs) k content' = block (bsize h bs) k content /\ b_cnt rc = 0.
Proof.
  intros md p bp burst h bs content rnd content' trace rnd' T. split.
  - unfold tamper_file. rewrite T. reflexivity.
  - exact (tf_blocks _ _ _ _ _ _ _ _ _ _ _ T).
Qed.
Print Assumptions C19_region_blocks.

(* erasure mode: every offset keeps its byte or holds zero *)
Theorem C19_erasure : forall p bp burst h bs content rnd content' count scanned rnd',
  tamper_file Erase p bp burst h bs content rnd = Ok (content', count, scanned, rnd') ->
  forall i x y, nth_error content i = Some x -> nth_error content' i = Some y -> y <> x -> y = x00.
Proof.
  intros p bp burst h bs content rnd content' count scanned rnd' H i x y Hx Hy N.
  destruct (only_zeroed_nth _ _ (tf_erasure _ _ _ _ _ _ _ _ _ _ _ H) i x y Hx Hy) as [E|E]; [contradiction|exact E].
Qed.
Print Assumptions C19_erasure.

(* #differing <= reported count <= scanned <= size of the region *)
Theorem C19_count : forall md p bp burst h bs content rnd content' count scanned rnd',
  tamper_file md p bp burst h bs content rnd = Ok (content', count, scanned, rnd') ->
  differing content content' <= count /\ count <= scanned /\ scanned <= region_size h (length content).
Proof. exact tf_count. Qed.
Print Assumptions C19_count.

(* probability 0 (or below): the file is identical and the count is 0.  No hypothesis on the
   stream: a random() value below 0 is rejected by the model as BadDraw. *)
Theorem C19_p0 : forall md p bp burst h bs content rnd content' count scanned rnd',
  (p <= 0)%Q ->
  tamper_file md p bp burst h bs content rnd = Ok (content', count, scanned, rnd') ->
  content' = content /\ count = 0.
Proof.
  intros md p bp burst h bs content rnd content' count scanned rnd' Hp H.
  apply (tf_p0 _ _ _ _ _ _ _ _ _ _ _ _ (proj1 (Qle_nonpos_num p) Hp) H).
Qed.
Print Assumptions C19_p0.

(* a directory: every file of the walk is handed to tamper_file exactly once, in walk order, on the
   stream its predecessor left (dir_chain); the totals are the sums; and conversely *)
Theorem C19_dir : forall md bp burst h bs files rnd contents' ftamp fcount tcount tsize rnd',
  tamper_dir md bp burst h bs files rnd = Ok (contents', (ftamp, fcount, tcount, tsize), rnd') <->
  exists outs, dir_chain md bp burst h bs files rnd outs rnd' /\
    length outs = length files /\
    contents' = map o_bytes outs /\
    ftamp = length (filter (fun x => 0 <? o_cnt x) outs) /\
    fcount = length files /\
    tcount = list_sum (map o_cnt outs) /\
    tsize = list_sum (map o_size outs).
Proof.
  intros md bp burst h bs files rnd contents' ftamp fcount tcount tsize rnd'. split.
  - intros H. destruct (dir_spec _ _ _ _ _ _ _ _ _ _ _ _ _ H) as (outs & C & E1 & E2 & E3 & E4 & E5).
    exists outs. repeat split; try assumption. exact (dir_chain_length _ _ _ _ _ _ _ _ _ C).
  - intros (outs & C & _ & -> & -> & -> & -> & ->). exact (dir_chain_complete _ _ _ _ _ _ _ _ _ C).
Qed.
Print Assumptions C19_dir.

(* hence no file of a directory run changes length *)
Theorem C19_dir_length : forall md bp burst h bs files rnd contents' totals rnd',
  tamper_dir md bp burst h bs files rnd = Ok (contents', totals, rnd') ->
  map (@length byte) contents' = map (fun f => length (snd f)) files.
Proof.
  intros md bp burst h bs files rnd contents' [[[ft fc] tc] ts] rnd' H.
  destruct (dir_spec _ _ _ _ _ _ _ _ _ _ _ _ _ H) as (outs & C & -> & _).
  rewrite map_map. exact (dir_lengths _ _ _ _ _ _ _ _ _ C).
Qed.
Print Assumptions C19_dir_length.

(* a single file behaves as a one-file directory: same bytes, same counts, same stream left,
   same failure; what main prints for either input agrees likewise *)
Theorem C19_single : forall md bp burst h bs p c rnd,
  tamper_dir md bp burst h bs [(p, c)] rnd =
  match tamper_file md p bp burst h bs c rnd with
  | Err e => Err e
  | Ok (c', cnt, sz, r) => Ok ([c'], ((if 0 <? cnt then 1 else 0), 1, cnt, sz), r)
  end
  /\
  main_dir md bp burst h bs [(p, c)] rnd =
  match main_file md p bp burst h bs c rnd with
  | Err e => Err e
  | Ok (c', RFile cnt sz, r) => Ok ([c'], RDir (if 0 <? cnt then 1 else 0) 1 cnt sz, r)
  | Ok (_, RDir _ _ _ _, _) => Err OutOfFuel
  end.
Proof. intros. split; [apply dir_single | apply main_single]. Qed.
Print Assumptions C19_single.

(* the loop's fuel is never the reason for an error: the only failures are stream failures *)
Theorem C19_total : forall md p bp burst h bs content rnd,
  tamper_file md p bp burst h bs content rnd <> Err OutOfFuel.
Proof. exact tf_fuel. Qed.
Print Assumptions C19_total.

(* ---------- non-vacuity: runs that succeed, and the explicit stream errors ---------- *)
Example C19_ex_erase :
  tamper_file Erase (1#2) None None None 4 [x01; x02; x03; x04; x05]
              [DU (1#4); DU (3#4); DU 0; DU (1#2); DU (1#8)]
  = Ok ([x00; x02; x00; x04; x00], 3, 5, []).
Proof. vm_compute. reflexivity. Qed.

(* noise, block probability, burst of 2, header 3: block draw, position 0 selected + burst length,
   position 1 inside the burst, position 2 drawn and not selected, two noise values *)
Example C19_ex_noise :
  tamper_file Noise (1#2) (Some (1#2)) (Some (2, 2)%Z) (Some 3%Z) 65536 [x01; x02; x03; x04; x05]
              [DU (1#4); DU 0; DI 2; DU (3#4); DI 255; DI 7; DU (1#3)]
  = Ok ([xff; x07; x03; x04; x05], 2, 3, [DU (1#3)]).
Proof. vm_compute. reflexivity. Qed.

Example C19_ex_unselected_block :
  tamper_trace Erase 1 (Some (1#2)) None None 2 [x01; x02; x03; x04]
               [DU (3#4); DU (1#4); DU 0; DU 0]
  = Ok ([x01; x02; x00; x00], [mkrec false 0 2; mkrec true 2 2], []).
Proof. vm_compute. reflexivity. Qed.

Example C19_ex_exhausted :
  tamper_file Erase (1#2) None None None 4 [x01; x02] [DU (1#4)] = Err OutOfStream.
Proof. vm_compute. reflexivity. Qed.

Example C19_ex_bad_draw :
  tamper_file Erase (1#2) None None None 4 [x01; x02] [DU (3#2); DU 0] = Err BadDraw.
Proof. vm_compute. reflexivity. Qed.

Example C19_ex_bad_range :
  tamper_file Erase (1#2) None (Some (3, 1)%Z) None 4 [x01; x02] [DU (1#4); DI 2; DU 0] = Err BadRange.
Proof. vm_compute. reflexivity. Qed.

Example C19_ex_dir :
  tamper_dir Erase None None None 4 [((1#2)%Q, [x01; x02]); (0%Q, []); (1%Q, [x07])]
             [DU (1#4); DU (3#4); DU (1#2)]
  = Ok ([[x00; x02]; []; [x00]], (2, 3, 2, 3), []).
Proof. vm_compute. reflexivity. Qed.
