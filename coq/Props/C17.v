(* C17 — file-scraping recovery (rfigc --filescraping_recovery) restores names, layout and
   modification times from contents.  Property theorems only; model in HashChk.v, proofs in
   Proofs/HashChkP.v.
   T = the original tree (relative path |-> (content, mtime)), its database is gen T.
   S = the scraped folder: ANY association list (names, nesting, mtimes arbitrary — the model
   of the recovery reads only the contents of S, in walk order), possibly with unknown or
   damaged files mixed in and with several copies of the same content.
   md5 / sha1 are arbitrary functions; what is assumed about them is stated as premises:
   digests of recorded contents are non-empty strings, each digest is collision-free among
   the recorded contents, and no scraped content collides on BOTH digests with a different
   recorded content. *)
From Coq Require Import List NArith ZArith Bool.
From Coq Require Import Strings.Byte.
From PFF Require Import Bytes HashChk Proofs.HashChkP.
Import ListNotations.

Notation tree := (fs (list byte)).
Notation lookup := (fs_lookup (list byte)).
Notation gen md5 sha1 := (gen_db (list byte) bsize md5 sha1).
Notation recover md5 sha1 := (scrape (list byte) md5 sha1).
Notation contents_of := (map (fun e : path * (list byte * Z) => fst (snd e))).

Section C17.
  Variables md5 sha1 : list byte -> list byte.
  Variables T S : tree.
  Hypothesis paths_unique : NoDup (map fst T).
  Hypothesis contents_distinct : NoDup (contents_of T).                 (* pairwise distinct contents *)
  Hypothesis digests_are_strings : forall c, In c (contents_of T) -> md5 c <> [] /\ sha1 c <> [].
  Hypothesis md5_free : forall c c', In c (contents_of T) -> In c' (contents_of T) -> md5 c = md5 c' -> c = c'.
  Hypothesis sha1_free : forall c c', In c (contents_of T) -> In c' (contents_of T) -> sha1 c = sha1 c' -> c = c'.
  Hypothesis scraped_free : forall c c', In c (contents_of S) -> In c' (contents_of T) ->
                                          md5 c = md5 c' -> sha1 c = sha1 c' -> c = c'.

  (* The output tree has a file at p with bytes c and mtime m  iff  the original tree had exactly
     that file at p and c is the content of some scraped file.  (So: every recorded file whose
     content is found is recreated at its path with its bytes and recorded time; nothing else
     is created, in particular nothing for unknown files.) *)
  Theorem C17_exact : forall p c m,
    lookup (fst (recover md5 sha1 (gen md5 sha1 T) S)) p = Some (c, m) <->
    (lookup T p = Some (c, m) /\ In c (contents_of S)).
  Proof.
    exact (scrape_exact (list byte) bsize md5 sha1 T S paths_unique contents_distinct
             digests_are_strings md5_free sha1_free scraped_free).
  Qed.

  (* Every recorded content present in the scraped folder (under any names, any nesting, any
     extras): the output tree equals the original tree — paths, bytes and mtimes. *)
  Theorem C17_full :
    (forall c, In c (contents_of T) -> In c (contents_of S)) ->
    forall p, lookup (fst (recover md5 sha1 (gen md5 sha1 T) S)) p = lookup T p.
  Proof.
    exact (scrape_full (list byte) bsize md5 sha1 T S paths_unique contents_distinct
             digests_are_strings md5_free sha1_free scraped_free).
  Qed.

  (* return value: 1 only for a database without rows *)
  Theorem C17_status : snd (recover md5 sha1 (gen md5 sha1 T) S) = if null T then 1 else 0.
  Proof. exact (scrape_status (list byte) bsize md5 sha1 T S digests_are_strings). Qed.
End C17.
Print Assumptions C17_exact.
Print Assumptions C17_full.
Print Assumptions C17_status.

(* ---------- non-vacuity ---------- *)
Definition hx (c : list byte) : list byte := "m"%byte :: c.      (* injective, never empty *)
Definition hy (c : list byte) : list byte := "s"%byte :: rev c.
Definition p1 : path := ["a"]%byte.
Definition p2 : path := ["d"; "/"; "b"; "|"]%byte.
Definition xT : tree := [(p1, ([x01], 111%Z)); (p2, ([x02; x03], 222%Z))].
(* scraped: both contents under other names and times, one of them twice, plus an unknown file *)
Definition xS : tree := [(["z"; "/"; "1"]%byte, ([x02; x03], 5%Z)); (["0"]%byte, ([x09], 6%Z));
                         (["q"]%byte, ([x01], 7%Z)); (["r"]%byte, ([x02; x03], 8%Z))].
Example C17_ex_run :
  fst (recover hx hy (gen hx hy xT) xS) = [(p2, ([x02; x03], 222%Z)); (p1, ([x01], 111%Z))]
  /\ snd (recover hx hy (gen hx hy xT) xS) = 0.
Proof. vm_compute. split; reflexivity. Qed.
Example C17_ex_hyps :
  NoDup (map fst xT) /\ NoDup (contents_of xT) /\
  (forall c, In c (contents_of xT) -> hx c <> [] /\ hy c <> []) /\
  (forall c c' : list byte, hx c = hx c' -> c = c') /\
  (forall c c' : list byte, hy c = hy c' -> c = c').
Proof.
  split; [repeat constructor; simpl; intuition discriminate|].
  split; [repeat constructor; simpl; intuition discriminate|].
  split; [intros c _; split; discriminate|].
  split; [intros c c' E; inversion E; reflexivity|].
  intros c c' E. inversion E as [E']. rewrite <- (rev_involutive c), <- (rev_involutive c'), E'. reflexivity.
Qed.
(* outside the quantified domain (two recorded files with the SAME content): only the last such
   row is recreated — the distinctness premise of C17_exact is necessary. *)
Example C17_ex_duplicates :
  fst (recover hx hy (gen hx hy [(p1, ([x01], 111%Z)); (p2, ([x01], 222%Z))]) [(["q"]%byte, ([x01], 7%Z))])
  = [(p2, ([x01], 222%Z))].
Proof. vm_compute. reflexivity. Qed.
(* md5 and sha1 must EACH be collision-free among the recorded contents: two recorded files that share only
   their md5 (distinct contents, distinct sha1 — no double collision) — the earlier row is lost, because each
   dictionary keeps the last row id. *)
Definition hm1 (c : list byte) : list byte := "m"%byte :: firstn 1 c.
Example C17_ex_md5_shared :
  fst (recover hm1 hy (gen hm1 hy [(p1, ([x01; x02], 111%Z)); (p2, ([x01; x03], 222%Z))])
               [(["q"]%byte, ([x01; x02], 7%Z)); (["r"]%byte, ([x01; x03], 8%Z))])
  = [(p2, ([x01; x03], 222%Z))].
Proof. vm_compute. reflexivity. Qed.
