(* C06 — byte-wise majority vote returns the plurality value at every offset.
   Property theorems only; proofs are in Proofs/VoteP.v.  Symbols are bytes. *)
From Coq Require Import List Arith Bool.
From Coq Require Import Strings.Byte.
From PFF Require Import Bytes Vote Proofs.VoteP.
Import ListNotations.

Notation vote := (vote_chunked byte_eqb).
Notation col i cs := (@column byte i cs).
Notation count x l := (cnt byte_eqb x l).

(* The chunked scan of >= 3 copies is the unchunked column-wise vote, for every chunk size. *)
Theorem C06_refines : forall bs cs, 0 < bs -> 3 <= length cs ->
  vote bs cs = (vote_spec byte_eqb cs, status_spec byte_eqb cs).
Proof. exact (vote_chunked_spec byte_eqb). Qed.
Print Assumptions C06_refines.

Theorem C06_chunk_independent : forall bs1 bs2 cs, 0 < bs1 -> 0 < bs2 -> vote bs1 cs = vote bs2 cs.
Proof. exact (vote_chunk_independent byte_eqb). Qed.
Print Assumptions C06_chunk_independent.

(* The merged output has the length of the longest copy. *)
Theorem C06_length : forall cs, length (vote_spec byte_eqb cs) = maxlen cs.
Proof. exact (vote_spec_length byte_eqb byte_eqb_spec). Qed.
Print Assumptions C06_length.

(* At every offset below the longest length the output byte x is carried by a copy reaching
   that offset, no value is carried by more copies, and every value whose first carrier comes
   earlier (in the given copy order) is carried by strictly fewer copies. *)
Theorem C06_plurality : forall cs i, i < maxlen cs ->
  exists x e, nth_error (vote_spec byte_eqb cs) i = Some x /\
    vote_col byte_eqb (col i cs) = Some (x, e) /\
    In x (col i cs) /\ (forall y, count y (col i cs) <= count x (col i cs)) /\
    (exists k1 k2, first_occ byte_eqb [] (col i cs) = k1 ++ x :: k2 /\
                   forall y, In y k1 -> count y (col i cs) < count x (col i cs)).
Proof.
  intros cs i Hi.
  destruct (vote_spec_nth byte_eqb byte_eqb_spec cs i Hi) as (x & e & Hv & Hn).
  exists x, e. split; [exact Hn|]. split; [exact Hv|].
  destruct (vote_col_max byte_eqb byte_eqb_spec _ _ _ Hv) as [H1 H2].
  split; [exact H1|]. split; [exact H2|].
  exact (vote_col_earliest byte_eqb byte_eqb_spec _ _ _ Hv).
Qed.
Print Assumptions C06_plurality.

(* Non-zero status exactly when some offset is reached by >= 2 copies that all differ. *)
Theorem C06_status : forall cs,
  status_spec byte_eqb cs <> 0 <->
  exists i, i < maxlen cs /\ 2 <= length (col i cs) /\ NoDup (col i cs).
Proof. exact (status_spec_iff byte_eqb byte_eqb_spec). Qed.
Print Assumptions C06_status.

(* More than half of the copies reaching each offset intact => the original, status 0. *)
Theorem C06_majority_exact : forall cs orig,
  length orig = maxlen cs ->
  (forall i x, nth_error orig i = Some x -> length (col i cs) < 2 * count x (col i cs)) ->
  vote_spec byte_eqb cs = orig /\ status_spec byte_eqb cs = 0.
Proof. exact (vote_spec_majority byte_eqb byte_eqb_spec). Qed.
Print Assumptions C06_majority_exact.

(* Fewer than three copies: the first copy verbatim, status 1. *)
Theorem C06_few : forall bs cs, length cs < 3 -> vote bs cs = (hd [] cs, 1).
Proof. exact (vote_few byte_eqb). Qed.
Print Assumptions C06_few.

(* Non-vacuity: a concrete vote with a tie, a truncated copy, an ambiguity and a majority. *)
Example C06_example :
  vote 2 [[x61;x62;x63;x64]; [x61;x78;x63]; [x7a;x78;x63;x65;x66]; [x61;x62]]
  = ([x61;x62;x63;x64;x66], 1).
Proof. vm_compute. reflexivity. Qed.
