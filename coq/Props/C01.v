(* C01 — damage within the correction capacity of every block is repaired bit-exactly.
   Property theorems only; proofs are in Proofs/PipelineP.v.  Model: Pipeline.v.
   The hash and the codec facade are oracles.  Hypotheses (named, explicit in every statement):
     chk_enc       the facade's check accepts message + its own parity            } discharged later from
     code_dist     two checked codewords within the capacity of one received word  } the Reed-Solomon algebra
                   are equal (minimum distance)                                    } (C02 / C11: Facade.v)
     dec_complete  a received word within capacity of a codeword is decoded to some
                   checked word within capacity                — an ORACLE hypothesis (third-party
                   decoders), tested by the correspondence check, not proved: C01 is PARTIAL in this sense
     hash_len / enc_len   field lengths of the stored track
   `cap k o r c` = the received (message, parity) r is within the capacity of the codeword c under the
   erasure options o (errors only: at most (n-k)/2 wrong symbols; with erasures: 2*errors + erasures
   <= n-k, every symbol equal to the erasure symbol counting as an erasure); `wf k m` = the block
   geometries on which the codec hypotheses are assumed.  Both are parameters. *)
From Coq Require Import List Arith Bool.
From Coq Require Import Strings.Byte.
From PFF Require Import Bytes Pipeline Proofs.PipelineP.
Import ListNotations.

Section C01.
  Variable opts_t : Type.
  Variable hash : list byte -> list byte.
  Variable chk : nat -> list byte -> list byte -> bool.
  Variable dec : nat -> opts_t -> list byte -> list byte -> option (list byte * list byte).
  Variable enc : nat -> list byte -> list byte.
  Variable o : opts_t.
  Variable fast : bool.
  Variable cap : nat -> opts_t -> list byte * list byte -> list byte * list byte -> Prop.
  Variable wf : nat -> list byte -> Prop.

  Definition chk_enc : Prop := forall k m, wf k m -> chk k m (enc k m) = true.
  Definition dec_complete : Prop := forall k m p m0,
    wf k m0 -> cap k o (m, p) (m0, enc k m0) ->
    exists c, dec k o m p = Some c /\ chk k (fst c) (snd c) = true /\ cap k o (m, p) c.
  Definition code_dist : Prop := forall k r m0 c,
    wf k m0 -> cap k o r (m0, enc k m0) -> cap k o r c -> chk k (fst c) (snd c) = true -> c = (m0, enc k m0).

  (* a received block b whose original message was m0 (parity enc m0 stored at generation):
     within capacity, and no accidental hash match of a damaged message
     (with the stored hash intact this is: hash (msg b) = hash m0 -> msg b = m0) *)
  Definition received (m0 : list byte) (b : ablock) : Prop :=
    wf (bk b) m0 /\ cap (bk b) o (msg b, ecc b) (m0, enc (bk b) m0) /\ (hash (msg b) = hsh b -> msg b = m0).
  (* the received block list against the stored one: same geometry and field lengths, each block received *)
  Definition damaged (b0 b : ablock) : Prop :=
    (bk b = bk b0 /\ length (msg b) = length (msg b0) /\ length (hsh b) = length (hsh b0) /\
     length (ecc b) = length (ecc b0)) /\ received (msg b0) b.

  (* One block: the pipeline commits exactly the original message, never reports it unrepairable,
     and repairs it whenever it was damaged — in both checking modes. *)
  Theorem C01_block : chk_enc -> dec_complete -> code_dist ->
    forall m0 b, received m0 b ->
    fst (block_step opts_t hash chk dec o fast b) = m0 /\
    is_failed (snd (block_step opts_t hash chk dec o fast b)) = false /\
    (msg b <> m0 -> is_repaired (snd (block_step opts_t hash chk dec o fast b)) = true).
  Proof.
    intros H1 H2 H3 m0 b R.
    destruct (block_repaired opts_t hash chk dec enc o fast cap wf H1 H2 H3 m0 b R) as (A & B & _ & C). auto.
  Qed.

  (* Header tool.  F0 = the original file, hdr = --size, ms = message size; the ecc entry holds
     hdr_gen F0 (hash and parity of each ms-byte block of the first hdr bytes).  The damaged file is
     (received blocks) ++ tail with the original length; the stored track is received block by block.
     Then: an output file is written whenever the protected region was damaged, its protected region
     is the original's, the bytes after it are the damaged file's, and the file counts as clean or
     completely repaired. *)
  Theorem C01_file_header : chk_enc -> dec_complete -> code_dist ->
    forall mb hlen ms hdr,
    (forall m, length (hash m) = hlen) -> (forall k m, length (enc k m) = mb - k) ->
    1 <= ms -> 1 <= hlen + (mb - ms) ->
    forall F0 bl tail,
    Forall2 damaged (hdr_gen hash enc ms hdr F0) bl ->
    length tail = length F0 - hdr ->
    let F := concat (map msg bl) ++ tail in
    let r := hdr_file opts_t hash chk dec o fast ms mb hlen hdr (length F0) F (track_of bl) in
    length F = length F0 /\
    (f_class r = Clean \/ f_class r = Complete) /\
    (forall out, f_out r = Some out -> out = firstn hdr F0 ++ tail) /\
    (concat (map msg bl) <> firstn hdr F0 -> f_out r = Some (firstn hdr F0 ++ tail)).
  Proof.
    intros H1 H2 H3 mb hlen ms hdr HL EL MS TP F0 bl tail D LT.
    exact (hdr_file_repairs opts_t hash chk dec enc o fast cap wf mb hlen H1 H2 H3 HL EL ms hdr MS TP F0 bl tail D LT).
  Qed.

  (* Whole-file tool, for every size function mu >= 1 (staged / interpolated rates): the output is
     the original file.  `junk` = whatever follows the entry's track in the ecc file. *)
  Theorem C01_file_whole : chk_enc -> dec_complete -> code_dist ->
    forall mb hlen mu,
    (forall m, length (hash m) = hlen) -> (forall k m, length (enc k m) = mb - k) ->
    (forall c, 1 <= mu c) -> (forall c, 1 <= hlen + (mb - mu c)) ->
    forall F0 bl junk,
    Forall2 damaged (sa_gen hash mu enc F0) bl ->
    let F := concat (map msg bl) in
    let r := sa_file opts_t hash chk dec o fast mu mb hlen F (track_of bl ++ junk) (length (track_of bl)) in
    length F = length F0 /\
    (f_class r = Clean \/ f_class r = Complete) /\
    (forall out, f_out r = Some out -> out = F0) /\
    (F <> F0 -> f_out r = Some F0).
  Proof.
    intros H1 H2 H3 mb hlen mu HL EL MP TP F0 bl junk D.
    exact (sa_file_repairs opts_t hash chk dec enc o fast cap wf mb hlen H1 H2 H3 HL EL mu MP TP F0 bl junk D).
  Qed.
End C01.

(* A run in which every processed file is clean or completely repaired exits 0. *)
Theorem C01_exit : forall s rs,
  Forall (fun pr => f_class (snd pr) = Clean \/ f_class (snd pr) = Complete) rs -> snd (run_files s rs) = 0.
Proof. exact run_exit_zero. Qed.

Print Assumptions C01_block.
Print Assumptions C01_file_header.
Print Assumptions C01_file_whole.
Print Assumptions C01_exit.

(* ------------------------------------------------------------------ *)
(* Non-vacuity: the three codec hypotheses are satisfiable together (toy codec: parity = two more
   copies of the message, majority decoding, capacity = at least two of the three copies intact) *)
Example C01_hypotheses_satisfiable :
  chk_enc toy_chk toy_enc toy_wf /\ dec_complete unit toy_chk toy_dec toy_enc tt toy_cap toy_wf /\
  code_dist unit toy_chk toy_enc tt toy_cap toy_wf.
Proof. split; [exact toy_chk_enc|]. split; [exact toy_dec_complete|exact toy_code_dist]. Qed.

(* a concrete instance of the premise of C01_file_whole and of its conclusion: generate for
   "abcdef" (2-byte blocks), damage one copy out of three in every block (message of block 1,
   parity of blocks 0 and 2), correct: the original comes back, completely repaired *)
Example C01_example_whole :
  let F0 := [x61; x62; x63; x64; x65; x66] in
  let bl0 := sa_gen toy_hash (fun _ => 2) toy_enc F0 in
  let bl := [mkb 2 [x61; x62] [x61] [x61; x7a; x61; x62];
             mkb 2 [x7a; x64] [x63] [x63; x64; x63; x64];
             mkb 2 [x65; x66] [x65] [x65; x66; x00; x00]] in
  map msg bl0 = [[x61; x62]; [x63; x64]; [x65; x66]] /\
  track_of bl0 = [x61; x61;x62;x61;x62] ++ [x63; x63;x64;x63;x64] ++ [x65; x65;x66;x65;x66] /\
  let r := sa_file unit toy_hash toy_chk toy_dec tt false (fun _ => 2) 6 1
                   (concat (map msg bl)) (track_of bl ++ [xfe; xff]) (length (track_of bl)) in
  f_out r = Some F0 /\ f_class r = Complete /\
  f_verdicts r = [Repaired true true; Repaired true true; Repaired true true].
Proof. vm_compute. repeat split; reflexivity. Qed.

Example C01_example_header :
  let F0 := [x61; x62; x63; x64; x65; x66] in          (* --size 4: "abcd" protected, "ef" not *)
  let bl := [mkb 2 [x7a; x62] [x61] [x61; x62; x61; x62]; mkb 2 [x63; x64] [x63] [x63; x64; x63; x64]] in
  map msg (hdr_gen toy_hash toy_enc 2 4 F0) = [[x61; x62]; [x63; x64]] /\
  let r := hdr_file unit toy_hash toy_chk toy_dec tt true 2 6 1 4 6 (concat (map msg bl) ++ [x21; x66]) (track_of bl) in
  f_out r = Some [x61; x62; x63; x64; x21; x66] /\ f_class r = Complete.
Proof. vm_compute. repeat split; reflexivity. Qed.

(* ------------------------------------------------------------------ *)
(* The same theorems on the REAL codecs: chk / enc are the verified facade check and encoder
   (Facade.fac_check / fac_encode over GF(2^8), any of the four codecs, max_block_size mb <= 255, per-call
   geometry k); opts = the erasure symbol if erasure handling is on; `cap` is the concrete errors-and-erasures
   capacity relation pcap (2*errors + erasures <= mb - k, an erasure being every received symbol equal to the erasure
   symbol) and `wf` is k <= mb /\ |m| <= k.  chk_enc and code_dist are no longer hypotheses: they are discharged
   from the Reed-Solomon algebra (Proofs/CodecInst.v: encoder validity and uniqueness of bounded-distance decoding
   from the BCH bound).  Only decoder completeness remains assumed (third-party decoders). *)
Definition c01_received := received.   (* Facade.v also defines a `received`; keep this file's one under a second name *)
From Coq Require Import NArith.
From PFF Require Import Facade Proofs.CodecInst.

Theorem C01_block_rs : forall (algo : N) (mb : nat) hash dec (o : option byte) fast, mb <= 255 ->
  dec_complete (option byte) (pchk algo mb) dec (penc algo mb) o (pcap mb) (pwf mb) ->
  forall m0 b, c01_received (option byte) hash (penc algo mb) o (pcap mb) (pwf mb) m0 b ->
  fst (block_step (option byte) hash (pchk algo mb) dec o fast b) = m0 /\
  is_failed (snd (block_step (option byte) hash (pchk algo mb) dec o fast b)) = false /\
  (msg b <> m0 -> is_repaired (snd (block_step (option byte) hash (pchk algo mb) dec o fast b)) = true).
Proof.
  intros algo mb hash dec o fast Hmb Hd.
  exact (C01_block (option byte) hash (pchk algo mb) dec (penc algo mb) o fast (pcap mb) (pwf mb)
           (pipe_chk_enc algo mb) Hd (pipe_code_dist algo mb Hmb o)).
Qed.
Print Assumptions C01_block_rs.

Theorem C01_file_whole_rs : forall (algo : N) (mb : nat) hash dec (o : option byte) fast, mb <= 255 ->
  dec_complete (option byte) (pchk algo mb) dec (penc algo mb) o (pcap mb) (pwf mb) ->
  forall hlen mu,
  (forall m, length (hash m) = hlen) -> (forall c, 1 <= mu c) -> (forall c, 1 <= hlen + (mb - mu c)) ->
  forall F0 bl junk,
  Forall2 (damaged (option byte) hash (penc algo mb) o (pcap mb) (pwf mb)) (sa_gen hash mu (penc algo mb) F0) bl ->
  let F := concat (map msg bl) in
  let r := sa_file (option byte) hash (pchk algo mb) dec o fast mu mb hlen F (track_of bl ++ junk) (length (track_of bl)) in
  length F = length F0 /\
  (f_class r = Clean \/ f_class r = Complete) /\
  (forall out, f_out r = Some out -> out = F0) /\
  (F <> F0 -> f_out r = Some F0).
Proof.
  intros algo mb hash dec o fast Hmb Hd hlen mu HL MP TP.
  exact (C01_file_whole (option byte) hash (pchk algo mb) dec (penc algo mb) o fast (pcap mb) (pwf mb)
           (pipe_chk_enc algo mb) Hd (pipe_code_dist algo mb Hmb o) mb hlen mu HL (pipe_enc_len algo mb) MP TP).
Qed.
Print Assumptions C01_file_whole_rs.

Theorem C01_file_header_rs : forall (algo : N) (mb : nat) hash dec (o : option byte) fast, mb <= 255 ->
  dec_complete (option byte) (pchk algo mb) dec (penc algo mb) o (pcap mb) (pwf mb) ->
  forall hlen ms hdr,
  (forall m, length (hash m) = hlen) -> 1 <= ms -> 1 <= hlen + (mb - ms) ->
  forall F0 bl tail,
  Forall2 (damaged (option byte) hash (penc algo mb) o (pcap mb) (pwf mb)) (hdr_gen hash (penc algo mb) ms hdr F0) bl ->
  length tail = length F0 - hdr ->
  let F := concat (map msg bl) ++ tail in
  let r := hdr_file (option byte) hash (pchk algo mb) dec o fast ms mb hlen hdr (length F0) F (track_of bl) in
  length F = length F0 /\
  (f_class r = Clean \/ f_class r = Complete) /\
  (forall out, f_out r = Some out -> out = firstn hdr F0 ++ tail) /\
  (concat (map msg bl) <> firstn hdr F0 -> f_out r = Some (firstn hdr F0 ++ tail)).
Proof.
  intros algo mb hash dec o fast Hmb Hd hlen ms hdr HL MS TP.
  exact (C01_file_header (option byte) hash (pchk algo mb) dec (penc algo mb) o fast (pcap mb) (pwf mb)
           (pipe_chk_enc algo mb) Hd (pipe_code_dist algo mb Hmb o) mb hlen ms hdr HL (pipe_enc_len algo mb) MS TP).
Qed.
Print Assumptions C01_file_header_rs.

(* ------------------------------------------------------------------ *)
(* C01 at TOOL level (Proofs/StreamRepair.v, Proofs/C01Inst.v): the whole correction run of `pff header` / `pff whole` over
   an ecc file generated for the tree T, when every protected file is found with its recorded size and every block of it
   is within the capacity of its stored parity (ecc file pristine; damage to the stored parity / hashes is the subject of
   C01_block_rs and C01_file_*_rs above).  The run processes every file, counts the corrupted ones all as repaired
   completely, skips nothing, exits 0; the output folder holds only repaired files, each equal to the original protected
   content (header tool: + the bytes after the header as found), and holds one for every file that differed.
   Components: Stream (entry loop, counters, exit status; C03/C08/C13), Entry (intra-ecc; C09), Pipeline (per-block stage;
   C04/C10), Facade + RS algebra (C02/C11).  One codec hypothesis: completeness of the third-party decoder. *)
From PFF Require Stream Proofs.StreamP Proofs.StreamRepair Proofs.C03Inst Proofs.C01Inst.

Theorem C01_tool_header_rs :
  forall (algo : N) (mb : nat), mb <= 255 -> forall hash hlen, (forall m, length (hash m) = hlen) ->
  forall bdec (o : option byte) fast ik ies, 1 <= ik -> ik + ies <= 255 -> forall idec,
  PipelineP.dec_complete_hyp (option byte) (pchk algo mb) bdec (penc algo mb) o (pcap mb) (pwf mb) ->
  forall ms hdr, 1 <= ms <= mb -> 1 <= hlen + (mb - ms) ->
  let intra := C03Inst.intra_h algo ik ies idec in
  let fenc := C03Inst.fenc_h algo ik ies in
  let track := C03Inst.track_h algo mb hash ms hdr in
  let blocks := C03Inst.blocksH_pipe algo mb hash hlen bdec o fast ms hdr in
  forall marker delim ignore_size look preamble (T : list (list byte * list byte)) dmg want,
  marker <> [] ->
  StreamP.clean_pieces marker (preamble :: map (Stream.gen_entry delim fenc track) T) ->
  (forall f, In f T ->
     Stream.prefixb delim (fst f ++ delim) = false /\ StreamP.clean_mid delim (fst f) /\ StreamP.clean_mid delim (StreamP.size_of f) /\
     StreamP.clean_mid delim (fenc (fst f)) /\ StreamP.clean_mid delim (fenc (StreamP.size_of f))) ->
  (forall f, In f T -> (N.of_nat (length (snd f)) < 10 ^ 4300)%N) ->
  (forall f, In f T -> Stream.has_nul (fst f) = false) ->
  NoDup (map fst T) ->
  (forall f, In f T -> look (fst f) = Some (dmg f)) ->
  (forall f, In f T -> C01Inst.found_h algo mb hash o ms hdr (snd f) (dmg f) (want f)) ->
  exists outs k,
    Stream.run_h marker delim ignore_size look intra blocks (Stream.generate marker delim fenc track preamble T)
      = Stream.Done (Stream.mkC (length T) k k 0 0) outs 0 /\ k <= length T /\
    (forall p b, In (p, b) outs -> exists f, In f T /\ p = fst f /\ b = want f) /\
    (forall f, In f T -> dmg f <> want f -> In (fst f, want f) outs).
Proof.
  intros algo mb Hmb hash hlen HL bdec o fast ik ies K1 K2 idec DC ms hdr MS TP intra fenc track blocks
         marker delim ignore_size look preamble T dmg want Hm U1 U2 SZ NN ND LK FH.
  destruct (C01Inst.repair_header algo mb Hmb hash hlen HL bdec o fast ik ies K1 K2 idec DC ms hdr MS TP
              marker delim ignore_size look preamble T dmg want Hm U1 U2 SZ NN ND LK FH) as (rs & F & E).
  exact (C01Inst.rel_summary T want _ rs _ F E).
Qed.
Print Assumptions C01_tool_header_rs.

Theorem C01_tool_whole_rs :
  forall (algo : N) (mb : nat), mb <= 255 -> forall hash hlen, (forall m, length (hash m) = hlen) ->
  forall bdec (o : option byte) fast ik ies, 1 <= ik -> ik + ies <= 255 -> forall idec,
  PipelineP.dec_complete_hyp (option byte) (pchk algo mb) bdec (penc algo mb) o (pcap mb) (pwf mb) ->
  forall mu, (forall s c, 1 <= mu s c <= mb) -> (forall s c, 1 <= hlen + (mb - mu s c)) -> forall window,
  let intra := C03Inst.intra_w algo ik ies idec in
  let fenc := C03Inst.fenc_w algo ik ies in
  let track := C03Inst.track_w algo mb hash mu in
  let blocks := C03Inst.blocksW_pipe algo mb hash hlen bdec o fast mu in
  forall marker delim ignore_size look preamble (T : list (list byte * list byte)) dmg want,
  marker <> [] ->
  StreamP.clean_pieces marker (preamble :: map (Stream.gen_entry delim fenc track) T) ->
  (forall f, In f T ->
     Stream.prefixb delim (fst f ++ delim) = false /\ StreamP.clean_mid delim (fst f) /\ StreamP.clean_mid delim (StreamP.size_of f) /\
     StreamP.clean_mid delim (fenc (fst f)) /\ StreamP.clean_mid delim (fenc (StreamP.size_of f))) ->
  (forall f, In f T -> (N.of_nat (length (snd f)) < 10 ^ 4300)%N) ->
  (forall f, In f T -> Stream.has_nul (fst f) = false) ->
  NoDup (map fst T) ->
  (forall f, In f T -> look (fst f) = Some (dmg f)) ->
  (forall f, In f T -> C01Inst.found_w algo mb hash o mu (snd f) (dmg f) (want f)) ->
  (forall f, In f T -> StreamP.meta_len delim (fst f) (StreamP.size_of f) (fenc (fst f)) (fenc (StreamP.size_of f)) <= window) ->
  exists outs k,
    Stream.run_w marker delim ignore_size look intra window blocks (Stream.generate marker delim fenc track preamble T)
      = Stream.Done (Stream.mkC (length T) k k 0 0) outs 0 /\ k <= length T /\
    (forall p b, In (p, b) outs -> exists f, In f T /\ p = fst f /\ b = want f) /\
    (forall f, In f T -> dmg f <> want f -> In (fst f, want f) outs).
Proof.
  intros algo mb Hmb hash hlen HL bdec o fast ik ies K1 K2 idec DC mu MU TP window intra fenc track blocks
         marker delim ignore_size look preamble T dmg want Hm U1 U2 SZ NN ND LK FW MF.
  destruct (C01Inst.repair_whole algo mb Hmb hash hlen HL bdec o fast ik ies K1 K2 idec DC mu MU TP window
              marker delim ignore_size look preamble T dmg want Hm U1 U2 SZ NN ND LK FW MF) as (rs & F & E).
  exact (C01Inst.rel_summary T want _ rs _ F E).
Qed.
Print Assumptions C01_tool_whole_rs.

(* ---- correction restricted with -e/--errors_file (Select.v): the listed files, and only they ----
   (a) an empty list restricts nothing; (b) on ANY ecc file, a restricted run writes output for listed paths only;
   (c) header tool, generated ecc file, every file damaged within capacity: the restricted run counts the listed entries only,
       repairs every listed file that is damaged, writes nothing else and exits 0. *)
From PFF Require Select Proofs.SelectP.

Theorem C01_errors_file_empty_is_no_restriction :
  forall marker delim ignore_size look intra blocksH window blocksW db,
  Select.run_h_sel marker delim ignore_size look intra [] blocksH db = Stream.run_h marker delim ignore_size look intra blocksH db /\
  Select.run_w_sel marker delim ignore_size look intra [] window blocksW db = Stream.run_w marker delim ignore_size look intra window blocksW db.
Proof.
  intros. split; [apply SelectP.sel_inactive_h|apply SelectP.sel_inactive_w].
Qed.
Print Assumptions C01_errors_file_empty_is_no_restriction.

Theorem C01_errors_file_writes_only_listed :
  forall marker delim ignore_size look intra blocksH window blocksW L, L <> [] -> forall db c outs ex,
  (Select.run_h_sel marker delim ignore_size look intra L blocksH db = Stream.Done c outs ex \/
   Select.run_w_sel marker delim ignore_size look intra L window blocksW db = Stream.Done c outs ex) ->
  forall p b, In (p, b) outs -> Select.listed L p = true.
Proof.
  intros marker delim ignore_size look intra blocksH window blocksW L HL db c outs ex [H|H] p b Hin.
  - exact (SelectP.sel_writes_only_listed_h marker delim ignore_size look intra blocksH L HL db c outs ex H p b Hin).
  - exact (SelectP.sel_writes_only_listed_w marker delim ignore_size look intra window blocksW L HL db c outs ex H p b Hin).
Qed.
Print Assumptions C01_errors_file_writes_only_listed.

Theorem C01_errors_file_header_rs :
  forall (algo : N) (mb : nat), mb <= 255 -> forall hash hlen, (forall m, length (hash m) = hlen) ->
  forall bdec (o : option byte) fast ik ies, 1 <= ik -> ik + ies <= 255 -> forall idec,
  PipelineP.dec_complete_hyp (option byte) (pchk algo mb) bdec (penc algo mb) o (pcap mb) (pwf mb) ->
  forall ms hdr, 1 <= ms <= mb -> 1 <= hlen + (mb - ms) ->
  let intra := C03Inst.intra_h algo ik ies idec in
  let fenc := C03Inst.fenc_h algo ik ies in
  let track := C03Inst.track_h algo mb hash ms hdr in
  let blocks := C03Inst.blocksH_pipe algo mb hash hlen bdec o fast ms hdr in
  forall marker delim ignore_size look preamble (T : list (list byte * list byte)) dmg want L,
  L <> [] -> marker <> [] ->
  StreamP.clean_pieces marker (preamble :: map (Stream.gen_entry delim fenc track) T) ->
  (forall f, In f T ->
     Stream.prefixb delim (fst f ++ delim) = false /\ StreamP.clean_mid delim (fst f) /\ StreamP.clean_mid delim (StreamP.size_of f) /\
     StreamP.clean_mid delim (fenc (fst f)) /\ StreamP.clean_mid delim (fenc (StreamP.size_of f))) ->
  (forall f, In f T -> (N.of_nat (length (snd f)) < 10 ^ 4300)%N) ->
  (forall f, In f T -> Stream.has_nul (fst f) = false) ->
  NoDup (map fst T) ->
  (forall f, In f T -> look (fst f) = Some (dmg f)) ->
  (forall f, In f T -> C01Inst.found_h algo mb hash o ms hdr (snd f) (dmg f) (want f)) ->
  let Tl := filter (fun f => Select.listed L (fst f)) T in
  exists outs k,
    Select.run_h_sel marker delim ignore_size look intra L blocks (Stream.generate marker delim fenc track preamble T)
      = Stream.Done (Stream.mkC (length Tl) k k 0 0) outs 0 /\ k <= length Tl /\
    (forall p b, In (p, b) outs -> exists f, In f T /\ Select.listed L (fst f) = true /\ p = fst f /\ b = want f) /\
    (forall f, In f T -> Select.listed L (fst f) = true -> dmg f <> want f -> In (fst f, want f) outs).
Proof.
  intros algo mb Hmb hash hlen HL bdec o fast ik ies K1 K2 idec DC ms hdr MS TP intra fenc track blocks
         marker delim ignore_size look preamble T dmg want L HLn Hm U1 U2 SZ NN ND LK FH Tl.
  destruct (C01Inst.sel_repair_header algo mb Hmb hash hlen HL bdec o fast ik ies K1 K2 idec DC ms hdr MS TP
              marker delim ignore_size look preamble T dmg want L HLn Hm U1 U2 SZ NN ND LK FH) as (rs & F & E).
  destruct (C01Inst.rel_summary (SelectP.Tsel T L) want _ rs _ F E) as (outs & k & E' & Hk & O & I).
  exists outs, k. split; [exact E'|]. split; [exact Hk|]. split.
  - intros p b H. destruct (O p b H) as (f & Hf & E1 & E2). unfold SelectP.Tsel in Hf. apply filter_In in Hf as [Hf1 Hf2].
    exists f. auto.
  - intros f Hf Hl Hd. apply I; [|exact Hd]. unfold SelectP.Tsel. apply filter_In. split; assumption.
Qed.
Print Assumptions C01_errors_file_header_rs.

Theorem C01_errors_file_whole_rs :
  forall (algo : N) (mb : nat), mb <= 255 -> forall hash hlen, (forall m, length (hash m) = hlen) ->
  forall bdec (o : option byte) fast ik ies, 1 <= ik -> ik + ies <= 255 -> forall idec,
  PipelineP.dec_complete_hyp (option byte) (pchk algo mb) bdec (penc algo mb) o (pcap mb) (pwf mb) ->
  forall mu, (forall s c, 1 <= mu s c <= mb) -> (forall s c, 1 <= hlen + (mb - mu s c)) -> forall window,
  let intra := C03Inst.intra_w algo ik ies idec in
  let fenc := C03Inst.fenc_w algo ik ies in
  let track := C03Inst.track_w algo mb hash mu in
  let blocks := C03Inst.blocksW_pipe algo mb hash hlen bdec o fast mu in
  forall marker delim ignore_size look preamble (T : list (list byte * list byte)) dmg want L,
  L <> [] -> marker <> [] ->
  StreamP.clean_pieces marker (preamble :: map (Stream.gen_entry delim fenc track) T) ->
  (forall f, In f T ->
     Stream.prefixb delim (fst f ++ delim) = false /\ StreamP.clean_mid delim (fst f) /\ StreamP.clean_mid delim (StreamP.size_of f) /\
     StreamP.clean_mid delim (fenc (fst f)) /\ StreamP.clean_mid delim (fenc (StreamP.size_of f))) ->
  (forall f, In f T -> (N.of_nat (length (snd f)) < 10 ^ 4300)%N) ->
  (forall f, In f T -> Stream.has_nul (fst f) = false) ->
  NoDup (map fst T) ->
  (forall f, In f T -> look (fst f) = Some (dmg f)) ->
  (forall f, In f T -> C01Inst.found_w algo mb hash o mu (snd f) (dmg f) (want f)) ->
  (forall f, In f T -> StreamP.meta_len delim (fst f) (StreamP.size_of f) (fenc (fst f)) (fenc (StreamP.size_of f)) <= window) ->
  let Tl := filter (fun f => Select.listed L (fst f)) T in
  exists outs k,
    Select.run_w_sel marker delim ignore_size look intra L window blocks (Stream.generate marker delim fenc track preamble T)
      = Stream.Done (Stream.mkC (length Tl) k k 0 0) outs 0 /\ k <= length Tl /\
    (forall p b, In (p, b) outs -> exists f, In f T /\ Select.listed L (fst f) = true /\ p = fst f /\ b = want f) /\
    (forall f, In f T -> Select.listed L (fst f) = true -> dmg f <> want f -> In (fst f, want f) outs).
Proof.
  intros algo mb Hmb hash hlen HL bdec o fast ik ies K1 K2 idec DC mu MU TP window intra fenc track blocks
         marker delim ignore_size look preamble T dmg want L HLn Hm U1 U2 SZ NN ND LK FW MF Tl.
  destruct (C01Inst.sel_repair_whole algo mb Hmb hash hlen HL bdec o fast ik ies K1 K2 idec DC mu MU TP window
              marker delim ignore_size look preamble T dmg want L HLn Hm U1 U2 SZ NN ND LK FW MF) as (rs & F & E).
  destruct (C01Inst.rel_summary (SelectP.Tsel T L) want _ rs _ F E) as (outs & k & E' & Hk & O & I).
  exists outs, k. split; [exact E'|]. split; [exact Hk|]. split.
  - intros p b H. destruct (O p b H) as (f & Hf & E1 & E2). unfold SelectP.Tsel in Hf. apply filter_In in Hf as [Hf1 Hf2].
    exists f. auto.
  - intros f Hf Hl Hd. apply I; [|exact Hd]. unfold SelectP.Tsel. apply filter_In. split; assumption.
Qed.
Print Assumptions C01_errors_file_whole_rs.

(* non-vacuity of the restriction: a two-name list, one path in it, one not *)
Example C01_listed_example :
  Select.listed [[x61]; [x62; x63]] [x62; x63] = true /\ Select.listed [[x61]; [x62; x63]] [x62] = false /\ Select.active [[x61]] = true.
Proof. vm_compute. repeat split. Qed.

(* Non-vacuity of the per-file premise `found_h` (the decoder hypothesis aside): codec 3, blocks of 6 + 4 parity, header 8, a toy
   4-byte hash; a 10-byte file found with byte 1 changed: two blocks, the first with one wrong symbol (capacity 2). *)
Definition ex_hash (m : list byte) : list byte := firstn 4 (m ++ repeat x00 4).
Definition ex_F0 : list byte := [x61; x62; x63; x64; x65; x66; x67; x68; x69; x6a].
Definition ex_D : list byte := [x61; x7a; x63; x64; x65; x66; x67; x68; x69; x6a].
Example C01_found_h_example : C01Inst.found_h 3 10 ex_hash None 6 8 ex_F0 ex_D ex_F0.
Proof.
  exists [mkb 6 [x61; x7a; x63; x64; x65; x66] (ex_hash [x61; x62; x63; x64; x65; x66]) (penc 3 10 6 [x61; x62; x63; x64; x65; x66]);
          mkb 6 [x67; x68] (ex_hash [x67; x68]) (penc 3 10 6 [x67; x68])], [x69; x6a].
  split; [reflexivity|]. split; [|split; [vm_compute; reflexivity|split; reflexivity]].
  constructor; [|constructor; [|constructor]].
  - split; [repeat split|]. split; [split; cbn; repeat constructor|]. split.
    + repeat split; try (vm_compute; reflexivity).
    + intros H. vm_compute in H. discriminate.
  - split; [repeat split|]. split; [split; cbn; repeat constructor|]. split.
    + repeat split; try (vm_compute; reflexivity).
    + intros _. reflexivity.
Qed.
