(* C12 — codecs 1-3 are interchangeable (codec level).
   Property theorems only.  The uniqueness theorem is what makes the encoders interchangeable whatever their
   algorithm (long division in unireedsolomon, synthetic division in reedsolo): for the shared field
   (0x11b, generator 3, first root 1) there is exactly ONE parity that passes the shared syndrome check.
   The tool-level part of the property (ecc body equal across codecs 1-3 and across relocation / touching of the
   tree) is decided by the correspondence check on real runs, see harness/props/C12.py. *)
From Coq Require Import List Arith Bool NArith.
From Coq Require Import Strings.Byte.
From PFF Require Import Bytes GF256 RS Facade Proofs.FacadeP.
Import ListNotations.

(* any n-k bytes that make message ++ parity pass the check ARE the model's parity *)
Theorem C12_parity_unique : forall algo n selfk k m p,
  let k' := eff_k selfk k in
  n <= 255 -> k' <= n -> length m <= k' -> length p = n - k' ->
  fac_check (codec_of algo) n selfk k m p = true -> p = fac_encode (codec_of algo) n selfk k m.
Proof. intros algo n selfk k m p. exact (fac_parity_unique (codec_of algo) (codec_field algo) n selfk k m p). Qed.
Print Assumptions C12_parity_unique.

(* codecs 1, 2 and 3 select the same field, generator and first root: one encode, one check *)
Theorem C12_same_function : forall a b n selfk k m e, In a [1; 2; 3]%N -> In b [1; 2; 3]%N ->
  fac_encode (codec_of a) n selfk k m = fac_encode (codec_of b) n selfk k m /\
  fac_check (codec_of a) n selfk k m e = fac_check (codec_of b) n selfk k m e.
Proof.
  intros a b n selfk k m e Ha Hb.
  assert (E : codec_of a = codec_of b).
  { cbn [In] in Ha, Hb. destruct Ha as [<-|[<-|[<-|[]]]]; destruct Hb as [<-|[<-|[<-|[]]]]; reflexivity. }
  rewrite E. split; reflexivity.
Qed.
Print Assumptions C12_same_function.

(* hence each of codecs 1-3 accepts the others' parity, and a decoder answer accepted by one (decodes_to) for a word
   within capacity of an original encoded by another is that original *)
Theorem C12_cross : forall a b n selfk k erasures m e m0 m' e', In a [1; 2; 3]%N -> In b [1; 2; 3]%N ->
  let k' := eff_k selfk k in
  n <= 255 -> k' <= n -> length m0 <= k' -> length m = length m0 -> length e <= n - k' ->
  fac_check (codec_of b) n selfk k m0 (fac_encode (codec_of a) n selfk k m0) = true /\
  (within_capacity (codec_of a) n selfk k erasures m e m0 = true ->
   decodes_to (codec_of b) n selfk k erasures m e m' e' = true ->
   m' = m0 /\ e' = fac_encode (codec_of a) n selfk k m0).
Proof.
  intros a b n selfk k er m e m0 m' e' Ha Hb k' Hn Hk L0 Lm Le.
  assert (E : codec_of a = codec_of b).
  { cbn [In] in Ha, Hb. destruct Ha as [<-|[<-|[<-|[]]]]; destruct Hb as [<-|[<-|[<-|[]]]]; reflexivity. }
  rewrite E. split.
  - exact (fac_check_encode (codec_of b) (codec_field b) n selfk k m0).
  - exact (fac_decode_unique (codec_of b) (codec_field b) n selfk k er m e m0 m' e' Hn Hk L0 Lm Le).
Qed.
Print Assumptions C12_cross.

(* codec 4 is a different code: non-vacuity of the distinction, and an instance of the shared parity *)
Example C12_example :
  fac_encode (codec_of 1) 20 11 0 [x68;x65;x6c;x6c;x6f] = fac_encode (codec_of 3) 20 11 0 [x68;x65;x6c;x6c;x6f] /\
  fac_encode (codec_of 4) 20 11 0 [x68;x65;x6c;x6c;x6f] <> fac_encode (codec_of 3) 20 11 0 [x68;x65;x6c;x6c;x6f].
Proof. split; [reflexivity|vm_compute; discriminate]. Qed.

(* ------------------------------------------------------------------ *)
(* Tool level (Proofs/GenDet.v): the ecc file is preamble ++ body, and the body is a function of the set of
   (relative path parts, content) pairs and of the parameters only.  The generation loop is modelled as the sorted walk
   of Walk.v (recwalk, tied to the code by the C07 and C12 correspondence streams: adversarial listing order, @mirror
   tree, relocation, touched mtimes), the size / extension filter, and Stream.generate (C03/C08's entry format).
   Root location and timestamps are not inputs of the model at all; listing order is, and is proved irrelevant. *)
From PFF Require Walk Proofs.WalkP Stream Proofs.GenDet.

Theorem C12_body_deterministic :
  forall (nltb : list byte -> list byte -> bool), WalkP.strict_total nltb ->
  forall marker delim enc track keep (t1 t2 : @Walk.tree (list byte) (list byte)),
  Walk.wf t1 -> Walk.wf t2 ->
  (forall d n a, Walk.file_at d n a t1 <-> Walk.file_at d n a t2) ->          (* the same files at the same relative paths *)
  forall pre1 pre2,
    skipn (length pre1) (GenDet.ecc_file nltb marker delim enc track keep pre1 t1) =
    skipn (length pre2) (GenDet.ecc_file nltb marker delim enc track keep pre2 t2) /\
    (pre1 = pre2 -> GenDet.ecc_file nltb marker delim enc track keep pre1 t1 =
                    GenDet.ecc_file nltb marker delim enc track keep pre2 t2).
Proof.
  intros nltb NST marker delim enc track keep t1 t2.
  exact (GenDet.body_deterministic nltb NST marker delim enc track keep t1 t2).
Qed.
Print Assumptions C12_body_deterministic.

(* any re-listing of the same directories (files and sub-directories permuted at every level) *)
Theorem C12_listing_order_irrelevant :
  forall (nltb : list byte -> list byte -> bool), WalkP.strict_total nltb ->
  forall marker delim enc track keep (t1 t2 : @Walk.tree (list byte) (list byte)),
  Walk.wf t1 -> GenDet.relisted t1 t2 ->
  forall pre1 pre2,
    skipn (length pre1) (GenDet.ecc_file nltb marker delim enc track keep pre1 t1) =
    skipn (length pre2) (GenDet.ecc_file nltb marker delim enc track keep pre2 t2).
Proof.
  intros nltb NST marker delim enc track keep t1 t2.
  exact (GenDet.relisted_same_ecc nltb NST marker delim enc track keep t1 t2).
Qed.
Print Assumptions C12_listing_order_irrelevant.

(* Non-vacuity: a concrete tree (names as byte strings under Python's order = Merge.bname_ltb, a strict total order by SyncP.bname_ltb_strict_total), a re-listing of it with
   the files and sub-directory entries in another order; hypotheses met, and the walked list is the sorted one. *)
From PFF Require Merge Proofs.SyncP.
Definition ex_t1 : @Walk.tree (list byte) (list byte) :=
  Walk.Dir [([x62], [x01]); ([x61], [x02; x03])] [([x64], Walk.Dir [([x79], []); ([x78], [x04])] [])].
Definition ex_t2 : @Walk.tree (list byte) (list byte) :=
  Walk.Dir [([x61], [x02; x03]); ([x62], [x01])] [([x64], Walk.Dir [([x78], [x04]); ([x79], [])] [])].
Example C12_relisting_example :
  Walk.wf ex_t1 /\ GenDet.relisted ex_t1 ex_t2 /\
  GenDet.protected Merge.bname_ltb (fun _ => true) ex_t1 =
    [([x61], [x02; x03]); ([x62], [x01]); ([x64; x2f; x78], [x04]); ([x64; x2f; x79], [])] /\
  GenDet.protected Merge.bname_ltb (fun _ => true) ex_t2 = GenDet.protected Merge.bname_ltb (fun _ => true) ex_t1.
Proof.
  split; [|split; [|split; [vm_compute; reflexivity|vm_compute; reflexivity]]].
  - cbn. repeat split; repeat constructor; cbn; intuition discriminate.
  - unfold ex_t1, ex_t2.
    apply (GenDet.relist _ _ _ [([x64], Walk.Dir [([x78], [x04]); ([x79], [])] [])]).
    + apply Permutation.perm_swap.
    + constructor; [|constructor]. split; [reflexivity|]. cbn [snd].
      apply (GenDet.relist _ _ _ []); [apply Permutation.perm_swap|constructor|apply Permutation.perm_nil].
    + apply Permutation.Permutation_refl.
Qed.
