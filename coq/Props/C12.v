(* C12 — codecs 1-3 are interchangeable (codec level).
   Property theorems only.  The uniqueness theorem is what makes the encoders interchangeable whatever their
   algorithm (long division in unireedsolomon, synthetic division in reedsolo): for the shared field
   (0x11b, generator 3, first root 1) there is exactly ONE parity that passes the shared syndrome check.
   The tool-level part of the property (ecc body equal across codecs 1-3 and across relocation / touching of the
   tree) is decided by the correspondence check on real runs, see harness/props/C12.py. *)
From Coq Require Import List Arith Bool NArith.
From Coq Require Import Strings.Byte.
From PFF Require Import Bytes GF256 RS Facade Proofs.FacadeP.
Import ListNotations.

(* any n-k bytes that make message ++ parity pass the check ARE the model's parity *)
Theorem C12_parity_unique : forall algo n selfk k m p,
  let k' := eff_k selfk k in
  n <= 255 -> k' <= n -> length m <= k' -> length p = n - k' ->
  fac_check (codec_of algo) n selfk k m p = true -> p = fac_encode (codec_of algo) n selfk k m.
Proof. intros algo n selfk k m p. exact (fac_parity_unique (codec_of algo) (codec_field algo) n selfk k m p). Qed.
Print Assumptions C12_parity_unique.

(* codecs 1, 2 and 3 select the same field, generator and first root: one encode, one check *)
Theorem C12_same_function : forall a b n selfk k m e, In a [1; 2; 3]%N -> In b [1; 2; 3]%N ->
  fac_encode (codec_of a) n selfk k m = fac_encode (codec_of b) n selfk k m /\
  fac_check (codec_of a) n selfk k m e = fac_check (codec_of b) n selfk k m e.
Proof.
  intros a b n selfk k m e Ha Hb.
  assert (E : codec_of a = codec_of b).
  { cbn [In] in Ha, Hb. destruct Ha as [<-|[<-|[<-|[]]]]; destruct Hb as [<-|[<-|[<-|[]]]]; reflexivity. }
  rewrite E. split; reflexivity.
Qed.
Print Assumptions C12_same_function.

(* hence each of codecs 1-3 accepts the others' parity, and a decoder answer accepted by one (decodes_to) for a word
   within capacity of an original encoded by another is that original *)
Theorem C12_cross : forall a b n selfk k erasures m e m0 m' e', In a [1; 2; 3]%N -> In b [1; 2; 3]%N ->
  let k' := eff_k selfk k in
  n <= 255 -> k' <= n -> length m0 <= k' -> length m = length m0 -> length e <= n - k' ->
  fac_check (codec_of b) n selfk k m0 (fac_encode (codec_of a) n selfk k m0) = true /\
  (within_capacity (codec_of a) n selfk k erasures m e m0 = true ->
   decodes_to (codec_of b) n selfk k erasures m e m' e' = true ->
   m' = m0 /\ e' = fac_encode (codec_of a) n selfk k m0).
Proof.
  intros a b n selfk k er m e m0 m' e' Ha Hb k' Hn Hk L0 Lm Le.
  assert (E : codec_of a = codec_of b).
  { cbn [In] in Ha, Hb. destruct Ha as [<-|[<-|[<-|[]]]]; destruct Hb as [<-|[<-|[<-|[]]]]; reflexivity. }
  rewrite E. split.
  - exact (fac_check_encode (codec_of b) (codec_field b) n selfk k m0).
  - exact (fac_decode_unique (codec_of b) (codec_field b) n selfk k er m e m0 m' e' Hn Hk L0 Lm Le).
Qed.
Print Assumptions C12_cross.

(* codec 4 is a different code: non-vacuity of the distinction, and an instance of the shared parity *)
Example C12_example :
  fac_encode (codec_of 1) 20 11 0 [x68;x65;x6c;x6c;x6f] = fac_encode (codec_of 3) 20 11 0 [x68;x65;x6c;x6c;x6f] /\
  fac_encode (codec_of 4) 20 11 0 [x68;x65;x6c;x6c;x6f] <> fac_encode (codec_of 3) 20 11 0 [x68;x65;x6c;x6c;x6f].
Proof. split; [reflexivity|vm_compute; discriminate]. Qed.
