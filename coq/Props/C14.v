(* C14 — entry scanning returns each entry exactly once with exact bounds.
   Property theorems only; proofs are in Proofs/ScanP.v.

   m = entry marker (any non-empty byte string), s = the ecc stream, p = file position at the first call,
   bs = blocksize argument (ANY natural number: values <= |m| are raised to |m|+1 by the function itself),
   only_coord = return mode.  [scan_all] = get_next_entry called on the same handle until it returns None;
   it lists every returned value together with file.tell() after the call. *)
From Coq Require Import List Arith Bool.
From Coq Require Import Strings.Byte.
From PFF Require Import Bytes Scan Proofs.ScanP.
Import ListNotations.

(* The calls return, in order, exactly the entries of the specification (one per marker met from p on,
   from the end of that marker to the beginning of the next one or the end of the stream): the coordinates in
   only_coord mode (file left at the entry's first byte), the very bytes of the span otherwise (file left at the
   entry's end), then None (file left at max p |s|) — for every block size and every start position. *)
Theorem C14_scan_spec : forall m only_coord bs s p, m <> [] ->
  scan_all m only_coord bs s p = scan_spec m only_coord s p.
Proof. exact scan_all_spec. Qed.
Print Assumptions C14_scan_spec.

(* One call, from any file position: the first marker at or after the position, the next marker after its end. *)
Theorem C14_call_spec : forall m only_coord bs s pos, m <> [] ->
  get_next_entry m only_coord bs s pos =
  match find m s pos with
  | Some c => let a := c + length m in
              let e := match find m s a with Some e => e | None => length s end in
              render only_coord s (a, e)
  | None => (RNone, Nat.max pos (length s))
  end.
Proof. exact get_next_entry_spec. Qed.
Print Assumptions C14_call_spec.

(* Hence the block size is unobservable. *)
Theorem C14_block_size_independent : forall m only_coord bs1 bs2 s p, m <> [] ->
  scan_all m only_coord bs1 s p = scan_all m only_coord bs2 s p.
Proof. intros. rewrite !scan_all_spec by assumption. reflexivity. Qed.
Print Assumptions C14_block_size_independent.

(* The specification cuts at full marker occurrences and nowhere else (see [exact_split] in Scan.v): nothing that
   merely resembles a part of the marker ends or begins an entry, no entry runs over a full marker; and it is the
   only list of spans with that property. *)
Theorem C14_partial_marker : forall m s p, m <> [] ->
  exact_split m s p (entries_spec m s p) /\
  forall l, exact_split m s p l -> l = entries_spec m s p.
Proof.
  intros m s p Hm. split; [exact (entries_exact m s p Hm)|].
  intros l H. exact (exact_split_unique m s p l Hm H).
Qed.
Print Assumptions C14_partial_marker.

(* A stream built from a preamble and entries, each entry preceded by the marker, in which no accidental full
   marker arises ([chain_ok]; the pieces may begin and end with any proper part of the marker): the entries found
   are exactly the built-in ones, at their positions, with their bytes. *)
Theorem C14_built : forall m pre es, m <> [] -> chain_ok m pre es ->
  entries_spec m (build m pre es) 0 = layout (length m) (length pre) es /\
  map (slice (build m pre es)) (entries_spec m (build m pre es) 0) = es.
Proof. exact built_spec. Qed.
Print Assumptions C14_built.

(* Truncating the stream to its first k bytes: entries whose start marker is cut disappear, the last remaining one
   ends at k, every entry whose end marker lies wholly before the cut is unchanged. *)
Theorem C14_prefix_stable : forall m s k p, m <> [] -> k <= length s ->
  entries_spec m (firstn k s) p = clip_entries (length m) k (entries_spec m s p).
Proof. exact prefix_stable. Qed.
Print Assumptions C14_prefix_stable.

Theorem C14_prefix_stable_entry : forall m s k p a e, m <> [] -> k <= length s ->
  In (a, e) (entries_spec m s p) -> e + length m <= k -> In (a, e) (entries_spec m (firstn k s) p).
Proof. exact prefix_stable_entry. Qed.
Print Assumptions C14_prefix_stable_entry.

(* Replacing the bytes of one entry by as many bytes that create no marker moves no entry and changes the
   content of that entry only. *)
Theorem C14_local : forall m pre es1 e e' es2, m <> [] ->
  chain_ok m pre (es1 ++ e :: es2) -> chain_ok m pre (es1 ++ e' :: es2) -> length e' = length e ->
  entries_spec m (build m pre (es1 ++ e' :: es2)) 0 = entries_spec m (build m pre (es1 ++ e :: es2)) 0 /\
  map (slice (build m pre (es1 ++ e :: es2))) (entries_spec m (build m pre (es1 ++ e :: es2)) 0) = es1 ++ e :: es2 /\
  map (slice (build m pre (es1 ++ e' :: es2))) (entries_spec m (build m pre (es1 ++ e' :: es2)) 0) = es1 ++ e' :: es2.
Proof. exact local_spec. Qed.
Print Assumptions C14_local.

(* For a marker without proper self-overlap every occurrence from p on begins an entry.  For a marker WITH
   self-overlap (the real one, below) an occurrence that begins inside the previously found one is not seen:
   that is what [marker_positions] / [exact_split] say, and what the code does. *)
Theorem C14_border_free_all : forall m s p j, m <> [] -> border_free m = true ->
  p <= j -> occ m s j -> In (j + length m) (map fst (entries_spec m s p)).
Proof. exact border_free_all. Qed.
Print Assumptions C14_border_free_all.

(* ---- the real marker ---- *)

(* FE FF x5 is NOT free of self-overlap (its period is 2): FE FF x6 contains it at offsets 0 and 2. *)
Example real_marker_self_overlaps : border_free real_marker = false.
Proof. vm_compute. reflexivity. Qed.

Example real_marker_overlapping_run :
  entries_spec real_marker ([x61] ++ real_marker ++ [xfe; xff; x62]) 0 = [(11, 14)] /\
  scan_all real_marker false 11 ([x61] ++ real_marker ++ [xfe; xff; x62]) 0 = [(RBytes [xfe; xff; x62], 14); (RNone, 14)].
Proof. vm_compute. split; reflexivity. Qed.

(* ---- non-vacuity ---- *)

(* the stream of DESIGN.md section 4 (p^6 M A^20 M B^30 M C^5) with the block size that used to merge entries *)
Example C14_example_bs16 :
  let s := repeat x70 6 ++ real_marker ++ repeat x41 20 ++ real_marker ++ repeat x42 30 ++ real_marker ++ repeat x43 5 in
  scan_all real_marker true 16 s 0 = [(RCoord 16 36, 16); (RCoord 46 76, 46); (RCoord 86 91, 86); (RNone, 91)] /\
  scan_all real_marker false 12 s 40 = [(RBytes (repeat x43 5), 91); (RNone, 91)].
Proof. vm_compute. split; reflexivity. Qed.

(* pieces that begin and end with proper parts of the marker satisfy chain_ok; the scan returns them untouched *)
Example C14_example_partial_runs :
  let pre := [xfe; xff; xfe] in
  let e1 := [xff; xfe; xff; xfe; xfe; x61; xfe; xff; xfe; xff; xfe] in
  let e2 := [xff; xff; xfe; xff; xfe; xff; xfe; xff; xfe] in
  chain_ok real_marker pre [e1; e2] /\
  scan_all real_marker false 11 (build real_marker pre [e1; e2]) 0 = [(RBytes e1, 24); (RBytes e2, 43); (RNone, 43)].
Proof. vm_compute. repeat split; reflexivity. Qed.
