(* C13 — every prefix of an ecc file is a usable ecc file.  Property theorems only; proofs in Proofs/StreamP.v. *)
From Coq Require Import List Arith Bool ZArith.
From Coq Require Import Strings.Byte.
From PFF Require Import Bytes Stream Proofs.StreamP.
Import ListNotations.

(* E = entries of the complete stream.  The stream cut at any offset c has the first k entries of E unchanged,
   then at most one more entry, which starts where entry k of E starts and ends at the cut (= end of stream);
   an entry of E is among the first k exactly when its closing marker lies wholly before the cut. *)
Theorem C13_scan_prefix : forall m db c, m <> [] -> c <= length db ->
  let E := entries_spec m db in
  exists k last,
    entries_spec m (firstn c db) = firstn k E ++ last /\ k <= length E /\
    (last = [] \/ exists s e, nth_error E k = Some (s, e) /\ last = [(s, c)] /\ s <= c /\ c < e + length m) /\
    (forall i s e, nth_error E i = Some (s, e) -> e + length m <= c -> i < k) /\
    (forall i s e, nth_error E i = Some (s, e) -> i < k -> e + length m <= c).
Proof. exact scan_prefix. Qed.
Print Assumptions C13_scan_prefix.

(* Header tool: the per-entry results of the cut stream are those of the complete stream for the first k
   entries (all entries wholly before the cut), followed by at most one result for the incomplete entry. *)
Theorem C13_complete_entries_h : forall marker delim ignore_size look intra blocksH, marker <> [] ->
  forall db c, c <= length db ->
  let rh := results_h marker delim ignore_size look intra blocksH in
  exists k tail, rh (firstn c db) = firstn k (rh db) ++ tail /\ length tail <= 1 /\
    (forall i s e, nth_error (entries_spec marker db) i = Some (s, e) -> e + length marker <= c -> i < k).
Proof. intros. apply prefix_h; assumption. Qed.
Print Assumptions C13_complete_entries_h.

(* Whole tool: an intact entry wholly before the cut has the same result (the bytes after the cut are never
   needed: fields and block reads stay inside the entry). *)
Theorem C13_complete_entries_w : forall marker delim ignore_size look intra window
  (blocksW : list byte -> nat -> nat -> Z -> list byte -> bres * nat) (inside : list byte -> Z -> list byte -> Prop), marker <> [] ->
  (forall db1 t1 e1 db2 t2 e2 tr sz file, sub db1 t1 e1 = tr -> sub db2 t2 e2 = tr -> inside tr sz file ->
     fst (blocksW db1 t1 e1 sz file) = fst (blocksW db2 t2 e2 sz file)) ->
  forall db c i s e, c <= length db ->
  nth_error (entries_spec marker db) i = Some (s, e) -> e + length marker <= c ->
  intact_w delim ignore_size look intra window inside (sub db s e) ->
  let rw := results_w marker delim ignore_size look intra window blocksW in
  exists r, nth_error (rw db) i = Some r /\ nth_error (rw (firstn c db)) i = Some r.
Proof. intros. eapply prefix_w; eassumption. Qed.
Print Assumptions C13_complete_entries_w.

(* Every cut offset 0..|db| (inside the preamble, a marker, any field, between hash and parity): the run returns. *)
Theorem C13_terminates : forall marker delim ignore_size look intra blocksH window blocksW,
  (forall t z f, blocksH t z f <> BCrash) -> (forall db t e z f, fst (blocksW db t e z f) <> BCrash) ->
  forall db c, c <= length db ->
    run_h marker delim ignore_size look intra blocksH (firstn c db) <> Crash /\
    run_w marker delim ignore_size look intra window blocksW (firstn c db) <> Crash.
Proof.
  intros marker delim ig look intra bH w bW HH HW db c _. split.
  - apply run_h_no_crash. exact HH.
  - apply run_w_no_crash. exact HW.
Qed.
Print Assumptions C13_terminates.

(* The input tree is only read: whatever a run (on any stream, cut or not) leaves in the output folder sits at the
   relative path of an existing input file; there is no other store in the model. *)
Theorem C13_inputs_untouched : forall marker delim ignore_size look intra blocksH window blocksW db c outs ex p b,
  (run_h marker delim ignore_size look intra blocksH db = Done c outs ex \/
   run_w marker delim ignore_size look intra window blocksW db = Done c outs ex) ->
  In (p, b) outs -> exists file, look p = Some file.
Proof.
  intros until b. intros [H|H] Hin; [eapply writes_h|eapply writes_w]; eassumption.
Qed.
Print Assumptions C13_inputs_untouched.

(* Non-vacuity: a 3-entry stream cut inside the second marker and inside the third entry. *)
Example C13_example :
  let m := [x4d; x4e] in
  let db := [x23] ++ m ++ [x61; x61] ++ m ++ [x62] ++ m ++ [x63; x63; x63] in
  entries_spec m db = [(3, 5); (7, 8); (10, 13)] /\
  entries_spec m (firstn 6 db) = [(3, 6)] /\ entries_spec m (firstn 5 db) = [(3, 5)] /\
  entries_spec m (firstn 11 db) = [(3, 5); (7, 8); (10, 11)] /\ entries_spec m (firstn 2 db) = [].
Proof. vm_compute. repeat split. Qed.

(* ------------------------------------------------------------------ *)
(* With the Pipeline model as the block stage (C03Inst.blocksH_pipe / blocksW_pipe) the two hypotheses above are theorems:
   the composed block stage never raises (bres_of has no crash result: every exception of the third-party decoder is the
   `None` answer of the oracle, which the model turns into the verdict Failed), and it reads only inside the entry's track
   (Proofs/PipelineLocal.v).  So for the composed model: every cut offset terminates, and every intact entry wholly before
   the cut whose track has the regular length is verified / repaired exactly as with the complete ecc file. *)
From PFF Require Proofs.C03Inst Proofs.PipelineClean Proofs.PipelineLocal.

Lemma bres_of_no_crash r : PipelineClean.bres_of r <> BCrash.
Proof. unfold PipelineClean.bres_of. destruct (Pipeline.f_class r); discriminate. Qed.

Theorem C13_terminates_pipe :
  forall (algo : N) (mb : nat) hash hlen bdec (o : option byte) fast ms hdr (mu : nat -> nat -> nat)
         marker delim ignore_size look intra window db c, c <= length db ->
    run_h marker delim ignore_size look intra (C03Inst.blocksH_pipe algo mb hash hlen bdec o fast ms hdr) (firstn c db) <> Crash /\
    run_w marker delim ignore_size look intra window (C03Inst.blocksW_pipe algo mb hash hlen bdec o fast mu) (firstn c db) <> Crash.
Proof.
  intros. apply C13_terminates; [| |assumption].
  - intros t z f. apply bres_of_no_crash.
  - intros d t e z f. cbn [fst C03Inst.blocksW_pipe]. apply bres_of_no_crash.
Qed.
Print Assumptions C13_terminates_pipe.

Theorem C13_complete_entries_w_pipe :
  forall (algo : N) (mb : nat) hash hlen bdec (o : option byte) fast (mu : nat -> nat -> nat),
  (forall s c, 1 <= mu s c) -> (forall s c, 1 <= hlen + (mb - mu s c)) ->
  let blocksW := C03Inst.blocksW_pipe algo mb hash hlen bdec o fast mu in
  let inside := PipelineLocal.inside_pipe mb hlen mu in
  forall marker delim ignore_size look intra window, marker <> [] ->
  forall db c i s e, c <= length db ->
  nth_error (entries_spec marker db) i = Some (s, e) -> e + length marker <= c ->
  intact_w delim ignore_size look intra window inside (sub db s e) ->
  let rw := results_w marker delim ignore_size look intra window blocksW in
  exists r, nth_error (rw db) i = Some r /\ nth_error (rw (firstn c db)) i = Some r.
Proof.
  intros algo mb hash hlen bdec o fast mu MP TP blocksW inside marker delim ignore_size look intra window Hm.
  apply (C13_complete_entries_w marker delim ignore_size look intra window blocksW inside Hm).
  intros db1 t1 e1 db2 t2 e2 tr sz file S1 S2 I.
  exact (PipelineLocal.blocksW_pipe_local algo mb hash hlen bdec o fast mu MP TP db1 t1 e1 db2 t2 e2 tr sz file S1 S2 I).
Qed.
Print Assumptions C13_complete_entries_w_pipe.
