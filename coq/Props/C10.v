(* C10 — block layout agrees between generation and correction for every file size.
   Property theorems only; proofs are in Proofs/LayoutP.v.  All statements hold for an
   ARBITRARY size function mu (offset -> message size) with mu >= 1; the concrete float rule
   (Layout.msize, Layout.mu_whole) is what the correspondence check pins to the code. *)
From Coq Require Import List Arith Bool.
From PFF Require Import Layout Proofs.LayoutP.
Import ListNotations.

(* Generation partition of the whole-file tool: blocks chain from offset 0 to the file size,
   each of length min(mu(offset), remaining) >= 1 with parity mb - mu(offset) (also for the
   last, short block); lengths sum to the size; every offset lies in exactly one block. *)
Theorem C10_tiles : forall mu mb size, (forall o, 1 <= mu o) ->
  chain mu mb 0 size (gen mu mb size) /\
  mlen_sum (gen mu mb size) = size /\
  (forall x, x < size -> length (filter (inside x) (gen mu mb size)) = 1) /\
  (forall o l p, In (o, l, p) (gen mu mb size) ->
     o < size /\ l = Nat.min (mu o) (size - o) /\ 1 <= l /\ p = mb - mu o).
Proof.
  intros mu mb size H. split; [exact (gen_chain mu mb H size)|].
  destruct (gen_tiles mu mb H size) as [H1 H2]. split; [exact H1|]. split; [exact H2|].
  exact (gen_rule mu mb H size).
Qed.
Print Assumptions C10_tiles.

(* Correction side (loop driven by the ecc cursor, reads bounded by the ecc file) on the
   pristine file and the exact stored track yields the identical partition, wherever the
   track sits in the ecc file. *)
Theorem C10_agree : forall mu mb hlen,
  (forall o, 1 <= mu o) -> (forall o, 1 <= hlen + (mb - mu o)) ->
  forall size estart etotal,
  estart + track_len hlen (gen mu mb size) <= etotal ->
  corr mu mb hlen size estart (estart + track_len hlen (gen mu mb size)) etotal = gen mu mb size.
Proof. exact corr_agrees. Qed.
Print Assumptions C10_agree.

(* The stored track of consecutive block lists is the concatenation of their tracks
   (hash length + parity length per block). *)
Theorem C10_track : forall hlen a b, track_len hlen (a ++ b) = track_len hlen a + track_len hlen b.
Proof. exact track_len_app. Qed.
Print Assumptions C10_track.

(* Header tool: the generation partition is the same rule with a constant message size over the
   first min(size, header size) bytes ... *)
Theorem C10_header_tiles : forall ms mb, 1 <= ms -> forall size hdr,
  hdr_gen ms mb size hdr = gen (fun _ => ms) mb (Nat.min size hdr).
Proof. exact hdr_gen_is_gen. Qed.
Print Assumptions C10_header_tiles.

(* ... and entry_assemble (zip of two ranges) recovers exactly that partition from the exact
   track, for every recorded size including 0 and sizes >= the header size. *)
Theorem C10_header_agree : forall ms mb hlen, 1 <= ms -> 1 <= hlen + (mb - ms) -> forall size hdr,
  hdr_corr ms mb hlen size size hdr (track_len hlen (hdr_gen ms mb size hdr)) = hdr_gen ms mb size hdr.
Proof. exact hdr_corr_agrees. Qed.
Print Assumptions C10_header_agree.

(* Non-vacuity / the float rule at work (tests, not theorems): 255/(1+2*0.3) = 159.375 -> 159;
   a tie: 3/(1+2*0.5) = 1.5 -> 2 (half-even); 5/(1+2*0.5) = 2.5 -> 2. *)
From Coq Require Import ZArith PrimFloat.
Example C10_msize_examples :
  (msize 255 0x1.3333333333333p-2%float, msize 3 0x1p-1%float, msize 5 0x1p-1%float) = (159%Z, 2%Z, 2%Z).
Proof. vm_compute. reflexivity. Qed.
Example C10_example :
  gen (fun o => if o <? 4 then 3 else 5) 8 11 = [(0, 3, 5); (3, 3, 5); (6, 5, 3)].
Proof. vm_compute. reflexivity. Qed.
