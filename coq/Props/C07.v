(* C07 — replica trees are aligned: `pff dup` processes every relative path of the union of the
   replicas exactly once, with exactly the replicas that contain it, all of them together.
   Property theorems only; proofs are in Proofs/WalkP.v, Proofs/MergeP.v, Proofs/SyncP.v.
   Models: Walk.v (recwalk), Merge.v (sort_dict_of_paths / sort_group / synchronize_files after
   the fix of the sort key), Vote.v (majority_vote_byte_scan, C06). *)
From Coq Require Import List Arith Bool Sorted NArith.
From Coq Require Import Strings.Byte.
From PFF Require Import Bytes Vote Walk Merge Proofs.VoteP Proofs.WalkP Proofs.MergeP Proofs.SyncP.
Import ListNotations.

(* The alignment loop of synchronize_files, generic in the path type P, the sort key
   `key : P -> K`, a strict total order `klt` on keys (decided by a boolean test) and the
   equality test `eqb` used for grouping; `dom` is the set of paths on which the key is
   injective.  If every folder's walk is strictly increasing, the loop ends normally within its
   fuel after at most (sum of the lengths) iterations, the processed paths are the strictly
   increasing union of the walks (hence each path exactly once), and each path is processed
   with exactly the folders whose walk contains it. *)
Theorem C07_merge_correct :
  forall (P K : Type) (key : P -> K) (klt : K -> K -> bool) (eqb : P -> P -> bool) (dom : P -> Prop),
    strict_total klt ->
    (forall x y, dom x -> dom y -> key x = key y -> x = y) ->
    (forall x y, reflect (x = y) (eqb x y)) ->
    forall ws : list (list P),
      Forall (StronglySorted (plt key klt)) ws -> Forall (Forall dom) ws ->
      exists rows, merge key klt eqb ws = (rows, Done) /\
        length rows <= total_len ws /\
        StronglySorted (plt key klt) (map fst rows) /\
        (forall p, In p (map fst rows) <-> exists w, In w ws /\ In p w) /\
        (forall p hs, In (p, hs) rows -> hs = holders eqb p ws).
Proof. exact (@merge_correct). Qed.
Print Assumptions C07_merge_correct.

(* `holders p ws` is the increasing list of exactly the indices of the walks containing p. *)
Theorem C07_holders :
  forall (P : Type) (eqb : P -> P -> bool), (forall x y, reflect (x = y) (eqb x y)) ->
  forall (p : P) (ws : list (list P)),
    StronglySorted lt (holders eqb p ws) /\
    forall i, In i (holders eqb p ws) <-> exists w, nth_error ws i = Some w /\ In p w.
Proof.
  intros P eqb Hs p ws. split; [apply holders_sorted|]. intros i. apply holders_In. exact Hs.
Qed.
Print Assumptions C07_holders.

(* The sorted recursive walk (files of a directory sorted, then its sub-directories sorted,
   depth first) lists the files of a tree with unique names per directory in strictly
   increasing walk_ltb order on (directory parts, name), and lists exactly the files of the tree. *)
Theorem C07_walk_sorted :
  forall (name A : Type) (nltb : name -> name -> bool), strict_total nltb ->
  forall t : @tree name A, wf t -> StronglySorted (entry_lt nltb) (walk nltb t).
Proof. exact (@walk_sorted). Qed.
Print Assumptions C07_walk_sorted.

Theorem C07_walk_complete :
  forall (name A : Type) (nltb : name -> name -> bool) (t : @tree name A) d n a,
    In (d, n, a) (walk nltb t) <-> file_at d n a t.
Proof. exact (@walk_In). Qed.
Print Assumptions C07_walk_complete.

(* The comparison of the (fixed) code is the walk order: on the parts of a real path the key is
   (directory parts, file name); left padding with '' does not change it; and paths padded to a
   common length are equal lists exactly when they are the same path. *)
Theorem C07_code_key :
  forall (d : list bname) (n : bname) k, valid [] (d ++ [n]) ->
    bpath_key (d ++ [n]) = (d, n) /\
    bpath_key (pad [] k (d ++ [n])) = (d, n) /\
    forall q, valid [] q -> pad [] k (d ++ [n]) = pad [] k q -> d ++ [n] = q.
Proof.
  intros d n k V. unfold bpath_key. split; [|split].
  - apply (code_key_parts bname_empty [] bname_empty_spec). exact V.
  - transitivity (code_key bname_empty [] (d ++ [n])).
    + exact (code_key_pad bname_empty [] bname_empty_spec k _ V).
    + apply (code_key_parts bname_empty [] bname_empty_spec). exact V.
  - intros q Vq. apply (pad_inj bname_empty [] bname_empty_spec); assumption.
Qed.
Print Assumptions C07_code_key.

(* `pff dup` on any list of replica trees (unique names per directory, non-empty names), for any
   read block size: the run ends normally; the report has one row per relative path of the union
   of the replicas and no other row; the row of a path names exactly the replicas holding that
   path, in increasing order; and what is written for the path is the result for the list of
   all its copies in replica order (a single copy is copied; otherwise majority_vote_byte_scan,
   whose < 3 copies branch is C06's clause). *)
Theorem C07_aligned :
  forall bs (ts : list btree), Forall wf ts -> Forall valid_names ts ->
  exists rows, dup bs ts = (rows, Done) /\
    length rows <= total_files ts /\
    NoDup (map rpath rows) /\
    (forall p, In p (map rpath rows) <-> exists t c, In t ts /\ holds t p c) /\
    (forall p hs c s, In (p, hs, c, s) rows ->
       (forall i, In i hs <-> exists t c', nth_error ts i = Some t /\ holds t p c') /\
       StronglySorted lt hs /\
       (c, s) = out_spec byte_eqb bs (copies_in p ts)).
Proof. exact dup_aligned. Qed.
Print Assumptions C07_aligned.

(* copies_in lists, in replica order, the content of p in every replica that holds p. *)
Theorem C07_copies :
  forall p (t : btree) ts, wf t -> valid_names t ->
    (forall c, holds t p c -> copies_in p (t :: ts) = c :: copies_in p ts) /\
    ((forall c, ~ holds t p c) -> copies_in p (t :: ts) = copies_in p ts) /\
    copies_in p [] = [].
Proof.
  intros p t ts W V. split; [|split].
  - intros c H. apply copies_in_cons; assumption.
  - intros H. apply copies_in_skip; assumption.
  - reflexivity.
Qed.
Print Assumptions C07_copies.

(* A path held by at least three replicas, whose copies carry orig's byte in a strict majority
   at every offset they reach and of which the longest has orig's length, is written exactly as
   orig with status 0, by exactly one row — whatever other files exist, at whatever depths, in
   whichever replicas (uses C06: vote_chunked_spec, vote_spec_majority). *)
Theorem C07_restore :
  forall bs (ts : list btree) p orig,
    Forall wf ts -> Forall valid_names ts -> 0 < bs ->
    3 <= length (copies_in p ts) ->
    length orig = maxlen (copies_in p ts) ->
    (forall i x, nth_error orig i = Some x ->
       length (column i (copies_in p ts)) < 2 * cnt byte_eqb x (column i (copies_in p ts))) ->
    exists rows hs, dup bs ts = (rows, Done) /\
      In (p, hs, orig, 0) rows /\
      (forall r, In r rows -> rpath r = p -> r = (p, hs, orig, 0)).
Proof. exact dup_restore. Qed.
Print Assumptions C07_restore.

(* ---------- non-vacuity and the pre-fix comparison ---------- *)
Definition nm_a : bname := [x61].  Definition nm_b : bname := [x62].  Definition nm_c : bname := [x63].
Definition nm_f : bname := [x66].  Definition nm_g : bname := [x67].
Definition hello : list byte := [x68; x65; x6c; x6c; x6f].
Definition hellp : list byte := [x68; x65; x6c; x6c; x70].
(* replica 1 = {c/g, a/b/f} (listed in that order), replicas 2 and 3 = {c/g} *)
Definition t1 : btree := Dir [] [(nm_c, Dir [(nm_g, hello)] []); (nm_a, Dir [] [(nm_b, Dir [(nm_f, hello)] [])])].
Definition t2 : btree := Dir [] [(nm_c, Dir [(nm_g, hellp)] [])].
Definition t3 : btree := Dir [] [(nm_c, Dir [(nm_g, hello)] [])].

Example C07_example :
  map fst (replica_of t1) = [[nm_a; nm_b; nm_f]; [nm_c; nm_g]] /\
  dup 4 [t1; t2; t3] = ([([nm_a; nm_b; nm_f], [0], hello, 0); ([nm_c; nm_g], [0; 1; 2], hello, 0)], Done).
Proof. vm_compute. split; reflexivity. Qed.

Example C07_example_hyps : Forall wf [t1; t2; t3] /\ Forall valid_names [t1; t2; t3].
Proof.
  split.
  - repeat constructor; simpl; intuition (try discriminate); repeat constructor; simpl; intuition discriminate.
  - repeat constructor; intros e He; vm_compute in He;
      repeat (destruct He as [<-|He]; [repeat constructor; discriminate|]); destruct He.
Qed.

(* About the code BEFORE the fix (documentation of the defect that was repaired): the original
   sort_dict_of_paths compared the part lists left-padded with '' to a common length
   (cmp_padded).  That order puts c/g before a/b/f although the walk yields a/b/f first, and the
   same loop run with it processes c/g twice: once over replicas 2 and 3, once alone from
   replica 1 — not "all of them together and once". *)
Example C07_old_order_refuted :
  cmp_padded bname_ltb [] [nm_c; nm_g] [nm_a; nm_b; nm_f] = true /\
  bkey_ltb (bpath_key [nm_a; nm_b; nm_f]) (bpath_key [nm_c; nm_g]) = true /\
  merge (fun p : list bname => p) (cmp_padded bname_ltb []) bpath_eqb
        (map (fun t => map fst (replica_of t)) [t1; t2; t3])
  = ([([nm_c; nm_g], [1; 2]); ([nm_a; nm_b; nm_f], [0]); ([nm_c; nm_g], [0])], Done).
Proof. vm_compute. repeat split; reflexivity. Qed.
