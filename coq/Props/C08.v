(* C08 — ecc entries are independent: damage confined to one entry never stops the run and never changes the
   result of another entry.  Property theorems only; proofs are in Proofs/StreamP.v.
   Model: Stream.v (entry loop of both tools after the fixes af213e5 and 5a25c60; scanning by its spec). *)
From Coq Require Import List Arith Bool ZArith.
From Coq Require Import Strings.Byte.
From PFF Require Import Bytes Stream Proofs.StreamP.
Import ListNotations.

(* Every stream is its preamble and entry texts joined by the marker, each piece "clean": the first marker
   occurrence in piece++marker is the appended one (no occurrence inside, none formed with the neighbouring
   marker bytes), and conversely the entries of such a join are exactly its pieces, at the positions `spans`. *)
Theorem C08_scan_pieces : forall m db, m <> [] ->
  exists p0 cs, db = join m (p0 :: cs) /\ clean_pieces m (p0 :: cs) /\
    entries_spec m db = spans m (length p0 + length m) cs /\
    map (fun se => sub db (fst se) (snd se)) (entries_spec m db) = cs.
Proof.
  intros m db Hm. destruct (decompose m db Hm) as (p0 & cs & E & C). exists p0, cs.
  split; [exact E|]. split; [exact C|]. rewrite E. rewrite (scan_join m p0 cs Hm C). split; [reflexivity|apply spans_contents].
Qed.
Print Assumptions C08_scan_pieces.

(* Replacing the bytes of one entry text c by arbitrary bytes g of arbitrary length (clean in that position)
   changes the entry list only at that index: same number of entries, every other entry text identical. *)
Theorem C08_scan_local : forall m p0 cs1 c g cs2,
  m <> [] -> clean_pieces m (p0 :: cs1 ++ c :: cs2) ->
  (cs2 = [] -> clean_last m g) -> (cs2 <> [] -> clean_mid m g) ->
  let db := join m (p0 :: cs1 ++ c :: cs2) in
  let db' := join m (p0 :: cs1 ++ g :: cs2) in
  entries_spec m db = spans m (length p0 + length m) (cs1 ++ c :: cs2) /\
  entries_spec m db' = spans m (length p0 + length m) (cs1 ++ g :: cs2) /\
  map (fun se => sub db (fst se) (snd se)) (entries_spec m db) = cs1 ++ c :: cs2 /\
  map (fun se => sub db' (fst se) (snd se)) (entries_spec m db') = cs1 ++ g :: cs2.
Proof. exact scan_local_content. Qed.
Print Assumptions C08_scan_local.

(* No exception escapes the entry loop of either tool, for any stream bytes, as long as the per-block stage
   (parameter; Pipeline) raises none: unusable size fields, NUL in the path, missing files, absent delimiters
   (find = -1), empty entries are all reported and skipped. *)
Theorem C08_no_crash : forall marker delim ignore_size look intra blocksH window blocksW,
  (forall t z f, blocksH t z f <> BCrash) -> (forall db t e z f, fst (blocksW db t e z f) <> BCrash) ->
  forall db, run_h marker delim ignore_size look intra blocksH db <> Crash /\
             run_w marker delim ignore_size look intra window blocksW db <> Crash.
Proof.
  intros marker delim ig look intra bH w bW HH HW db. split.
  - apply run_h_no_crash. exact HH.
  - apply run_w_no_crash. exact HW.
Qed.
Print Assumptions C08_no_crash.

(* Whole tool: whatever the processing of an entry does with the stream cursor, the next scan starts exactly at
   the end of that entry, so the loop visits exactly the entries of the spec. *)
Theorem C08_cursor : forall marker delim ignore_size look intra window blocksW db,
  cursors_ok 0 (trace_w marker delim ignore_size look intra window blocksW db) /\
  map (fun t => snd (fst t)) (trace_w marker delim ignore_size look intra window blocksW db) = entries_spec marker db.
Proof.
  intros. split; [apply loop_w_cursors|apply trace_w_spans].
Qed.
Print Assumptions C08_cursor.

(* Header tool: with the victim's text replaced, the per-entry results are the same list except at the victim. *)
Theorem C08_independent_h : forall marker delim ignore_size look intra blocksH p0 cs1 c g cs2,
  marker <> [] -> clean_pieces marker (p0 :: cs1 ++ c :: cs2) ->
  (cs2 = [] -> clean_last marker g) -> (cs2 <> [] -> clean_mid marker g) ->
  let eh := entry_h delim ignore_size look intra blocksH in
  results_h marker delim ignore_size look intra blocksH (join marker (p0 :: cs1 ++ c :: cs2)) = map eh cs1 ++ eh c :: map eh cs2 /\
  results_h marker delim ignore_size look intra blocksH (join marker (p0 :: cs1 ++ g :: cs2)) = map eh cs1 ++ eh g :: map eh cs2.
Proof. intros. apply independent_h; assumption. Qed.
Print Assumptions C08_independent_h.

(* Whole tool: every other entry whose text is intact (four delimiters inside, metadata within the read window,
   block reads inside its own track) yields the same result with the damaged stream as with the pristine one. *)
Theorem C08_independent_w : forall marker delim ignore_size look intra window
  (blocksW : list byte -> nat -> nat -> Z -> list byte -> bres * nat) (inside : list byte -> Z -> list byte -> Prop),
  marker <> [] ->
  (forall db1 t1 e1 db2 t2 e2 tr sz file, sub db1 t1 e1 = tr -> sub db2 t2 e2 = tr -> inside tr sz file ->
     fst (blocksW db1 t1 e1 sz file) = fst (blocksW db2 t2 e2 sz file)) ->
  forall p0 cs1 c g cs2, clean_pieces marker (p0 :: cs1 ++ c :: cs2) ->
  (cs2 = [] -> clean_last marker g) -> (cs2 <> [] -> clean_mid marker g) ->
  forall j cj, nth_error (cs1 ++ c :: cs2) j = Some cj -> j <> length cs1 ->
  intact_w delim ignore_size look intra window inside cj ->
  let rw := results_w marker delim ignore_size look intra window blocksW in
  length (rw (join marker (p0 :: cs1 ++ g :: cs2))) = length (rw (join marker (p0 :: cs1 ++ c :: cs2))) /\
  exists r, nth_error (rw (join marker (p0 :: cs1 ++ c :: cs2))) j = Some r /\
            nth_error (rw (join marker (p0 :: cs1 ++ g :: cs2))) j = Some r.
Proof. intros. eapply independent_w; eassumption. Qed.
Print Assumptions C08_independent_w.

(* Non-vacuity and the repaired defect: without the re-seek (the code before af213e5) an entry whose text was lost
   makes the loop jump into the next entry and miss it; with it all three entries are visited. *)
Definition ex_marker := [x4d]. Definition ex_delim := [x7c].
Definition ex_db : list byte :=
  [x23] ++ ex_marker ++ [] ++ ex_marker ++ [x61;x7c;x31;x7c;x78;x7c;x79;x7c;x54;x54] ++ ex_marker ++ [x62;x7c;x31;x7c;x78;x7c;x79;x7c;x54].
Example C08_example_old_loop_loses_an_entry :
  map (fun t => snd (fst t)) (loop_w ex_marker ex_delim false (fun _ => None) (fun f _ => f) 100 (fun _ t _ _ _ => (BClean, t)) false 40 ex_db 0)
    = [(2, 2); (14, 23)] /\
  map (fun t => snd (fst t)) (loop_w ex_marker ex_delim false (fun _ => None) (fun f _ => f) 100 (fun _ t _ _ _ => (BClean, t)) true 40 ex_db 0)
    = [(2, 2); (3, 13); (14, 23)] /\
  entries_spec ex_marker ex_db = [(2, 2); (3, 13); (14, 23)].
Proof. vm_compute. repeat split. Qed.

(* ------------------------------------------------------------------ *)
(* Link to the model of the REAL scanner (Scan.get_next_entry, property C14): the stream theorems above scan by
   the specification next_entry; for every non-empty marker, every read block size and every file position, one
   call of the buffered scanner model returns exactly that (coordinates with the file left on the entry's first
   byte in the whole-file tool's mode; the bytes of the span with the file left at the entry's end in the header
   tool's mode).  With C14_scan_spec (the scanner model = the code, by correspondence) this discharges the
   assumption "the scanner equals its spec" that C08, C13 and C03 were built on. *)
From PFF Require Scan Proofs.ScanLink.

Theorem C08_scanner_link : forall m bs s pos, m <> [] ->
  Scan.get_next_entry m true bs s pos =
    match next_entry m s pos with
    | Some (a, e) => (Scan.RCoord a e, a)
    | None => (Scan.RNone, Nat.max pos (length s))
    end /\
  Scan.get_next_entry m false bs s pos =
    match next_entry m s pos with
    | Some (a, e) => (Scan.RBytes (firstn (e - a) (skipn a s)), e)
    | None => (Scan.RNone, Nat.max pos (length s))
    end.
Proof.
  intros m bs s pos Hm. split.
  - exact (ScanLink.scanner_is_next_entry m bs s pos Hm).
  - exact (ScanLink.scanner_is_next_entry_content m bs s pos Hm).
Qed.
Print Assumptions C08_scanner_link.

(* ------------------------------------------------------------------ *)
(* The locality hypothesis of C08_independent_w DISCHARGED for the composed block stage (Proofs/PipelineLocal.v): with
   blocksW := C03Inst.blocksW_pipe (Pipeline's sa_file behind the track slice) and `inside` := "the entry's track has exactly
   the length the recorded size's rate rule and the file's length call for" — which every generated entry meets for a file of
   unchanged length, whatever became of its content (PipelineLocal.inside_pipe_generated) — the assembler reads nothing beyond
   the track (sa_asm_inside), so the result of every other intact entry is the same with the damaged stream as with the
   pristine one.  No hypothesis about the block stage is left. *)
From PFF Require Proofs.C03Inst Proofs.PipelineLocal.

Theorem C08_independent_w_pipe :
  forall (algo : N) (mb : nat) hash hlen bdec (o : option byte) fast (mu : nat -> nat -> nat),
  (forall s c, 1 <= mu s c) -> (forall s c, 1 <= hlen + (mb - mu s c)) ->
  let blocksW := C03Inst.blocksW_pipe algo mb hash hlen bdec o fast mu in
  let inside := PipelineLocal.inside_pipe mb hlen mu in
  forall marker delim ignore_size look intra window, marker <> [] ->
  forall p0 cs1 c g cs2, clean_pieces marker (p0 :: cs1 ++ c :: cs2) ->
  (cs2 = [] -> clean_last marker g) -> (cs2 <> [] -> clean_mid marker g) ->
  forall j cj, nth_error (cs1 ++ c :: cs2) j = Some cj -> j <> length cs1 ->
  intact_w delim ignore_size look intra window inside cj ->
  let rw := results_w marker delim ignore_size look intra window blocksW in
  length (rw (join marker (p0 :: cs1 ++ g :: cs2))) = length (rw (join marker (p0 :: cs1 ++ c :: cs2))) /\
  exists r, nth_error (rw (join marker (p0 :: cs1 ++ c :: cs2))) j = Some r /\
            nth_error (rw (join marker (p0 :: cs1 ++ g :: cs2))) j = Some r.
Proof.
  intros algo mb hash hlen bdec o fast mu MP TP blocksW inside marker delim ignore_size look intra window Hm.
  apply (C08_independent_w marker delim ignore_size look intra window blocksW inside Hm).
  intros db1 t1 e1 db2 t2 e2 tr sz file S1 S2 I.
  exact (PipelineLocal.blocksW_pipe_local algo mb hash hlen bdec o fast mu MP TP db1 t1 e1 db2 t2 e2 tr sz file S1 S2 I).
Qed.
Print Assumptions C08_independent_w_pipe.

Theorem C08_generated_entries_are_inside :
  forall (algo : N) (mb : nat) hash hlen (mu : nat -> nat -> nat),
  (forall s c, 1 <= mu s c) -> (forall s c, 1 <= hlen + (mb - mu s c)) -> (forall m, length (hash m) = hlen) ->
  forall F0 file, length file = length F0 ->
  PipelineLocal.inside_pipe mb hlen mu (C03Inst.track_w algo mb hash mu F0) (zlen F0) file.
Proof.
  intros algo mb hash hlen mu MP TP HL F0 file L.
  exact (PipelineLocal.inside_pipe_generated algo mb hash hlen (fun _ _ _ _ => None) None mu MP TP HL F0 file L).
Qed.
Print Assumptions C08_generated_entries_are_inside.

(* and the no-crash hypothesis of C08_no_crash holds of the composed block stage by construction *)
From PFF Require Proofs.PipelineClean.
Theorem C08_no_crash_pipe :
  forall (algo : N) (mb : nat) hash hlen bdec (o : option byte) fast ms hdr (mu : nat -> nat -> nat)
         marker delim ignore_size look intra window db,
    run_h marker delim ignore_size look intra (C03Inst.blocksH_pipe algo mb hash hlen bdec o fast ms hdr) db <> Crash /\
    run_w marker delim ignore_size look intra window (C03Inst.blocksW_pipe algo mb hash hlen bdec o fast mu) db <> Crash.
Proof.
  intros. apply C08_no_crash.
  - intros t z f. unfold C03Inst.blocksH_pipe, PipelineClean.bres_of. destruct (Pipeline.f_class _); discriminate.
  - intros d t e z f. cbn [fst C03Inst.blocksW_pipe]. unfold PipelineClean.bres_of. destruct (Pipeline.f_class _); discriminate.
Qed.
Print Assumptions C08_no_crash_pipe.
