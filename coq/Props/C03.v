(* C03 — undamaged trees verify clean.  Property theorems only; proofs in Proofs/StreamP.v.
   The stream level is proved here; the hypotheses name what the entry-level modules discharge. *)
From Coq Require Import List Arith Bool ZArith NArith.
From Coq Require Import Strings.Byte.
From PFF Require Import Bytes Stream Proofs.StreamP.
Import ListNotations.

Section C03.
  Variables marker delim : list byte.
  Variable ignore_size : bool.
  Variable intra : list byte -> list byte -> list byte.
  Variable blocksH : list byte -> Z -> list byte -> bres.
  Variable window : nat.
  Variable blocksW : list byte -> nat -> nat -> Z -> list byte -> bres * nat.
  Variable enc : list byte -> list byte.
  Variable track : list byte -> list byte.
  Variable preamble : list byte.
  Variable T : list (list byte * list byte).

  Definition unambiguous : Prop :=
    clean_pieces marker (preamble :: map (gen_entry delim enc track) T) /\
    forall f, In f T ->
      prefixb delim (fst f ++ delim) = false /\ clean_mid delim (fst f) /\ clean_mid delim (size_of f) /\
      clean_mid delim (enc (fst f)) /\ clean_mid delim (enc (size_of f)).

  Definition entry_level_facts (look : list byte -> option (list byte)) : Prop :=
    (forall f, In f T -> intra (fst f) (enc (fst f)) = fst f /\ intra (size_of f) (enc (size_of f)) = size_of f) /\   (* C09 *)
    (forall f, In f T -> py_int (size_of f) = Some (zlen (snd f))) /\
    (forall f, In f T -> has_nul (fst f) = false) /\
    (forall f, In f T -> look (fst f) = Some (snd f)) /\                                                          (* files unchanged, present under this root *)
    (forall f, In f T -> blocksH (track (snd f)) (zlen (snd f)) (snd f) = BClean) /\                               (* Pipeline / C10 *)
    (forall f d t e, In f T -> sub d t e = track (snd f) -> fst (blocksW d t e (zlen (snd f)) (snd f)) = BClean) /\
    (forall f, In f T -> meta_len delim (fst f) (size_of f) (enc (fst f)) (enc (size_of f)) <= window).

  (* exit 0, nothing in the output folder, every protected file processed, none corrupted, none skipped *)
  Theorem C03_clean : forall look, marker <> [] -> unambiguous -> entry_level_facts look ->
    let db := generate marker delim enc track preamble T in
    run_h marker delim ignore_size look intra blocksH db = Done (mkC (length T) 0 0 0 0) [] 0 /\
    run_w marker delim ignore_size look intra window blocksW db = Done (mkC (length T) 0 0 0 0) [] 0.
  Proof.
    intros look Hm [U1 U2] (F1 & F2 & F3 & F4 & F5 & F6 & F7) db. split.
    - apply (clean_h marker delim ignore_size look intra blocksH enc track preamble T Hm U1 U2 F1 F2 F3 F4 F5).
    - apply (clean_w marker delim ignore_size look intra window blocksW enc track preamble T Hm U1 U2 F1 F2 F3 F4 F6 F7).
  Qed.

  (* The ecc file does not mention the root (`generate` takes relative paths only) and the run reaches the tree only
     through `look` = lookup relative to the root given at check time: any two roots under which the same
     unchanged tree is found give the same (clean) run. *)
  Theorem C03_relocate : forall look1 look2, marker <> [] -> unambiguous ->
    entry_level_facts look1 -> entry_level_facts look2 ->
    let db := generate marker delim enc track preamble T in
    run_h marker delim ignore_size look2 intra blocksH db = run_h marker delim ignore_size look1 intra blocksH db /\
    run_w marker delim ignore_size look2 intra window blocksW db = run_w marker delim ignore_size look1 intra window blocksW db.
  Proof.
    intros look1 look2 Hm U F1 F2 db.
    destruct (C03_clean look1 Hm U F1) as [A1 B1]. destruct (C03_clean look2 Hm U F2) as [A2 B2].
    fold db in A1, A2, B1, B2. rewrite A1, A2, B1, B2. split; reflexivity.
  Qed.
End C03.
Print Assumptions C03_clean.
Print Assumptions C03_relocate.

(* Open findings of the FORMAT (the model is faithful to them): a path that ends with a >= 2-byte proper prefix of
   the delimiter (or contains it) violates `unambiguous`, and then the clean run is lost. *)
Definition fd : list byte := [xfa; xff; xfa; xff; xfa].
Definition C03_full : Prop := forall (path : list byte), clean_mid fd path.
Theorem C03_refuted : ~ C03_full.
Proof. intros H. specialize (H [x61; x62; xfa; xff]). vm_compute in H. discriminate. Qed.
Print Assumptions C03_refuted.

(* the first four fields of such an entry are mis-split (the path loses its last two bytes) *)
Example C03_delimiter_prefix_misparse :
  f_path (get_fields fd ([x61; x62; xfa; xff] ++ fd ++ [x31; x30] ++ fd ++ [x70] ++ fd ++ [x71] ++ fd ++ [x54])) = [x61; x62].
Proof. vm_compute. reflexivity. Qed.

(* and a path that does satisfy the hypothesis: "ab\xfa\xff\xfa" (3-byte prefix) and "\xfaltimo" *)
Example C03_unambiguous_examples :
  clean_mid fd [x61; x62; xfa; xff; xfa] /\ clean_mid fd [xfa; x6c; x74] /\ prefixb fd ([xfa; x6c; x74] ++ fd) = false.
Proof. vm_compute. repeat split. Qed.

Example C03_int_roundtrip_examples :
  map (fun n => py_int (dec n)) [0; 1; 9; 10; 255; 1024; 65535; 4294967296]%N
  = map (fun n => Some (Z.of_N n)) [0; 1; 9; 10; 255; 1024; 65535; 4294967296]%N.
Proof. vm_compute. reflexivity. Qed.
