(* C03 — undamaged trees verify clean.  Property theorems only; proofs in Proofs/StreamP.v.
   The stream level is proved here; the hypotheses name what the entry-level modules discharge. *)
From Coq Require Import List Arith Bool ZArith NArith.
From Coq Require Import Strings.Byte.
From PFF Require Import Bytes Stream Proofs.StreamP.
Import ListNotations.

Section C03.
  Variables marker delim : list byte.
  Variable ignore_size : bool.
  Variable intra : list byte -> list byte -> list byte.
  Variable blocksH : list byte -> Z -> list byte -> bres.
  Variable window : nat.
  Variable blocksW : list byte -> nat -> nat -> Z -> list byte -> bres * nat.
  Variable enc : list byte -> list byte.
  Variable track : list byte -> list byte.
  Variable preamble : list byte.
  Variable T : list (list byte * list byte).

  Definition unambiguous : Prop :=
    clean_pieces marker (preamble :: map (gen_entry delim enc track) T) /\
    forall f, In f T ->
      prefixb delim (fst f ++ delim) = false /\ clean_mid delim (fst f) /\ clean_mid delim (size_of f) /\
      clean_mid delim (enc (fst f)) /\ clean_mid delim (enc (size_of f)).

  Definition entry_level_facts (look : list byte -> option (list byte)) : Prop :=
    (forall f, In f T -> intra (fst f) (enc (fst f)) = fst f /\ intra (size_of f) (enc (size_of f)) = size_of f) /\   (* C09 *)
    (forall f, In f T -> py_int (size_of f) = Some (zlen (snd f))) /\
    (forall f, In f T -> has_nul (fst f) = false) /\
    (forall f, In f T -> look (fst f) = Some (snd f)) /\                                                          (* files unchanged, present under this root *)
    (forall f, In f T -> blocksH (track (snd f)) (zlen (snd f)) (snd f) = BClean) /\                               (* Pipeline / C10 *)
    (forall f d t e, In f T -> sub d t e = track (snd f) -> fst (blocksW d t e (zlen (snd f)) (snd f)) = BClean) /\
    (forall f, In f T -> meta_len delim (fst f) (size_of f) (enc (fst f)) (enc (size_of f)) <= window).

  (* exit 0, nothing in the output folder, every protected file processed, none corrupted, none skipped *)
  Theorem C03_clean : forall look, marker <> [] -> unambiguous -> entry_level_facts look ->
    let db := generate marker delim enc track preamble T in
    run_h marker delim ignore_size look intra blocksH db = Done (mkC (length T) 0 0 0 0) [] 0 /\
    run_w marker delim ignore_size look intra window blocksW db = Done (mkC (length T) 0 0 0 0) [] 0.
  Proof.
    intros look Hm [U1 U2] (F1 & F2 & F3 & F4 & F5 & F6 & F7) db. split.
    - apply (clean_h marker delim ignore_size look intra blocksH enc track preamble T Hm U1 U2 F1 F2 F3 F4 F5).
    - apply (clean_w marker delim ignore_size look intra window blocksW enc track preamble T Hm U1 U2 F1 F2 F3 F4 F6 F7).
  Qed.

  (* The ecc file does not mention the root (`generate` takes relative paths only) and the run reaches the tree only
     through `look` = lookup relative to the root given at check time: any two roots under which the same
     unchanged tree is found give the same (clean) run. *)
  Theorem C03_relocate : forall look1 look2, marker <> [] -> unambiguous ->
    entry_level_facts look1 -> entry_level_facts look2 ->
    let db := generate marker delim enc track preamble T in
    run_h marker delim ignore_size look2 intra blocksH db = run_h marker delim ignore_size look1 intra blocksH db /\
    run_w marker delim ignore_size look2 intra window blocksW db = run_w marker delim ignore_size look1 intra window blocksW db.
  Proof.
    intros look1 look2 Hm U F1 F2 db.
    destruct (C03_clean look1 Hm U F1) as [A1 B1]. destruct (C03_clean look2 Hm U F2) as [A2 B2].
    fold db in A1, A2, B1, B2. rewrite A1, A2, B1, B2. split; reflexivity.
  Qed.
End C03.
Print Assumptions C03_clean.
Print Assumptions C03_relocate.

(* Open findings of the FORMAT (the model is faithful to them): a path that ends with a >= 2-byte proper prefix of
   the delimiter (or contains it) violates `unambiguous`, and then the clean run is lost. *)
Definition fd : list byte := [xfa; xff; xfa; xff; xfa].
Definition C03_full : Prop := forall (path : list byte), clean_mid fd path.
Theorem C03_refuted : ~ C03_full.
Proof. intros H. specialize (H [x61; x62; xfa; xff]). vm_compute in H. discriminate. Qed.
Print Assumptions C03_refuted.

(* the first four fields of such an entry are mis-split (the path loses its last two bytes) *)
Example C03_delimiter_prefix_misparse :
  f_path (get_fields fd ([x61; x62; xfa; xff] ++ fd ++ [x31; x30] ++ fd ++ [x70] ++ fd ++ [x71] ++ fd ++ [x54])) = [x61; x62].
Proof. vm_compute. reflexivity. Qed.

(* and a path that does satisfy the hypothesis: "ab\xfa\xff\xfa" (3-byte prefix) and "\xfaltimo" *)
Example C03_unambiguous_examples :
  clean_mid fd [x61; x62; xfa; xff; xfa] /\ clean_mid fd [xfa; x6c; x74] /\ prefixb fd ([xfa; x6c; x74] ++ fd) = false.
Proof. vm_compute. repeat split. Qed.

Example C03_int_roundtrip_examples :
  map (fun n => py_int (dec n)) [0; 1; 9; 10; 255; 1024; 65535; 4294967296]%N
  = map (fun n => Some (Z.of_N n)) [0; 1; 9; 10; 255; 1024; 65535; 4294967296]%N.
Proof. vm_compute. reflexivity. Qed.

(* ------------------------------------------------------------------ *)
(* One entry-level fact discharged (added by the integrator, Proofs/StreamInt.v): CPython's int() as modelled
   (blanks, sign, digits with single underscores, the 4300-digit limit) reads str(n) back as n.  Hence the hypothesis
   `py_int (size_of f) = Some |content|` of C03_clean / C03_relocate holds for every file shorter than 10^4300 bytes. *)
From PFF Require Import Proofs.StreamInt.

Theorem C03_int_roundtrip : forall n : N, (n < 10 ^ 4300)%N -> py_int (dec n) = Some (Z.of_N n).
Proof. exact py_int_dec. Qed.
Print Assumptions C03_int_roundtrip.

Theorem C03_size_field : forall (T : list (list byte * list byte)),
  (forall f, In f T -> (N.of_nat (length (snd f)) < 10 ^ 4300)%N) ->
  forall f, In f T -> py_int (size_of f) = Some (zlen (snd f)).
Proof.
  intros T H f Hf. unfold size_of, zlen. rewrite (py_int_dec _ (H f Hf)). rewrite nat_N_Z. reflexivity.
Qed.
Print Assumptions C03_size_field.

(* The intra-ecc fact of `entry_level_facts` (its first clause) is a theorem when `intra` / `enc` are instantiated with
   the entry-metadata model (Entry.v, property C09) over the verified facade of any of the four real codecs: for both
   tools' variants, every field comes back unchanged from its own intra-ecc (k = intra message size >= 1,
   k + es <= 255, any decoder).  No codec hypothesis is left (Proofs/CodecInst.v). *)
From PFF Require Entry Facade Proofs.CodecInst Props.C09.

Theorem C03_intra_fact_rs : forall (algo : N) (k es : nat) dec, (1 <= k)%nat -> (k + es <= 255)%nat ->
  let enc0 := CodecInst.ienc algo (k + es) k in let chk0 := CodecInst.ichk algo (k + es) k in
  let intra_h := fun f e => fst (fst (Entry.hdr_intra_correct k es chk0 dec f e)) in
  let intra_w := fun f e => fst (fst (Entry.whole_intra_correct k es chk0 dec f e)) in
  forall field,
    intra_h field (Entry.hdr_intra_encode k enc0 field) = field /\
    intra_w field (Entry.whole_intra_encode k enc0 field) = field.
Proof.
  intros algo k es dec Hk Hn enc0 chk0 intra_h intra_w field. unfold intra_h, intra_w.
  destruct (C09.C09_intra_roundtrip k es enc0 chk0 dec Hk (CodecInst.entry_enc_len algo k es Hk Hn)
              (CodecInst.entry_chk_enc algo k es) field) as [A B].
  rewrite A, B. split; reflexivity.
Qed.
Print Assumptions C03_intra_fact_rs.

(* ------------------------------------------------------------------ *)
(* C03 end to end on the real codecs (Proofs/C03Inst.v, Proofs/PipelineClean.v).  The per-block clauses of
   `entry_level_facts` are theorems of the Pipeline model (C04/C10): every block `-g` generated passes the flag test,
   so hdr_file is Clean / writes nothing and sa_file's first pass detects nothing, for ANY decoder (never called).
   With the intra-ecc clause (C09) and the size clause also discharged, the hypotheses left are those the property
   itself names or the format needs: unambiguous text, NUL-free names, files unchanged under the root given at check
   time (`look`), sizes < 10^4300, and for the whole-file tool the metadata fitting its 65535-byte read window. *)
From PFF Require Proofs.C03Inst.

Theorem C03_clean_header_rs :
  forall (algo : N) (mb : nat) hash hlen, (forall m, length (hash m) = hlen) ->
  forall bdec o fast ik ies, 1 <= ik -> ik + ies <= 255 -> forall idec ms hdr, 1 <= ms <= mb -> 1 <= hlen + (mb - ms) ->
  let intra := C03Inst.intra_h algo ik ies idec in
  let fenc := C03Inst.fenc_h algo ik ies in
  let track := C03Inst.track_h algo mb hash ms hdr in
  let blocks := C03Inst.blocksH_pipe algo mb hash hlen bdec o fast ms hdr in
  forall marker delim ignore_size look preamble (T : list (list byte * list byte)),
  marker <> [] ->
  clean_pieces marker (preamble :: map (gen_entry delim fenc track) T) ->
  (forall f, In f T ->
     prefixb delim (fst f ++ delim) = false /\ clean_mid delim (fst f) /\ clean_mid delim (size_of f) /\
     clean_mid delim (fenc (fst f)) /\ clean_mid delim (fenc (size_of f))) ->
  (forall f, In f T -> (N.of_nat (length (snd f)) < 10 ^ 4300)%N) ->
  (forall f, In f T -> has_nul (fst f) = false) ->
  (forall f, In f T -> look (fst f) = Some (snd f)) ->
  run_h marker delim ignore_size look intra blocks (generate marker delim fenc track preamble T)
  = Done (mkC (length T) 0 0 0 0) [] 0.
Proof.
  intros algo mb hash hlen HL bdec o fast ik ies K1 K2 idec ms hdr MS TP.
  exact (C03Inst.clean_header algo mb hash hlen HL bdec o fast ik ies K1 K2 idec ms hdr MS TP).
Qed.
Print Assumptions C03_clean_header_rs.

Theorem C03_clean_whole_rs :
  forall (algo : N) (mb : nat) hash hlen, (forall m, length (hash m) = hlen) ->
  forall bdec o fast ik ies, 1 <= ik -> ik + ies <= 255 -> forall idec mu,
  (forall s c, 1 <= mu s c <= mb) -> (forall s c, 1 <= hlen + (mb - mu s c)) -> forall window,
  let intra := C03Inst.intra_w algo ik ies idec in
  let fenc := C03Inst.fenc_w algo ik ies in
  let track := C03Inst.track_w algo mb hash mu in
  let blocks := C03Inst.blocksW_pipe algo mb hash hlen bdec o fast mu in
  forall marker delim ignore_size look preamble (T : list (list byte * list byte)),
  marker <> [] ->
  clean_pieces marker (preamble :: map (gen_entry delim fenc track) T) ->
  (forall f, In f T ->
     prefixb delim (fst f ++ delim) = false /\ clean_mid delim (fst f) /\ clean_mid delim (size_of f) /\
     clean_mid delim (fenc (fst f)) /\ clean_mid delim (fenc (size_of f))) ->
  (forall f, In f T -> (N.of_nat (length (snd f)) < 10 ^ 4300)%N) ->
  (forall f, In f T -> has_nul (fst f) = false) ->
  (forall f, In f T -> look (fst f) = Some (snd f)) ->
  (forall f, In f T -> meta_len delim (fst f) (size_of f) (fenc (fst f)) (fenc (size_of f)) <= window) ->
  run_w marker delim ignore_size look intra window blocks (generate marker delim fenc track preamble T)
  = Done (mkC (length T) 0 0 0 0) [] 0.
Proof.
  intros algo mb hash hlen HL bdec o fast ik ies K1 K2 idec mu MU TP window.
  exact (C03Inst.clean_whole algo mb hash hlen HL bdec o fast ik ies K1 K2 idec mu MU TP window).
Qed.
Print Assumptions C03_clean_whole_rs.

(* Non-vacuity: a concrete two-file tree (codec 3, blocks of 10 + 10 parity, header 15, a toy 4-byte hash, the real
   entry marker and field delimiter; a 200-byte metadata window for the whole-file tool) meets every hypothesis of both theorems; the conclusion is obtained from the
   theorems, not by running the model. *)
Definition ex_marker : list byte := [xfe; xff; xfe; xff; xfe; xff; xfe; xff; xfe; xff].
Definition ex_hash (m : list byte) : list byte := firstn 4 (m ++ repeat x00 4).
Definition ex_tree : list (list byte * list byte) :=
  [([x61; x2f; x62], [x68; x65; x6c; x6c; x6f; x20; x77; x6f; x72; x6c; x64; x21; x0a; x00; xff; x31; x32]);
   ([x7a], [x01; x02; x03])].
Definition ex_look (p : list byte) : option (list byte) :=
  match List.find (fun f => if list_eq_dec Byte.byte_eq_dec (fst f) p then true else false) ex_tree with
  | Some f => Some (snd f) | None => None end.
Lemma ex_hash_len m : length (ex_hash m) = 4.
Proof. unfold ex_hash. rewrite firstn_length, app_length, repeat_length. apply Nat.min_l. apply Nat.le_add_l. Qed.

Example C03_clean_header_nonvacuous :
  run_h ex_marker fd false ex_look (C03Inst.intra_h 3 9 18 (fun _ _ => None))
        (C03Inst.blocksH_pipe 3 20 ex_hash 4 (fun _ _ _ _ => None) None false 10 15)
        (generate ex_marker fd (C03Inst.fenc_h 3 9 18) (C03Inst.track_h 3 20 ex_hash 10 15) [x2a; x2a] ex_tree)
  = Done (mkC 2 0 0 0 0) [] 0.
Proof.
  apply (C03_clean_header_rs 3 20 ex_hash 4 ex_hash_len (fun _ _ _ _ => None) None false 9 18 ltac:(repeat constructor) ltac:(vm_compute; repeat constructor)
           (fun _ _ => None) 10 15 ltac:(split; repeat constructor) ltac:(vm_compute; repeat constructor) ex_marker fd false ex_look [x2a; x2a] ex_tree).
  - discriminate.
  - vm_compute. repeat split.
  - intros f Hf. repeat (destruct Hf as [<-|Hf]; [vm_compute; repeat split|]). destruct Hf.
  - intros f Hf. repeat (destruct Hf as [<-|Hf]; [reflexivity|]). destruct Hf.
  - intros f Hf. repeat (destruct Hf as [<-|Hf]; [reflexivity|]). destruct Hf.
  - intros f Hf. repeat (destruct Hf as [<-|Hf]; [vm_compute; reflexivity|]). destruct Hf.
Qed.

Example C03_clean_whole_nonvacuous :
  run_w ex_marker fd false ex_look (C03Inst.intra_w 3 9 18 (fun _ _ => None)) 200
        (C03Inst.blocksW_pipe 3 20 ex_hash 4 (fun _ _ _ _ => None) None false (fun s c => if c <? 10 then 5 else if s <? 10 then 10 else 8))
        (generate ex_marker fd (C03Inst.fenc_w 3 9 18) (C03Inst.track_w 3 20 ex_hash (fun s c => if c <? 10 then 5 else if s <? 10 then 10 else 8)) [x2a; x2a] ex_tree)
  = Done (mkC 2 0 0 0 0) [] 0.
Proof.
  apply (C03_clean_whole_rs 3 20 ex_hash 4 ex_hash_len (fun _ _ _ _ => None) None false 9 18 ltac:(repeat constructor) ltac:(vm_compute; repeat constructor)
           (fun _ _ => None) (fun s c => if c <? 10 then 5 else if s <? 10 then 10 else 8)).
  - intros s c. destruct (c <? 10); [|destruct (s <? 10)]; split; repeat constructor.
  - intros s c. destruct (c <? 10); [|destruct (s <? 10)]; vm_compute; repeat constructor.
  - discriminate.
  - vm_compute. repeat split.
  - intros f Hf. repeat (destruct Hf as [<-|Hf]; [vm_compute; repeat split|]). destruct Hf.
  - intros f Hf. repeat (destruct Hf as [<-|Hf]; [reflexivity|]). destruct Hf.
  - intros f Hf. repeat (destruct Hf as [<-|Hf]; [reflexivity|]). destruct Hf.
  - intros f Hf. repeat (destruct Hf as [<-|Hf]; [vm_compute; reflexivity|]). destruct Hf.
  - intros f Hf. repeat (destruct Hf as [<-|Hf]; [apply Nat.leb_le; vm_compute; reflexivity|]). destruct Hf.
Qed.
