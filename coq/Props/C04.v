(* C04 — repairs are conservative.  Property theorems only; proofs are in Proofs/PipelineP.v.
   Model: Pipeline.v (what both ECC tools do to one file given its parsed entry; counters; exit
   status).  Every theorem holds for ARBITRARY oracles: any hash function, any (adversarial)
   check and decode answers, any damage, any track length, any recorded size.  Named hypotheses
   appear only where the statement needs them:
     dec_len      the codec facade returns a message of the length it was given   (C04_length)
     dec_bounded  an answer that passes the facade's check lies within the radius (C04_block_radius) *)
From Coq Require Import List Arith Bool.
From Coq Require Import Strings.Byte.
From PFF Require Import Bytes Pipeline Proofs.PipelineP.
Import ListNotations.

Section C04.
  Variable opts_t : Type.
  Variable hash : list byte -> list byte.
  Variable chk : nat -> list byte -> list byte -> bool.
  Variable dec : nat -> opts_t -> list byte -> list byte -> option (list byte * list byte).
  Variable o : opts_t.
  Variable fast : bool.

  Notation block_step := (block_step opts_t hash chk dec o fast).
  Notation blocks_loop := (blocks_loop opts_t hash chk dec o fast).
  Notation hdr_file := (hdr_file opts_t hash chk dec o fast).
  Notation sa_file := (sa_file opts_t hash chk dec o fast).

  (* Whatever the oracles answer, the value committed for a block is the received block, or a
     value matching the stored hash, or a value the decoder returned together with a parity that
     passes the facade's check. *)
  Theorem C04_block : forall b,
    let c := fst (block_step b) in
    c = msg b \/ hash c = hsh b \/
    exists p', dec (bk b) o (msg b) (ecc b) = Some (c, p') /\ chk (bk b) c p' = true.
  Proof. exact (block_conservative opts_t hash chk dec o fast). Qed.

  (* ... and under dec_bounded the third case means: the re-encoded codeword lies within the
     decoding radius (relation cap) of the received block + parity. *)
  Theorem C04_block_radius :
    forall (enc : nat -> list byte -> list byte)
           (cap : nat -> opts_t -> list byte * list byte -> list byte * list byte -> Prop),
    (forall k m p c p', dec k o m p = Some (c, p') -> chk k c p' = true -> cap k o (m, p) (c, enc k c)) ->
    forall b, let c := fst (block_step b) in
    c = msg b \/ hash c = hsh b \/ cap (bk b) o (msg b, ecc b) (c, enc (bk b) c).
  Proof.
    intros enc cap DB b c. destruct (block_conservative opts_t hash chk dec o fast b) as [H|[H|(p' & D & K)]]; auto.
    right. right. exact (DB _ _ _ _ _ D K).
  Qed.

  (* Default (fast-check) mode: a block that still matches its stored hash is never altered. *)
  Theorem C04_default_keeps_matching : forall b,
    fast = true -> hash (msg b) = hsh b -> block_step b = (msg b, Kept).
  Proof. exact (block_keeps_matching opts_t hash chk dec o fast). Qed.

  (* A block that was not repaired (kept, reported unrepairable, or not examined) is the input block. *)
  Theorem C04_block_partial : forall b,
    is_repaired (snd (block_step b)) = false -> fst (block_step b) = msg b.
  Proof. exact (block_copied_through opts_t hash chk dec o fast). Qed.

  (* Header tool, whole file: when an output file is written, the assembled blocks tile a prefix
     of the input, the output is the committed values in the same order followed by the same
     remainder of the input, and every (block, committed value, verdict) triple satisfies the three
     block-level statements above (block_ok).  Holds for every track length and recorded size. *)
  Theorem C04_file_header : forall ms mb hlen hdr recorded file track out,
    f_out (hdr_file ms mb hlen hdr recorded file track) = Some out ->
    let bl := hdr_blocks ms mb hlen hdr recorded file track in
    let res := fst (blocks_loop 0 true bl) in
    (exists rest, file = concat (map msg bl) ++ rest /\ out = concat (map fst res) ++ rest /\
                  Forall2 (block_ok opts_t hash chk dec o fast) bl res) /\
    f_verdicts (hdr_file ms mb hlen hdr recorded file track) = map snd res.
  Proof. intros. apply (hdr_file_ok opts_t hash chk dec o fast). assumption. Qed.

  (* Whole-file tool, same statement, for every size function mu, track length and ecc file. *)
  Theorem C04_file_whole : forall mu mb hlen file db tlen out,
    f_out (sa_file mu mb hlen file db tlen) = Some out ->
    let bl := sa_blocks mu mb hlen file db tlen in
    let res := fst (blocks_loop 0 true bl) in
    (exists rest, file = concat (map msg bl) ++ rest /\ out = concat (map fst res) ++ rest /\
                  Forall2 (block_ok opts_t hash chk dec o fast) bl res) /\
    f_verdicts (sa_file mu mb hlen file db tlen) = map snd res.
  Proof. intros. apply (sa_file_ok opts_t hash chk dec o fast). assumption. Qed.

  (* Every output file has the length of the damaged input (needs only that the facade returns
     messages of the length it was given). *)
  Theorem C04_length :
    (forall k m p m' p', dec k o m p = Some (m', p') -> length m' = length m) ->
    (forall ms mb hlen hdr recorded file track out,
       f_out (hdr_file ms mb hlen hdr recorded file track) = Some out -> length out = length file) /\
    (forall mu mb hlen file db tlen out,
       f_out (sa_file mu mb hlen file db tlen) = Some out -> length out = length file).
  Proof.
    intros DL. split.
    - intros ms mb hlen hdr recorded file track out H.
      destruct (hdr_file_ok opts_t hash chk dec o fast _ _ _ _ _ _ _ _ H) as [OK _].
      exact (file_ok_length opts_t hash chk dec o fast _ _ _ _ DL OK (loop_lengths opts_t hash chk dec o fast _ _ _ DL)).
    - intros mu mb hlen file db tlen out H.
      destruct (sa_file_ok opts_t hash chk dec o fast _ _ _ _ _ _ _ H) as [OK _].
      exact (file_ok_length opts_t hash chk dec o fast _ _ _ _ DL OK (loop_lengths opts_t hash chk dec o fast _ _ _ DL)).
  Qed.

  (* Partial recovery, in place: every committed value has the length of its block (so all blocks
     sit at their input offsets) and blocks that were not repaired are the input blocks. *)
  Theorem C04_partial :
    (forall k m p m' p', dec k o m p = Some (m', p') -> length m' = length m) ->
    forall bl i e,
    Forall2 (fun b r => length (fst r) = length (msg b) /\ (is_repaired (snd r) = false -> fst r = msg b))
            bl (fst (blocks_loop i e bl)).
  Proof.
    intros DL bl i e.
    pose proof (loop_lengths opts_t hash chk dec o fast bl i e DL) as L.
    pose proof (loop_ok opts_t hash chk dec o fast bl i e) as K.
    revert L K. generalize (fst (blocks_loop i e bl)). intros res L. revert bl L.
    induction res as [|r res IH]; intros bl L K; inversion L; subst; inversion K; subst; constructor; auto.
    split; [assumption|]. match goal with H : block_ok _ _ _ _ _ _ _ _ |- _ => destruct H as (_ & _ & X); exact X end.
  Qed.

  (* The whole tool's early break (more than ten consecutive unrepairable blocks from the start)
     never produces an output file, so no output ever stops short of the input. *)
  Theorem C04_whole_break : forall mu mb hlen file db tlen,
    In Unexamined (f_verdicts (sa_file mu mb hlen file db tlen)) -> f_out (sa_file mu mb hlen file db tlen) = None.
  Proof. exact (sa_file_break_no_output opts_t hash chk dec o fast). Qed.

  (* The run exits non-zero whenever some block of some processed file was reported unrepairable. *)
  Theorem C04_exit : forall s rs p r,
    In (p, r) rs ->
    ((exists ms mb hlen hdr recorded file track, r = hdr_file ms mb hlen hdr recorded file track) \/
     (exists mu mb hlen file db tlen, r = sa_file mu mb hlen file db tlen)) ->
    In Failed (f_verdicts r) ->
    snd (run_files s rs) = 1.
  Proof.
    intros s rs p r Hin Hr HF. apply (run_exit_nonzero s rs p r Hin).
    destruct Hr as [(ms & mb & hlen & hdr & recorded & file & track & ->)|(mu & mb & hlen & file & db & tlen & ->)].
    - left. apply (hdr_file_failed_class opts_t hash chk dec o fast). exact HF.
    - apply (sa_file_failed_class opts_t hash chk dec o fast). exact HF.
  Qed.
End C04.

(* The input tree is an argument of the run and never a result: only the output tree grows. *)
Theorem C04_inputs : forall s rs, fs_in (fst (run_files s rs)) = fs_in s.
Proof. exact run_files_inputs. Qed.

Print Assumptions C04_block.
Print Assumptions C04_block_radius.
Print Assumptions C04_default_keeps_matching.
Print Assumptions C04_block_partial.
Print Assumptions C04_file_header.
Print Assumptions C04_file_whole.
Print Assumptions C04_length.
Print Assumptions C04_partial.
Print Assumptions C04_whole_break.
Print Assumptions C04_exit.
Print Assumptions C04_inputs.

(* ------------------------------------------------------------------ *)
(* Non-vacuity.  The two named hypotheses are satisfiable together (toy codec: two extra copies
   of the message as parity, majority decoding) ... *)
Example C04_hypotheses_satisfiable :
  (forall k m p m' p', toy_dec k tt m p = Some (m', p') -> length m' = length m) /\
  (forall k m p c p', toy_dec k tt m p = Some (c, p') -> toy_chk k c p' = true ->
                      toy_cap k tt (m, p) (c, toy_enc k c)).
Proof. split; [exact toy_dec_len|]. intros k m p c p' D _. exact (toy_dec_bounded k m p c p' D). Qed.

(* ... and a concrete run of the whole-file tool (2-byte blocks, 1-byte hash, 4-byte parity) on a
   6-byte input: block 0 intact, block 1 damaged and repaired, block 2 destroyed beyond repair and
   copied through; partial recovery, same length, exit status 1. *)
Example C04_example_whole :
  let file := [x61; x62; x7a; x64; x21; x22] in                       (* ab zd !!' : originally ab cd ef *)
  let db := [x61; x61;x62;x61;x62] ++ [x63; x63;x64;x63;x64] ++ [x65; x65;x66;x65;x67] in
  let r := sa_file unit toy_hash toy_chk toy_dec tt true (fun _ => 2) 6 1 file db 15 in
  f_out r = Some [x61; x62; x63; x64; x21; x22] /\ f_verdicts r = [Kept; Repaired true true; Failed] /\
  f_class r = Partial /\ snd (run_files (mkfs [] []) [([x66], r)]) = 1.
Proof. vm_compute. repeat split; reflexivity. Qed.

(* the header tool on a track that covers only the first of two blocks (the shape behind the
   repaired length defect): the uncovered block and the tail are copied through *)
Example C04_example_header_short_track :
  let file := [x61; x7a; x63; x64; x65] in
  let track := [x61; x61;x62;x61;x62] in
  let r := hdr_file unit toy_hash toy_chk toy_dec tt false 2 6 1 4 5 file track in
  f_out r = Some [x61; x62; x63; x64; x65] /\ f_verdicts r = [Repaired true true].
Proof. vm_compute. split; reflexivity. Qed.

(* ------------------------------------------------------------------ *)
(* dec_bounded as a THEOREM (added by the integrator; for codecs 1 and 2 since fix e31d8d3, for ALL FOUR codecs since fix 90b3a68,
   which extended the capacity check of ECCMan.decode to the reedsolo decoders — the theorem never depended on the codec number,
   only the code did).  The decoder the tools call is
   ECCMan.decode = FacadeDec.fac_decode12 around an ARBITRARY third-party decoder `inner` (only its output lengths are
   assumed): whatever `inner` answers, a value committed on the strength of the syndrome check alone lies within the
   errors-and-erasures radius of the received block + parity (2*errors + erasures <= mb - k, an erasure being every
   received symbol equal to the erasure symbol when erasure handling is on) of its re-encoded codeword.  chk / enc are
   the verified facade check / encoder of the real codecs; the block geometry is k <= mb <= 255, |msg| <= k, |ecc| <= mb - k. *)
From Coq Require Import NArith Lia.
From PFF Require Import Facade FacadeDec Proofs.FacadeP Proofs.FacadeDecP Proofs.CodecInst.

Theorem C04_block_radius_codecs12 : forall (algo : N) (mb : nat) hash
    (inner : nat -> list byte -> list nat -> option (list byte * list byte)) (o : option byte) fast b,
  mb <= 255 -> bk b <= mb -> length (msg b) <= bk b -> length (ecc b) <= mb - bk b ->
  (forall k r E mr er_, inner k r E = Some (mr, er_) -> length mr = k /\ length er_ <= mb - k) ->
  let dec := fun k (o : option byte) m p => fac_decode12 (inner k) mb k 0 o m p in
  let c := fst (block_step (option byte) hash (pchk algo mb) dec o fast b) in
  c = msg b \/ hash c = hsh b \/ pcap mb (bk b) o (msg b, ecc b) (c, penc algo mb (bk b) c).
Proof.
  intros algo mb hash inner o fast b Hmb Hk Lm Le IL dec c.
  destruct (C04_block (option byte) hash (pchk algo mb) dec o fast b) as [H|[H|(p' & D & K)]]; [left; exact H|right; left; exact H|].
  right. right. fold c in D, K. unfold dec in D.
  destruct (fac_decode12_bounded (inner (bk b)) mb (bk b) 0 o (IL (bk b)) (msg b) (ecc b) c p' Lm Le D) as (L1 & L2 & W).
  cbn [eff_k Nat.eqb] in L2, W.
  assert (Ep : p' = penc algo mb (bk b) c).
  { unfold penc. apply (fac_parity_unique (codec_of algo) (codec_field algo) mb (bk b) 0 c p' Hmb); cbn [eff_k Nat.eqb]; try assumption; try lia. }
  unfold pcap. cbn [fst snd]. split; [exact L1|]. split; [apply pipe_enc_len|]. split; [exact Le|].
  rewrite <- Ep. exact W.
Qed.
Print Assumptions C04_block_radius_codecs12.

(* the same statement under the name that says what it covers since fix 90b3a68: every codec *)
Theorem C04_block_radius_all_codecs : forall (algo : N) (mb : nat) hash
    (inner : nat -> list byte -> list nat -> option (list byte * list byte)) (o : option byte) fast b,
  mb <= 255 -> bk b <= mb -> length (msg b) <= bk b -> length (ecc b) <= mb - bk b ->
  (forall k r E mr er_, inner k r E = Some (mr, er_) -> length mr = k /\ length er_ <= mb - k) ->
  let dec := fun k (o : option byte) m p => fac_decode12 (inner k) mb k 0 o m p in
  let c := fst (block_step (option byte) hash (pchk algo mb) dec o fast b) in
  c = msg b \/ hash c = hsh b \/ pcap mb (bk b) o (msg b, ecc b) (c, penc algo mb (bk b) c).
Proof. exact C04_block_radius_codecs12. Qed.
Print Assumptions C04_block_radius_all_codecs.

(* ------------------------------------------------------------------ *)
(* C04 at TOOL level (Proofs/C04Inst.v), for an ARBITRARY ecc file — any byte string: markers, fields, tracks overwritten,
   truncated, extended — an arbitrary tree, ANY decoder and any parameters.  The run is Stream's entry loop with the
   Pipeline model as the per-block stage and any intra-ecc function.
   (1) whatever is left in the output folder sits at the relative path of an existing input file and is that file with
       each assembled block either kept or replaced by a value block_ok allows (equal to the input block, or matching the
       stored hash, or an accepted decoder answer that passes the syndrome check; never altered in the default mode when
       the block matches its stored hash), followed by the untouched rest of the input (file_ok); its length is the
       input's when the decoder preserves lengths;
   (2) if any processed file had a block reported unrepairable (verdict Failed), the run exits with status 1.
   The input tree is only read (`look`).  The radius clause for the committed values is C04_block_radius_codecs12 above
   (codecs 1/2) resp. the third-party decoder's own check (codecs 3/4, oracle). *)
From Coq Require Import ZArith.
From PFF Require Stream Proofs.StreamP Proofs.C03Inst Proofs.C04Inst.

Theorem C04_tool_outputs_header_rs :
  forall (algo : N) (mb : nat) hash hlen bdec (o : option byte) fast ms hdr marker delim ignore_size look intra db c outs ex p b,
  Stream.run_h marker delim ignore_size look intra (C03Inst.blocksH_pipe algo mb hash hlen bdec o fast ms hdr) db = Stream.Done c outs ex ->
  In (p, b) outs ->
  exists file tr recorded, look p = Some file /\
    let bl := hdr_blocks ms mb hlen hdr recorded file tr in
    file_ok (option byte) hash (pchk algo mb) bdec o fast bl (fst (blocks_loop (option byte) hash (pchk algo mb) bdec o fast 0 true bl)) file b /\
    (dec_len_hyp (option byte) bdec o -> length b = length file).
Proof.
  intros algo mb hash hlen bdec o fast ms hdr marker delim ignore_size look intra db c outs ex p b R Hin.
  destruct (C04Inst.tool_outputs_header algo mb hash hlen bdec o fast ms hdr marker delim ignore_size look intra db c outs ex p b R Hin)
    as (file & tr & rec & L & F).
  exists file, tr, rec. split; [exact L|]. split; [exact F|]. intros DL. exact (C04Inst.file_ok_len algo mb hash bdec o fast _ file b DL F).
Qed.
Print Assumptions C04_tool_outputs_header_rs.

Theorem C04_tool_outputs_whole_rs :
  forall (algo : N) (mb : nat) hash hlen bdec (o : option byte) fast mu window marker delim ignore_size look intra db c outs ex p b,
  Stream.run_w marker delim ignore_size look intra window (C03Inst.blocksW_pipe algo mb hash hlen bdec o fast mu) db = Stream.Done c outs ex ->
  In (p, b) outs ->
  exists file t e recorded, look p = Some file /\
    let bl := sa_blocks (mu recorded) mb hlen file (skipn t db) (e - t) in
    file_ok (option byte) hash (pchk algo mb) bdec o fast bl (fst (blocks_loop (option byte) hash (pchk algo mb) bdec o fast 0 true bl)) file b /\
    (dec_len_hyp (option byte) bdec o -> length b = length file).
Proof.
  intros algo mb hash hlen bdec o fast mu window marker delim ignore_size look intra db c outs ex p b R Hin.
  destruct (C04Inst.tool_outputs_whole algo mb hash hlen bdec o fast mu window marker delim ignore_size look intra db c outs ex p b R Hin)
    as (file & t & e & rec & L & F).
  exists file, t, e, rec. split; [exact L|]. split; [exact F|]. intros DL. exact (C04Inst.file_ok_len algo mb hash bdec o fast _ file b DL F).
Qed.
Print Assumptions C04_tool_outputs_whole_rs.

Theorem C04_tool_exit_header_rs :
  forall (algo : N) (mb : nat) hash hlen bdec (o : option byte) fast ms hdr marker delim ignore_size look intra db c outs ex,
  let blocks := C03Inst.blocksH_pipe algo mb hash hlen bdec o fast ms hdr in
  Stream.run_h marker delim ignore_size look intra blocks db = Stream.Done c outs ex ->
  forall se p tr z file, In se (Stream.entries_spec marker db) ->
    Stream.entry_h delim ignore_size look intra blocks (Stream.sub db (fst se) (snd se)) = Stream.EFile p (blocks tr z file) ->
    In Failed (f_verdicts (hdr_file (option byte) hash (pchk algo mb) bdec o fast ms mb hlen hdr (Z.to_nat z) file tr)) ->
    ex = 1.
Proof.
  intros algo mb hash hlen bdec o fast ms hdr marker delim ignore_size look intra db c outs ex blocks.
  exact (C04Inst.tool_exit_header algo mb hash hlen bdec o fast ms hdr marker delim ignore_size look intra db c outs ex).
Qed.
Print Assumptions C04_tool_exit_header_rs.

Theorem C04_tool_exit_whole_rs :
  forall (algo : N) (mb : nat) hash hlen bdec (o : option byte) fast mu window marker delim ignore_size look intra db c outs ex,
  let blocks := C03Inst.blocksW_pipe algo mb hash hlen bdec o fast mu in
  Stream.run_w marker delim ignore_size look intra window blocks db = Stream.Done c outs ex ->
  forall se p t e z file, In se (Stream.entries_spec marker db) ->
    fst (fst (Stream.entry_w delim ignore_size look intra window blocks db (fst se) (snd se))) = Stream.EFile p (fst (blocks db t e z file)) ->
    In Failed (f_verdicts (sa_file (option byte) hash (pchk algo mb) bdec o fast (mu (Z.to_nat z)) mb hlen file (skipn t db) (e - t))) ->
    ex = 1.
Proof.
  intros algo mb hash hlen bdec o fast mu window marker delim ignore_size look intra db c outs ex blocks.
  exact (C04Inst.tool_exit_whole algo mb hash hlen bdec o fast mu window marker delim ignore_size look intra db c outs ex).
Qed.
Print Assumptions C04_tool_exit_whole_rs.

(* Non-vacuity of the premises: the two-file tree of C03's example with one byte of "a/b" changed and a decoder that always
   refuses: the run ends normally, the damaged file is flagged, its first block is reported unrepairable and copied through
   (the output is the damaged input itself), the class is Partial and the exit status 1 — computed by the model. *)
From PFF Require Props.C03.
Definition ex_dmg_look (p : list byte) : option (list byte) :=
  match C03.ex_look p with
  | Some (x :: rest) => if Bytes.byte_eqb x x68 then Some (x69 :: rest) else Some (x :: rest)
  | r => r
  end.
Example C04_tool_example :
  Stream.run_h C03.ex_marker C03.fd false ex_dmg_look (C03Inst.intra_h 3 9 18 (fun _ _ => None))
        (C03Inst.blocksH_pipe 3 20 C03.ex_hash 4 (fun _ _ _ _ => None) None true 10 15)
        (Stream.generate C03.ex_marker C03.fd (C03Inst.fenc_h 3 9 18) (C03Inst.track_h 3 20 C03.ex_hash 10 15) [x2a; x2a] C03.ex_tree)
  = Stream.Done (Stream.mkC 2 1 0 1 0)
      [([x61; x2f; x62], [x69; x65; x6c; x6c; x6f; x20; x77; x6f; x72; x6c; x64; x21; x0a; x00; xff; x31; x32])] 1.
Proof. vm_compute. reflexivity. Qed.

(* ------------------------------------------------------------------ *)
(* The block clause of C04 in full at TOOL level (Proofs/C04Radius.v): arbitrary ecc file, arbitrary tree, an ARBITRARY third-party
   decoder `inner` (only the lengths of its answers are assumed) behind the facade wrapper that ECCMan.decode is for every codec
   since fix 90b3a68.  Every file left in the output folder is an existing input file in which each assembled block is the input
   block, or a value matching the stored hash, or the message of a codeword within 2*errors + erasures <= mb - k of the received
   block + stored parity; the rest of the file is untouched. *)
From PFF Require Proofs.C04Radius.

Theorem C04_tool_radius_header_rs :
  forall (algo : N) (mb : nat), mb <= 255 -> forall hash inner,
  (forall k r E mr er_, inner k r E = Some (mr, er_) -> length mr = k /\ length er_ <= mb - k) ->
  forall (o : option byte) fast hlen ms hdr, ms <= mb ->
  forall marker delim ignore_size look intra db c outs ex p b,
  Stream.run_h marker delim ignore_size look intra
     (C03Inst.blocksH_pipe algo mb hash hlen (C04Radius.wdec mb inner) o fast ms hdr) db = Stream.Done c outs ex ->
  In (p, b) outs ->
  exists file tr recorded (res : list (list byte * verdict)) rest, look p = Some file /\
    let bl := hdr_blocks ms mb hlen hdr recorded file tr in
    file = concat (map msg bl) ++ rest /\ b = concat (map fst res) ++ rest /\
    Forall2 (fun blk r => C04Radius.radius_ok algo mb hash o blk (fst r)) bl res.
Proof.
  intros algo mb Hmb hash inner IL o fast hlen ms hdr Hms.
  exact (C04Radius.tool_radius_header algo mb Hmb hash inner IL o fast hlen ms hdr Hms).
Qed.
Print Assumptions C04_tool_radius_header_rs.

Theorem C04_tool_radius_whole_rs :
  forall (algo : N) (mb : nat), mb <= 255 -> forall hash inner,
  (forall k r E mr er_, inner k r E = Some (mr, er_) -> length mr = k /\ length er_ <= mb - k) ->
  forall (o : option byte) fast hlen (mu : nat -> nat -> nat), (forall s c, mu s c <= mb) -> forall window,
  forall marker delim ignore_size look intra db c outs ex p b,
  Stream.run_w marker delim ignore_size look intra window
     (C03Inst.blocksW_pipe algo mb hash hlen (C04Radius.wdec mb inner) o fast mu) db = Stream.Done c outs ex ->
  In (p, b) outs ->
  exists file t e recorded (res : list (list byte * verdict)) rest, look p = Some file /\
    let bl := sa_blocks (mu recorded) mb hlen file (skipn t db) (e - t) in
    file = concat (map msg bl) ++ rest /\ b = concat (map fst res) ++ rest /\
    Forall2 (fun blk r => C04Radius.radius_ok algo mb hash o blk (fst r)) bl res.
Proof.
  intros algo mb Hmb hash inner IL o fast hlen mu Hmu window.
  exact (C04Radius.tool_radius_whole algo mb Hmb hash inner IL o fast hlen mu Hmu window).
Qed.
Print Assumptions C04_tool_radius_whole_rs.
