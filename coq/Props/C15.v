(* C15 — the index companion locates every marker and `pff recover` restores them all.
   Property theorems only; proofs are in Proofs/IndexP.v.

   The (27, 9) index codec is abstract: enc / chk / dec are ECCMan.encode / check / decode.
   Hypotheses (named, IndexP.v):
     chk_enc_hyp      check accepts what encode produced
     enc_len_hyp      the parity of a 9-byte message has 18 bytes
     code_dist_hyp    two parity-valid 27-byte words differing in <= 18 places are equal
                      (minimum distance 19 of the Reed-Solomon code; discharged from the RS algebra)
     dec_complete_hyp <= 9 wrong bytes: the third-party decoder returns the codeword (stays a hypothesis)
   "Damaged beyond repair" is read as: check / decode / re-check / validation reject the block
   (block_write = None).  A block that decodes to ANOTHER valid in-range record cannot be told
   apart from a genuine one by any checker; such blocks are outside [block_ok]. *)
From Coq Require Import List NArith Bool Arith.
From Coq Require Import Strings.Byte.
From PFF Require Import Bytes Index Proofs.IndexP.
Import ListNotations.

(* struct.pack('>Q') / unpack round trip, both ways *)
Theorem C15_be64_roundtrip :
  (forall v, (v < 2 ^ 64)%N -> unbe (be64 v) = v /\ length (be64 v) = 8) /\
  (forall l, length l = 8 -> be64 (unbe l) = l).
Proof.
  split.
  - intros v Hv. split; [apply unbe_be64; exact Hv|apply be64_length].
  - exact be64_unbe.
Qed.
Print Assumptions C15_be64_roundtrip.

(* For every entry (whatever its fields: empty file, multi-block path, many-digit size) the
   index lists, after the records of the earlier entries and before those of the later ones,
   exactly five records: kind '1' at the offset where the entry marker starts and kind '2' at the
   offsets where each of the four field delimiters starts in the generated ecc bytes; the
   whole-file tool (last offset taken as tell() - 5) lists the same. *)
Theorem C15_offsets : forall pre es1 e es2,
  let base := pre ++ flat_map ix_format_entry es1 in
  (index_offsets (lenN pre) (es1 ++ e :: es2) =
     index_offsets (lenN pre) es1
     ++ [ (kind_marker, lenN base);
          (kind_delim, lenN (base ++ entrymarker ++ e_path e));
          (kind_delim, lenN (base ++ entrymarker ++ e_path e ++ field_delim ++ e_size e));
          (kind_delim, lenN (base ++ entrymarker ++ e_path e ++ field_delim ++ e_size e ++ field_delim ++ e_pecc e));
          (kind_delim, lenN (base ++ entrymarker ++ e_path e ++ field_delim ++ e_size e ++ field_delim ++ e_pecc e
                                  ++ field_delim ++ e_secc e)) ]
     ++ index_offsets (lenN (base ++ ix_format_entry e)) es2)
  /\ ecc_file pre (es1 ++ e :: es2) =
     base ++ entrymarker ++ e_path e ++ field_delim ++ e_size e ++ field_delim ++ e_pecc e ++ field_delim
          ++ e_secc e ++ field_delim ++ e_track e ++ flat_map ix_format_entry es2
  /\ index_offsets_sa (lenN pre) (es1 ++ e :: es2) = index_offsets (lenN pre) (es1 ++ e :: es2).
Proof.
  intros pre es1 e es2 base.
  destruct (offsets_layout pre es1 e es2) as [H1 H2]. fold base in H1, H2.
  rewrite entry_offsets_layout in H1.
  split; [exact H1|]. split; [exact H2|apply index_offsets_sa_eq].
Qed.
Print Assumptions C15_offsets.

(* The index file is one 27-byte record per listed offset (5 per entry), each with a valid
   parity, and the bytes of the ecc file at every recorded offset ARE the marker of the
   recorded kind. *)
Theorem C15_offsets_bytes : forall enc chk pre es,
  chk_enc_hyp enc chk -> enc_len_hyp enc ->
  let offs := index_offsets (lenN pre) es in
  chunks rsz (gen_index enc pre es) = map (mk_record enc) offs /\
  gen_index_sa enc pre es = gen_index enc pre es /\
  length offs = 5 * length es /\
  forall ko, In ko offs ->
    chk (firstn msz (mk_record enc ko)) (skipn msz (mk_record enc ko)) = true /\
    exists mk, marker_of_kind (fst ko) = Some mk /\ occurs_at (ecc_file pre es) (snd ko) mk.
Proof.
  intros enc chk pre es Hce Hel offs. split; [apply gen_index_chunks; exact Hel|].
  split; [unfold gen_index_sa, gen_index; rewrite index_offsets_sa_eq; reflexivity|].
  split; [apply index_offsets_length|].
  intros [k o] Hin. split; [apply record_parity_valid; exact Hce|].
  exact (offsets_sound es pre k o Hin).
Qed.
Print Assumptions C15_offsets_bytes.

(* "Each index record [may have] up to 9 corrupted bytes": the record-level claim for a given
   codec and decoder, and the same claim with no hypothesis on the decoder. *)
Definition C15_records_repairable (enc : list byte -> list byte) (chk : list byte -> list byte -> bool)
           (dec : list byte -> list byte -> option (list byte * list byte)) : Prop :=
  forall b ko, length b = rsz -> hamming b (mk_record enc ko) <= 9 -> accepted_as chk dec b ko.

Definition C15_full : Prop := forall enc chk dec,
  chk_enc_hyp enc chk -> enc_len_hyp enc -> code_dist_hyp chk -> C15_records_repairable enc chk dec.

(* C15_full does not hold: whatever the code, a decoder that refuses (raises) makes a record with
   a single wrong byte unrepairable — decoder completeness cannot be dispensed with.  The
   third-party decoder of codec 2 does refuse some words with exactly 9 wrong bytes (known finding
   C15-codec2-decoder-incomplete, replay findings/C15-codec2-decoder.json). *)
Theorem C15_refuted : forall enc chk,
  chk_enc_hyp enc chk -> enc_len_hyp enc -> code_dist_hyp chk ->
  ~ (forall dec, C15_records_repairable enc chk dec).
Proof.
  intros enc chk H1 H2 H3 Hall.
  pose (ko := (kind_marker, 0%N)).
  pose (b := x00 :: tl (mk_record enc ko)).
  assert (Hrec : mk_record enc ko = kind_marker :: tl (mk_record enc ko)) by reflexivity.
  assert (Hlen : length b = rsz).
  { unfold b. rewrite <- (mk_record_length enc ko H2). rewrite Hrec at 2. reflexivity. }
  assert (Hh : hamming b (mk_record enc ko) = 1).
  { unfold b. rewrite Hrec at 2. apply hamming_first_byte. discriminate. }
  assert (Hacc : accepted_as chk (fun _ _ => None) b ko).
  { apply Hall; [exact Hlen|rewrite Hh; repeat constructor]. }
  unfold accepted_as in Hacc.
  rewrite (refusing_decoder_skips enc chk H1 H2 H3 b ko Hlen) in Hacc; [discriminate|].
  rewrite Hh. unfold esz. split; repeat constructor.
Qed.
Print Assumptions C15_refuted.

(* With decoder completeness (the complement of the finding's classifier: the decoder never
   refuses a word with at most 9 wrong bytes) a 27-byte block with at most 9 wrong bytes yields
   the message of its record. *)
Theorem C15_partial : forall enc chk dec,
  chk_enc_hyp enc chk -> enc_len_hyp enc -> code_dist_hyp chk -> dec_complete_hyp enc dec ->
  C15_records_repairable enc chk dec.
Proof. intros enc chk dec H1 H2 H3 H4 b ko. exact (close_block_infos enc chk dec b ko H1 H2 H3 H4). Qed.
Print Assumptions C15_partial.

(* Recovery at threshold 0.  ecc' differs from the pristine file only inside marker/delimiter
   spans (however many, with arbitrary bytes), every index record has at most 9 wrong bytes:
   the output is the pristine ecc file. *)
Theorem C15_recover : forall enc chk dec,
  chk_enc_hyp enc chk -> enc_len_hyp enc -> code_dist_hyp chk -> dec_complete_hyp enc dec ->
  forall pre es ecc' recs' bs,
  let ecc := ecc_file pre es in
  let offs := index_offsets (lenN pre) es in
  (lenN ecc < 2 ^ 64)%N ->
  length ecc' = length ecc ->
  (forall i, nth_error ecc' i <> nth_error ecc i -> exists ko, In ko offs /\ in_span i ko) ->
  Forall2 (fun r' ko => length r' = rsz /\ hamming r' (mk_record enc ko) <= 9) recs' offs ->
  recover chk dec 0 0 bs ecc' (concat recs') = ecc.
Proof.
  intros enc chk dec H1 H2 H3 H4 pre es ecc' recs' bs ecc offs Hs Hl Hd HF.
  rewrite recover_zero. exact (recover_index_exact enc chk dec pre es Hs H1 H2 H3 H4 ecc' recs' Hl Hd HF).
Qed.
Print Assumptions C15_recover.

(* Skipping.  Whatever the index bytes idx' are (damaged, reordered, truncated, extended), as
   long as every 27-byte block (the last one possibly shorter) is either rejected — decoder
   fails, re-check fails, or the surviving content does not describe a marker inside the file —
   or accepted as a genuine record of this ecc file: the span of every accepted record holds
   the pristine bytes, every other byte of the damaged file is unchanged, the length is
   unchanged.  Rejected blocks stop nothing. *)
Theorem C15_skip : forall chk dec pre es ecc' idx' bs,
  let ecc := ecc_file pre es in
  let offs := index_offsets (lenN pre) es in
  (lenN ecc < 2 ^ 64)%N ->
  length ecc' = length ecc ->
  Forall (block_ok chk dec pre es) (chunks rsz idx') ->
  let r := recover chk dec 0 0 bs ecc' idx' in
  length r = length ecc /\
  (forall i ko b, In b (chunks rsz idx') -> In ko offs -> accepted_as chk dec b ko -> in_span i ko ->
                  nth_error r i = nth_error ecc i) /\
  (forall i, (forall ko b, In b (chunks rsz idx') -> In ko offs -> accepted_as chk dec b ko -> ~ in_span i ko) ->
             nth_error r i = nth_error ecc' i).
Proof.
  intros chk dec pre es ecc' idx' bs ecc offs Hs Hl Hok r. subst r. rewrite recover_zero.
  exact (recover_index_spec chk dec pre es Hs ecc' idx' Hl Hok).
Qed.
Print Assumptions C15_skip.

(* A truncated last record (or stray bytes after the last record) that the codec rejects
   changes nothing: the result is that of the index without it. *)
Theorem C15_truncated_tail : forall chk dec ecc' bl tail bs,
  Forall (fun b => length b = rsz) bl -> tail <> [] -> length tail < rsz ->
  block_write chk dec (length ecc') tail = None ->
  recover chk dec 0 0 bs ecc' (concat bl ++ tail) = recover chk dec 0 0 bs ecc' (concat bl).
Proof.
  intros chk dec ecc' bl tail bs Hbl Ht Hl Hr. rewrite !recover_zero.
  apply recover_index_tail_skipped; auto. apply Nat.lt_le_incl. exact Hl.
Qed.
Print Assumptions C15_truncated_tail.

(* At threshold 0 the Hamming-distance stage rewrites nothing, and recovery never changes the
   length of the file, for every index and every codec behaviour. *)
Theorem C15_threshold_zero : forall chk dec bs ecc idx,
  hamming_stage 0 0 bs ecc = ecc /\
  recover chk dec 0 0 bs ecc idx = recover_index chk dec ecc idx /\
  length (recover chk dec 0 0 bs ecc idx) = length ecc.
Proof.
  intros chk dec bs ecc idx. split; [apply hamming_stage_zero|]. split; [apply recover_zero|].
  rewrite recover_zero. apply recover_index_length.
Qed.
Print Assumptions C15_threshold_zero.

(* ---- Examples (non-vacuity; a toy codec stands in for Reed-Solomon: parity = the message
   twice, check = equality, decode = position-wise majority of the three copies) ---- *)
Definition toy_enc (m : list byte) : list byte := m ++ m.
Fixpoint lbeq (a b : list byte) : bool :=
  match a, b with [], [] => true | x :: a', y :: b' => byte_eqb x y && lbeq a' b' | _, _ => false end.
Definition toy_chk (m p : list byte) : bool := lbeq p (m ++ m).
Fixpoint maj3 (a b c : list byte) : list byte :=
  match a, b, c with
  | x :: a', y :: b', z :: c' => (if byte_eqb x y then x else if byte_eqb x z then x else y) :: maj3 a' b' c'
  | _, _, _ => []
  end.
Definition toy_dec (m p : list byte) : option (list byte * list byte) :=
  let r := maj3 m (firstn 9 p) (skipn 9 p) in Some (r, r ++ r).

Definition ex_entries : list ientry :=
  [ mk_ientry [x61; x2f; x62] [x30] [x50; x51] [x53] [];                    (* "a/b", empty file *)
    mk_ientry [x63] [x31; x32; x33] [x54] [x55; x56] [x01; x02; x03] ].
Definition ex_pre : list byte := [x2a; x2a; x0a].
Definition ex_ecc := ecc_file ex_pre ex_entries.
Definition ex_idx := gen_index toy_enc ex_pre ex_entries.

Example C15_example_offsets :
  map (fun ko => (fst ko, N.to_nat (snd ko))) (index_offsets (lenN ex_pre) ex_entries)
  = [(x31, 3); (x32, 16); (x32, 22); (x32, 29); (x32, 35);
     (x31, 40); (x32, 51); (x32, 59); (x32, 65); (x32, 72)]
  /\ firstn 10 (skipn 40 ex_ecc) = entrymarker /\ firstn 5 (skipn 72 ex_ecc) = field_delim
  /\ length ex_idx = 270.
Proof. vm_compute. repeat split; reflexivity. Qed.

Example C15_example_be64 : be64 1234567890 = [x00; x00; x00; x00; x49; x96; x02; xd2] /\ unbe (be64 1234567890) = 1234567890%N.
Proof. vm_compute. split; reflexivity. Qed.

(* every marker zeroed; one wrong byte in every record; record 3 overwritten entirely (the toy
   decoder then yields kind 0xEE, not a marker kind: skipped); 4 stray bytes at the end.
   All markers but the one of record 3 come back, record 3's span keeps the damage. *)
Definition zero_spans (ecc : list byte) : list byte :=
  fold_left (fun c ko => write_at c (N.to_nat (snd ko)) (repeat x00 (marker_len (fst ko))))
            (index_offsets (lenN ex_pre) ex_entries) ecc.
Definition ex_idx_damaged : list byte :=
  concat (map (fun j => let r := firstn 27 (skipn (27 * j) ex_idx) in
                        if j =? 3 then repeat xee 27 else x99 :: tl r) (seq 0 10)) ++ [x31; x00; x00; x00].

Example C15_example_recover :
  let out := recover toy_chk toy_dec 0 0 30 (zero_spans ex_ecc) ex_idx_damaged in
  out = write_at ex_ecc 29 (repeat x00 5) /\ out <> ex_ecc /\
  recover toy_chk toy_dec 0 0 30 (zero_spans ex_ecc)
          (concat (map (fun j => x99 :: tl (firstn 27 (skipn (27 * j) ex_idx))) (seq 0 10))) = ex_ecc.
Proof. vm_compute. repeat split; try reflexivity. discriminate. Qed.

(* ------------------------------------------------------------------ *)
(* C15_recover on the REAL (27,9) index code: enc / chk are the verified facade encoder and check of any of
   the four codecs (Facade.fac_encode / fac_check, n = 27, k = 9).  chk_enc, enc_len and the minimum distance
   (code_dist) are discharged from the Reed-Solomon algebra (Proofs/CodecInst.v); only decoder completeness
   (at most 9 wrong bytes => the decoder returns the record) remains a hypothesis on the third-party decoder. *)
From PFF Require Import Facade Proofs.CodecInst.

Theorem C15_recover_rs : forall (algo : N) dec,
  let enc := ienc algo 27 9 in let chk := ichk algo 27 9 in
  dec_complete_hyp enc dec ->
  forall pre es ecc' recs' bs,
  let ecc := ecc_file pre es in
  let offs := index_offsets (lenN pre) es in
  (lenN ecc < 2 ^ 64)%N ->
  length ecc' = length ecc ->
  (forall i, nth_error ecc' i <> nth_error ecc i -> exists ko, In ko offs /\ in_span i ko) ->
  Forall2 (fun r' ko => length r' = rsz /\ hamming r' (mk_record enc ko) <= 9) recs' offs ->
  recover chk dec 0 0 bs ecc' (concat recs') = ecc.
Proof.
  intros algo dec enc chk Hd.
  exact (C15_recover enc chk dec (index_chk_enc algo) (index_enc_len algo) (index_code_dist algo) Hd).
Qed.
Print Assumptions C15_recover_rs.

(* the three codec hypotheses of C15_offsets_bytes / C15_partial / C15_recover hold for the real code *)
Theorem C15_codec_hypotheses_rs : forall (algo : N),
  let enc := ienc algo 27 9 in let chk := ichk algo 27 9 in
  chk_enc_hyp enc chk /\ enc_len_hyp enc /\ code_dist_hyp chk.
Proof. intros algo. split; [exact (index_chk_enc algo)|]. split; [exact (index_enc_len algo)|exact (index_code_dist algo)]. Qed.
Print Assumptions C15_codec_hypotheses_rs.
