(* C05 — the hash audit (rfigc check mode) flags every changed recorded file and no unchanged one.
   Property theorems only; model in HashChk.v, vocabulary and proofs in Proofs/HashChkP.v.
   File contents are byte strings; md5 / sha1 are arbitrary functions (oracles): no assumption
   about them except the explicit no-double-collision premise [coll_free_at] on the pairs
   (recorded content, current content) of the trees at hand.
   T  = tree at generation time (relative path |-> (content, mtime)), T' = tree at check time;
   paths are relative, so a relocated root is the same T'.  *)
From Coq Require Import List NArith ZArith Bool.
From Coq Require Import Strings.Byte.
From PFF Require Import Bytes HashChk Proofs.HashChkP.
Import ListNotations.

Notation tree := (fs (list byte)).
Notation lookup := (fs_lookup (list byte)).
Notation gen md5 sha1 := (gen_db (list byte) bsize md5 sha1).
Notation check md5 sha1 := (check_db (list byte) bsize md5 sha1).
Notation missing := (attr_missing (list byte)).          (* lookup T' p = None *)
Notation content_changed := (attr_content (list byte)).  (* present with content <> recorded *)
Notation size_changed := (attr_size (list byte) bsize).  (* present with length <> recorded *)
Notation mtime_differs := (attr_mtime (list byte)).      (* present with mtime_changed now recorded = true *)
Notation no_double_collision md5 sha1 := (coll_free_at (list byte) md5 sha1).

(* The modification-time rule exactly as rfigc.py:573 compares: different AND different after
   rounding to the second (half to even).  Equal times are never flagged, a shift of more than
   one second always is, in between the rounded seconds decide. *)
Theorem C05_mtime_rule : forall now rec,
  mtime_changed now rec = (negb (now =? rec)%Z && negb (round_sec now =? round_sec rec)%Z) /\
  mtime_changed now rec = negb (round_sec now =? round_sec rec)%Z /\
  mtime_changed rec rec = false /\
  ((UNIT < Z.abs (now - rec))%Z -> mtime_changed now rec = true).
Proof.
  intros now rec. split; [reflexivity|]. split; [apply mtime_changed_round|].
  split; [apply mtime_changed_same|apply mtime_changed_far].
Qed.
Print Assumptions C05_mtime_rule.

(* Same tree (in place, or copied elsewhere with contents and times preserved; files that were
   not recorded may have appeared): no error, nothing in the errors file, exit 0 — whatever the options. *)
Theorem C05_clean : forall md5 sha1 o (T T' : tree),
  NoDup (map fst T) ->
  (forall p e, lookup T p = Some e -> lookup T' p = Some e) ->
  check md5 sha1 o None T' (gen md5 sha1 T) = ([], [], false).
Proof. intros md5 sha1. exact (check_clean (list byte) bsize md5 sha1). Qed.
Print Assumptions C05_clean.

(* Default options: the reported paths are exactly the recorded paths whose file is missing or
   whose content, size or modification time changed; each once; the errors file has the same rows;
   exit status non-zero iff something is reported. *)
Theorem C05_exact : forall md5 sha1 (T T' : tree) rep ef ex,
  NoDup (map fst T) ->
  no_double_collision md5 sha1 T T' ->
  check md5 sha1 default_opts None T' (gen md5 sha1 T) = (rep, ef, ex) ->
  (forall p, In p (map fst rep) <->
     exists c m, lookup T p = Some (c, m) /\
       (missing T' p \/ content_changed T' p c \/ size_changed T' p c \/ mtime_differs T' p m)) /\
  NoDup (map fst rep) /\ ef = rep /\ (ex = true <-> rep <> []).
Proof.
  intros md5 sha1 T T' rep ef ex Hnd Hcf Hck.
  destruct (check_options_exact (list byte) bsize md5 sha1 default_opts T T' rep ef ex Hnd (fun _ => Hcf) Hck)
    as (H1 & H2). split; [|exact H2].
  intros p. rewrite (H1 p). unfold flagged. simpl. split.
  - intros (c & m & HT & Hf). exists c, m. tauto.
  - intros (c & m & HT & Hf). exists c, m. tauto.
Qed.
Print Assumptions C05_exact.

(* Any option combination: each of --skip_missing, --skip_hash, -m removes exactly its own
   attribute from the rule (the size comparison cannot be disabled). *)
Theorem C05_options : forall md5 sha1 o (T T' : tree) rep ef ex,
  NoDup (map fst T) ->
  (skip_hash o = false -> no_double_collision md5 sha1 T T') ->
  check md5 sha1 o None T' (gen md5 sha1 T) = (rep, ef, ex) ->
  (forall p, In p (map fst rep) <->
     exists c m, lookup T p = Some (c, m) /\
       ((missing T' p /\ skip_missing o = false) \/
        (content_changed T' p c /\ skip_hash o = false) \/
        size_changed T' p c \/
        (mtime_differs T' p m /\ no_mtime o = false))) /\
  NoDup (map fst rep) /\ ef = rep /\ (ex = true <-> rep <> []).
Proof. intros md5 sha1. exact (check_options_exact (list byte) bsize md5 sha1). Qed.
Print Assumptions C05_options.

(* The error kinds attached to a reported path: one per attribute, each silenced by its own option only. *)
Theorem C05_kinds : forall md5 sha1 o (T T' : tree) rep ef ex p ks c m,
  NoDup (map fst T) ->
  (skip_hash o = false -> no_double_collision md5 sha1 T T') ->
  check md5 sha1 o None T' (gen md5 sha1 T) = (rep, ef, ex) ->
  In (p, ks) rep -> lookup T p = Some (c, m) ->
  (In EMissing ks <-> (missing T' p /\ skip_missing o = false)) /\
  ((In EBoth ks \/ In EOne ks) <-> (content_changed T' p c /\ skip_hash o = false)) /\
  (In ESize ks <-> size_changed T' p c) /\
  (In EMtime ks <-> (mtime_differs T' p m /\ no_mtime o = false)) /\
  ~ In EExt ks.
Proof. intros md5 sha1. exact (check_kinds (list byte) bsize md5 sha1). Qed.
Print Assumptions C05_kinds.

(* Single-file input  -i root/t : the intended statement — the check is restricted to the row of t. *)
Definition C05_single_full : Prop :=
  forall md5 sha1 o (T T' : tree) t,
    NoDup (map fst T) ->
    (skip_hash o = false -> no_double_collision md5 sha1 T T') ->
    lookup T' t <> None ->
    single_statement (list byte) bsize md5 sha1 o T T' t.

(* It fails for a file below the top level: the row path is joined to the PARENT of the input
   file, so the row of d/a is never selected and a changed d/a is reported clean (known finding). *)
Theorem C05_single_refuted : ~ C05_single_full.
Proof.
  intros H.
  pose (pa := ["d"; "/"; "a"]%byte).
  pose (T := [(pa, ([x01], 0%Z))] : tree). pose (T' := [(pa, ([x02], 0%Z))] : tree).
  assert (Hnd : NoDup (map fst T)) by (repeat constructor; simpl; tauto).
  assert (Hcf : skip_hash default_opts = false -> no_double_collision (fun c => c) (fun c => c) T T').
  { intros _ p c m c' m' _ _ E _. exact E. }
  assert (Hex : lookup T' pa <> None) by (vm_compute; discriminate).
  destruct (H (fun c => c) (fun c => c) default_opts T T' pa Hnd Hcf Hex [] [] false eq_refl) as [Hiff _].
  assert (Hin : In pa (map fst (@nil (path * list errkind)))).
  { apply Hiff. split; [reflexivity|]. exists [x01], 0%Z. split; [reflexivity|].
    right; left. split; [|reflexivity]. exists [x02], 0%Z. split; [reflexivity|discriminate]. }
  exact Hin.
Qed.
Print Assumptions C05_single_refuted.

(* It holds for a file directly under the database root (no '/' in t). *)
Theorem C05_single_partial : forall md5 sha1 o (T T' : tree) t,
  NoDup (map fst T) ->
  (skip_hash o = false -> no_double_collision md5 sha1 T T') ->
  lookup T' t <> None ->
  basename t = t ->
  forall rep ef ex, check md5 sha1 o (Some t) T' (gen md5 sha1 T) = (rep, ef, ex) ->
    (forall p, In p (map fst rep) <->
       (p = t /\ exists c m, lookup T t = Some (c, m) /\
          ((missing T' t /\ skip_missing o = false) \/
           (content_changed T' t c /\ skip_hash o = false) \/
           size_changed T' t c \/
           (mtime_differs T' t m /\ no_mtime o = false)))) /\
    NoDup (map fst rep) /\ ef = rep /\ (ex = true <-> rep <> []).
Proof.
  intros md5 sha1 o T T' t Hnd Hcf _ Hb.
  exact (check_single_top (list byte) bsize md5 sha1 o T T' t Hnd Hcf Hb).
Qed.
Print Assumptions C05_single_partial.

(* ---------- non-vacuity: concrete trees, identity "digests" ---------- *)
Definition ex_a : path := ["a"; "."; "t"]%byte.
Definition ex_b : path := ["s"; "/"; "|"; """"]%byte.
Definition ex_c : path := ["c"]%byte.
Definition ex_T : tree := [(ex_a, ([x01; x02], 100%Z)); (ex_c, ([x03], 200%Z)); (ex_b, ([], 300%Z))].
(* a: one bit flipped, size and time kept; c: deleted; b: touched by 3 s *)
Definition ex_T' : tree := [(ex_a, ([x01; x03], 100%Z)); (ex_b, ([], 300 + 3 * UNIT)%Z)].
Definition idh (c : list byte) := c.

Example C05_ex_clean : check idh idh default_opts None ex_T (gen idh idh ex_T) = ([], [], false).
Proof. vm_compute. reflexivity. Qed.
Example C05_ex_mutated :
  check idh idh default_opts None ex_T' (gen idh idh ex_T)
  = ([(ex_a, [EBoth]); (ex_c, [EMissing]); (ex_b, [EMtime])],
     [(ex_a, [EBoth]); (ex_c, [EMissing]); (ex_b, [EMtime])], true).
Proof. vm_compute. reflexivity. Qed.
Example C05_ex_options :
  check idh idh (mkOpts true true true) None ex_T' (gen idh idh ex_T) = ([], [], false).
Proof. vm_compute. reflexivity. Qed.
Example C05_ex_hyp : NoDup (map fst ex_T) /\ no_double_collision idh idh ex_T ex_T'.
Proof. split; [repeat constructor; simpl; intuition discriminate|]. intros p c m c' m' _ _ E _. exact E. Qed.
(* the mtime rule inside one second: 10.25 s -> 10.375 s is not flagged, 10.375 s -> 10.625 s is *)
Example C05_ex_subsecond :
  mtime_changed (10 * UNIT + UNIT / 8 * 3) (10 * UNIT + UNIT / 4) = false /\
  mtime_changed (10 * UNIT + UNIT / 8 * 5) (10 * UNIT + UNIT / 8 * 3) = true /\
  mtime_changed (2 * UNIT + UNIT / 2) (UNIT + UNIT / 2) = false.   (* 1.5 -> 2.5: both round to 2 *)
Proof. vm_compute. repeat split. Qed.
Example C05_ex_ext : ext_of ex_a = ["."; "t"]%byte /\ ext_of ex_b = [] /\ ext_of ["."; "."; "h"; "."; "e"]%byte = ["."; "e"]%byte.
Proof. vm_compute. repeat split. Qed.
