(* C09 — entry metadata (relative path, file size) is stored with its own intra-ecc, round-trips exactly
   and is repaired within floor(parity/2) wrong symbols per intra block.  Both ecc tools.
   Property theorems only; proofs are in Proofs/EntryP.v.

   Codec oracle (Section variables, k = intra message size >= 1, es = intra parity size):
     enc m    = ECCMan.encode(m)            chk m c = ECCMan.check(m, c)          dec m c = ECCMan.decode(m, c)
   Named hypotheses, used only where stated:
     enc_len      |enc m| = es                                   for |m| <= k
     chk_enc      chk m (enc m) = true                           for |m| <= k
     chk_detect   1..es wrong symbols w.r.t. a codeword => chk = false
                  (follows from check soundness + minimum distance: chk_detect_from_distance)
     dec_complete <= floor(es/2) wrong symbols w.r.t. a codeword (m, enc m) => dec returns Some (m, enc m)
   `unambiguous` (Entry.v, decidable): the path is non-empty and in none of the four fields does the
   field delimiter occur inside the field or straddling its end and the delimiter that follows. *)
From Coq Require Import List Arith NArith ZArith Bool Lia.
From Coq Require Import Strings.Byte.
From PFF Require Import Bytes Entry Proofs.EntryP.
Import ListNotations.

Notation D := field_delim.

Section C09.
  Variables (k es : nat).
  Variable enc : list byte -> list byte.
  Variable chk : list byte -> list byte -> bool.
  Variable dec : list byte -> list byte -> option (list byte * list byte).
  Hypothesis k_pos : 1 <= k.

  (* The intra blocks tile the field; generation and both correction walks use the same tiling. *)
  Theorem C09_block_layout : forall field ecc,
    (* the k-chunks are consecutive, cover the field exactly, none longer than k *)
    concat (chunks k field) = field /\ Forall (fun c => length c <= k) (chunks k field) /\
    (* generation (both tools): the parity of each chunk, in order *)
    hdr_intra_encode k enc field = concat (map enc (chunks k field)) /\
    whole_intra_encode k enc field = concat (map enc (chunks k field)) /\
    (* correction: the zip of two ranges (header tool) and the cursor loop (whole-file tool) pair the i-th
       k-chunk of the field with the i-th es-chunk of the parity track, for ANY field and track *)
    (1 <= es -> hdr_blocks k es field ecc = intra_blocks k es field ecc /\
                whole_blocks k es field ecc = intra_blocks k es field ecc) /\
    (* hence on a generated track each chunk meets its own parity *)
    (1 <= es -> (forall m, length m <= k -> length (enc m) = es) ->
       intra_blocks k es field (concat (map enc (chunks k field))) = map (fun m => (m, enc m)) (chunks k field)).
  Proof.
    intros field ecc. split; [apply concat_chunks; exact k_pos|]. split; [apply chunks_le; exact k_pos|].
    split; [apply hdr_intra_encode_eq; exact k_pos|]. split; [apply whole_intra_encode_eq; exact k_pos|].
    split.
    - intros He. split; [apply hdr_blocks_eq|apply whole_blocks_eq]; assumption.
    - intros He Hl. apply blocks_generated; assumption.
  Qed.

  Hypothesis enc_len : forall m, length m <= k -> length (enc m) = es.
  Hypothesis chk_enc : forall m, length m <= k -> chk m (enc m) = true.

  (* Undamaged: for every path, size and geometry (es = 0 included) the entry written by generation is
     read back as exactly the recorded path and size, nothing reported as corrupted, and the block track
     is found where it starts.  Header tool: the entry is the text between two markers; whole-file tool:
     the entry lies at any offset of the ecc file and is followed by anything. *)
  Theorem C09_roundtrip : forall path size rest,
    (unambiguous D path (decimal size) (hdr_intra_encode k enc path) (hdr_intra_encode k enc (decimal size)) = true ->
     hdr_entry_meta k es chk dec D (format_meta (hdr_intra_encode k enc) D path size ++ rest) =
     ((path, false, true), (decimal size, false, true), Some (Z.of_N size), rest)) /\
    (forall bs pre pos1,
     unambiguous D path (decimal size) (whole_intra_encode k enc path) (whole_intra_encode k enc (decimal size)) = true ->
     length (format_meta (whole_intra_encode k enc) D path size) <= bs ->
     whole_entry_meta k es chk dec bs D (pre ++ format_meta (whole_intra_encode k enc) D path size ++ rest) (zlen pre) pos1 =
     ((path, false, true), (decimal size, false, true), Some (Z.of_N size),
      ((zlen pre + zlen (format_meta (whole_intra_encode k enc) D path size))%Z, pos1))).
  Proof.
    intros path size rest. split.
    - apply hdr_meta_roundtrip; assumption.
    - intros bs pre pos1. apply whole_meta_roundtrip; assumption.
  Qed.

  (* the same for the two correction functions alone, any field *)
  Theorem C09_intra_roundtrip : forall field,
    hdr_intra_correct k es chk dec field (hdr_intra_encode k enc field) = (field, false, true) /\
    whole_intra_correct k es chk dec field (whole_intra_encode k enc field) = (field, false, true).
  Proof. intros field. split; [apply hdr_intra_roundtrip|apply whole_intra_roundtrip]; assumption. Qed.

  Hypothesis es_pos : 1 <= es.
  Hypothesis chk_detect : forall m m' c', length m <= k -> length m' = length m -> length c' = es ->
    0 < hamming m' m + hamming c' (enc m) <= es -> chk m' c' = false.
  Hypothesis dec_complete : forall m m' c', length m <= k -> length m' = length m -> length c' = es ->
    hamming m' m + hamming c' (enc m) <= es / 2 -> dec m' c' = Some (m, enc m).

  (* Damaged: path', size', pecc', secc' are the four stored fields after substitution damage (same
     lengths, delimiters intact) with at most floor(es/2) wrong symbols in every intra block (chunk of the
     field + its parity chunk), any byte values, and the damaged entry still unambiguous (the damage spells
     no additional delimiter).  Then the exact path and size are recovered, both reported as corrected, the
     block track is found where it starts — i.e. the rest of the round processes the same (path, size, track)
     as for the undamaged entry — and `corrupted` is reported exactly for a field that really differs. *)
  Theorem C09_repair : forall path size path' size' pecc' secc' rest,
    (within_bound k es path path' (hdr_intra_encode k enc path) pecc' ->
     within_bound k es (decimal size) size' (hdr_intra_encode k enc (decimal size)) secc' ->
     unambiguous D path' size' pecc' secc' = true ->
     exists fp fs,
       hdr_entry_meta k es chk dec D (join_meta D path' size' pecc' secc' ++ rest) =
       ((path, fp, true), (decimal size, fs, true), Some (Z.of_N size), rest) /\
       (fp = false <-> (path' = path /\ pecc' = hdr_intra_encode k enc path)) /\
       (fs = false <-> (size' = decimal size /\ secc' = hdr_intra_encode k enc (decimal size)))) /\
    (forall bs pre pos1,
     within_bound k es path path' (whole_intra_encode k enc path) pecc' ->
     within_bound k es (decimal size) size' (whole_intra_encode k enc (decimal size)) secc' ->
     unambiguous D path' size' pecc' secc' = true ->
     length (join_meta D path' size' pecc' secc') <= bs ->
     exists fp fs,
       whole_entry_meta k es chk dec bs D (pre ++ join_meta D path' size' pecc' secc' ++ rest) (zlen pre) pos1 =
       ((path, fp, true), (decimal size, fs, true), Some (Z.of_N size),
        ((zlen pre + zlen (join_meta D path' size' pecc' secc'))%Z, pos1)) /\
       (fp = false <-> (path' = path /\ pecc' = whole_intra_encode k enc path)) /\
       (fs = false <-> (size' = decimal size /\ secc' = whole_intra_encode k enc (decimal size)))).
  Proof.
    intros path size path' size' pecc' secc' rest. split.
    - apply hdr_meta_repair; assumption.
    - intros bs pre pos1. apply whole_meta_repair; assumption.
  Qed.
End C09.
Print Assumptions C09_block_layout.
Print Assumptions C09_roundtrip.
Print Assumptions C09_intra_roundtrip.
Print Assumptions C09_repair.

(* str(size) is read back by int() as the same number, and decimal text never collides with the delimiter *)
Theorem decimal_roundtrip : forall n, py_int (decimal n) = Some (Z.of_N n) /\ clean D (decimal n) = true /\ decimal n <> [].
Proof. intros n. split; [apply py_int_decimal|]. split; [apply clean_decimal|apply nonempty_decimal]. Qed.
Print Assumptions decimal_roundtrip.

(* the detection hypothesis is a consequence of check soundness and the minimum distance of the code *)
Theorem C09_chk_detect_from_distance : forall (k es : nat) (enc : list byte -> list byte) (chk : list byte -> list byte -> bool),
  (forall m c, length m <= k -> length c = es -> chk m c = true -> c = enc m) ->
  (forall m1 m2, length m1 <= k -> length m2 = length m1 -> m1 <> m2 -> es < hamming m1 m2 + hamming (enc m1) (enc m2)) ->
  forall m m' c', length m <= k -> length m' = length m -> length c' = es ->
    0 < hamming m' m + hamming c' (enc m) <= es -> chk m' c' = false.
Proof. exact chk_detect_from_distance. Qed.
Print Assumptions C09_chk_detect_from_distance.

(* ------------------------------------------------------------------------------------------------------
   Open finding (the format keeps its delimiters in-band).  The property as stated — every path — without
   the condition on the path: *)
Definition C09_full : Prop :=
  forall (k es : nat) (enc : list byte -> list byte) (chk : list byte -> list byte -> bool)
         (dec : list byte -> list byte -> option (list byte * list byte)),
    1 <= k -> (forall m, length m <= k -> length (enc m) = es) -> (forall m, length m <= k -> chk m (enc m) = true) ->
    forall path size rest, path <> [] ->
      clean D (hdr_intra_encode k enc path) = true -> clean D (hdr_intra_encode k enc (decimal size)) = true ->
      hdr_entry_meta k es chk dec D (format_meta (hdr_intra_encode k enc) D path size ++ rest) =
      ((path, false, true), (decimal size, false, true), Some (Z.of_N size), rest).

(* refuted by a name ending with the first two bytes of the delimiter: "ab\xFA\xFF", size 5 *)
Theorem C09_refuted : ~ C09_full.
Proof.
  intros H.
  specialize (H 8 1 (fun _ => [x00]) (fun _ _ => true) (fun _ _ => None)).
  specialize (H ltac:(lia) ltac:(reflexivity) ltac:(reflexivity) [x61; x62; xfa; xff] 5%N [] ltac:(discriminate)).
  specialize (H ltac:(vm_compute; reflexivity) ltac:(vm_compute; reflexivity)).
  vm_compute in H. discriminate H.
Qed.
Print Assumptions C09_refuted.

(* proved with the complement of the finding's classifier: the delimiter does not occur in path ++ delimiter
   before the appended one *)
Theorem C09_partial :
  forall (k es : nat) (enc : list byte -> list byte) (chk : list byte -> list byte -> bool)
         (dec : list byte -> list byte -> option (list byte * list byte)),
    1 <= k -> (forall m, length m <= k -> length (enc m) = es) -> (forall m, length m <= k -> chk m (enc m) = true) ->
    forall path size rest, path <> [] ->
      clean D (hdr_intra_encode k enc path) = true -> clean D (hdr_intra_encode k enc (decimal size)) = true ->
      clean D path = true ->
      hdr_entry_meta k es chk dec D (format_meta (hdr_intra_encode k enc) D path size ++ rest) =
      ((path, false, true), (decimal size, false, true), Some (Z.of_N size), rest).
Proof.
  intros k es enc chk dec Hk Hl Hc path size rest Hn Hpe Hse Hp.
  apply (hdr_meta_roundtrip k es enc chk dec Hk Hl Hc).
  unfold unambiguous. rewrite Hp, Hpe, Hse, clean_decimal. destruct path; [congruence|reflexivity].
Qed.
Print Assumptions C09_partial.

(* ------------------------------------------------------------------------------------------------------
   Non-vacuity: a concrete code satisfying every hypothesis (threefold repetition: k = 1, parity 2 > message),
   a multi-block path, damage at the bound in every block. *)
Definition rep_enc (m : list byte) : list byte := match m with [a] => [a; a] | _ => [x00; x00] end.
Definition rep_chk (m c : list byte) : bool :=
  match m, c with
  | [x], [y; z] => byte_eqb y x && byte_eqb z x
  | [], [y; z] => byte_eqb y x00 && byte_eqb z x00
  | _, _ => false
  end.
Definition rep_dec (m c : list byte) : option (list byte * list byte) :=
  match m, c with
  | [x], [y; z] => if byte_eqb x y then Some ([x], [x; x]) else if byte_eqb x z then Some ([x], [x; x])
                   else if byte_eqb y z then Some ([y], [y; y]) else None
  | [], _ => Some ([], [x00; x00])
  | _, _ => None
  end.

Example rep_hypotheses :
  (forall m, length m <= 1 -> length (rep_enc m) = 2) /\
  (forall m, length m <= 1 -> rep_chk m (rep_enc m) = true) /\
  (forall m m' c', length m <= 1 -> length m' = length m -> length c' = 2 ->
     0 < hamming m' m + hamming c' (rep_enc m) <= 2 -> rep_chk m' c' = false) /\
  (forall m m' c', length m <= 1 -> length m' = length m -> length c' = 2 ->
     hamming m' m + hamming c' (rep_enc m) <= 2 / 2 -> rep_dec m' c' = Some (m, rep_enc m)).
Proof.
  split; [|split; [|split]].
  - intros [|a [|b m]] H; try reflexivity; simpl in H; lia.
  - intros [|a [|b m]] H; unfold rep_chk; simpl; rewrite ?byte_eqb_refl; try reflexivity; simpl in H; lia.
  - intros [|a [|b m]] m' c' Hm Hl Hc Hd; [| |simpl in Hm; lia].
    + destruct m'; [|discriminate]. destruct c' as [|y [|z [|? ?]]]; try discriminate.
      unfold rep_chk. simpl in *. destruct (byte_eqb_spec y x00), (byte_eqb_spec z x00); simpl; try reflexivity; lia.
    + destruct m' as [|x [|? ?]]; try discriminate. destruct c' as [|y [|z [|? ?]]]; try discriminate.
      unfold rep_chk. simpl in *.
      destruct (byte_eqb_spec y x), (byte_eqb_spec z x); simpl; try reflexivity. subst.
      destruct (byte_eqb_spec x a); simpl in Hd; lia.
  - intros [|a [|b m]] m' c' Hm Hl Hc Hd; [| |simpl in Hm; lia].
    + destruct m'; [|discriminate]. reflexivity.
    + destruct m' as [|x [|? ?]]; try discriminate. destruct c' as [|y [|z [|? ?]]]; try discriminate.
      simpl in *.
      destruct (byte_eqb_spec x a), (byte_eqb_spec y a), (byte_eqb_spec z a); subst; simpl in Hd; try lia;
        repeat (rewrite ?byte_eqb_refl; match goal with
                | |- context [byte_eqb ?u ?v] => destruct (byte_eqb_spec u v); try congruence
                end); rewrite ?byte_eqb_refl; try reflexivity.
Qed.

(* path "ab/c" = four intra blocks; every block of path, size and their parity hit by one wrong symbol
   (= floor(2/2)), digits turned into non-digits; both tools; the track "TRACK" is found behind it *)
Example C09_example_repair :
  let pe := hdr_intra_encode 1 rep_enc [x61; x62; x2f; x63] in
  let se := hdr_intra_encode 1 rep_enc (decimal 1024) in
  pe = [x61; x61; x62; x62; x2f; x2f; x63; x63] /\ decimal 1024 = [x31; x30; x32; x34] /\
  hdr_entry_meta 1 2 rep_chk rep_dec D
    (join_meta D [xfa; x62; x2f; x63] [x31; x58; x32; x20] [x61; x61; x62; x00; x2f; xff; x63; x00] [x00; x31; x30; x30; x32; xff; x34; x34]
     ++ [x54; x52; x41; x43; x4b]) =
  (([x61; x62; x2f; x63], true, true), (decimal 1024, true, true), Some 1024%Z, [x54; x52; x41; x43; x4b]) /\
  whole_entry_meta 1 2 rep_chk rep_dec 100 D
    ([x2a; x2a] ++ join_meta D [xfa; x62; x2f; x63] [x31; x58; x32; x20] [x61; x61; x62; x00; x2f; xff; x63; x00] [x00; x31; x30; x30; x32; xff; x34; x34]
     ++ [x54; x52; x41; x43; x4b]) 2 99 =
  (([x61; x62; x2f; x63], true, true), (decimal 1024, true, true), Some 1024%Z, (46%Z, 99%Z)).
Proof. vm_compute. repeat split. Qed.

(* undamaged, parity longer than the message, a name starting and ending with delimiter bytes *)
Example C09_example_roundtrip :
  hdr_entry_meta 1 2 rep_chk rep_dec D (format_meta (hdr_intra_encode 1 rep_enc) D [xff; x61; xfa] 1000000000000 ++ [x54]) =
  (([xff; x61; xfa], false, true), (decimal 1000000000000, false, true), Some 1000000000000%Z, [x54]).
Proof. vm_compute. reflexivity. Qed.

(* ------------------------------------------------------------------ *)
(* The same two theorems on the REAL codecs: enc / chk are the verified facade encoder and check
   (Facade.fac_encode / fac_check over GF(2^8), any of the four codecs, intra geometry k + es <= 255).
   enc_len, chk_enc and chk_detect are no longer hypotheses: they are discharged from the Reed-Solomon
   algebra (Proofs/CodecInst.v).  Only decoder completeness remains assumed (third-party decoders). *)
From PFF Require Import Facade Proofs.CodecInst.

Theorem C09_roundtrip_rs : forall (algo : N) (k es : nat) dec, 1 <= k -> k + es <= 255 ->
  let enc := ienc algo (k + es) k in let chk := ichk algo (k + es) k in
  forall path size rest,
  (unambiguous D path (decimal size) (hdr_intra_encode k enc path) (hdr_intra_encode k enc (decimal size)) = true ->
   hdr_entry_meta k es chk dec D (format_meta (hdr_intra_encode k enc) D path size ++ rest) =
   ((path, false, true), (decimal size, false, true), Some (Z.of_N size), rest)) /\
  (forall bs pre pos1,
   unambiguous D path (decimal size) (whole_intra_encode k enc path) (whole_intra_encode k enc (decimal size)) = true ->
   length (format_meta (whole_intra_encode k enc) D path size) <= bs ->
   whole_entry_meta k es chk dec bs D (pre ++ format_meta (whole_intra_encode k enc) D path size ++ rest) (zlen pre) pos1 =
   ((path, false, true), (decimal size, false, true), Some (Z.of_N size),
    ((zlen pre + zlen (format_meta (whole_intra_encode k enc) D path size))%Z, pos1))).
Proof.
  intros algo k es dec Hk Hn enc chk.
  exact (C09_roundtrip k es enc chk dec Hk (entry_enc_len algo k es Hk Hn) (entry_chk_enc algo k es)).
Qed.
Print Assumptions C09_roundtrip_rs.

Theorem C09_repair_rs : forall (algo : N) (k es : nat) dec, 1 <= k -> 1 <= es -> k + es <= 255 ->
  let enc := ienc algo (k + es) k in let chk := ichk algo (k + es) k in
  (* the one remaining oracle hypothesis: the decoder returns the codeword when at most es/2 symbols are wrong *)
  (forall m m' c', length m <= k -> length m' = length m -> length c' = es ->
     Entry.hamming m' m + Entry.hamming c' (enc m) <= es / 2 -> dec m' c' = Some (m, enc m)) ->
  forall path size path' size' pecc' secc' rest,
  (within_bound k es path path' (hdr_intra_encode k enc path) pecc' ->
   within_bound k es (decimal size) size' (hdr_intra_encode k enc (decimal size)) secc' ->
   unambiguous D path' size' pecc' secc' = true ->
   exists fp fs,
     hdr_entry_meta k es chk dec D (join_meta D path' size' pecc' secc' ++ rest) =
     ((path, fp, true), (decimal size, fs, true), Some (Z.of_N size), rest) /\
     (fp = false <-> (path' = path /\ pecc' = hdr_intra_encode k enc path)) /\
     (fs = false <-> (size' = decimal size /\ secc' = hdr_intra_encode k enc (decimal size)))) /\
  (forall bs pre pos1,
   within_bound k es path path' (whole_intra_encode k enc path) pecc' ->
   within_bound k es (decimal size) size' (whole_intra_encode k enc (decimal size)) secc' ->
   unambiguous D path' size' pecc' secc' = true ->
   length (join_meta D path' size' pecc' secc') <= bs ->
   exists fp fs,
     whole_entry_meta k es chk dec bs D (pre ++ join_meta D path' size' pecc' secc' ++ rest) (zlen pre) pos1 =
     ((path, fp, true), (decimal size, fs, true), Some (Z.of_N size),
      ((zlen pre + zlen (join_meta D path' size' pecc' secc'))%Z, pos1)) /\
     (fp = false <-> (path' = path /\ pecc' = whole_intra_encode k enc path)) /\
     (fs = false <-> (size' = decimal size /\ secc' = whole_intra_encode k enc (decimal size)))).
Proof.
  intros algo k es dec Hk He Hn enc chk Hdec.
  exact (C09_repair k es enc chk dec Hk (entry_enc_len algo k es Hk Hn) (entry_chk_enc algo k es) He
           (entry_chk_detect algo k es Hk Hn) Hdec).
Qed.
Print Assumptions C09_repair_rs.
