(* HashChk.v — executable model of the hash database of pyFileFixity/rfigc.py:
   generation (-g), check mode (default mode, with -m / --skip_hash / --skip_missing and the
   single-file input filter) and file-scraping recovery (--filescraping_recovery).
   Update mode (-u) is NOT modelled here (HashUpd.v).  Model only: no property proofs inside.

   Conventions
   * a path is the utf-8 byte string of the posix relative path stored in the database;
   * a filesystem tree is an association list  relative path |-> (content, mtime)  listed in the
     order of aux_funcs.recwalk (the order only matters for the order of database rows);
   * the content type, its size and the two digests are Section variables (oracles): the
     theorems instantiate content := list byte, the extracted driver instantiates it with a
     table entry (id, md5 hex, sha1 hex, size) measured on the real files;
   * an mtime is the float st_mtime expressed exactly as an integer number of 2^-24 s
     (every float between 2^28 s and 2^53 s is such a number); round_sec is Python's
     round(x, 0) (half to even) on that representation. *)
From Coq Require Import List NArith ZArith Bool.
From Coq Require Import Strings.Byte.
From PFF Require Import Bytes.
Import ListNotations.

Definition path := list byte.

Fixpoint bytes_eqb (a b : list byte) : bool :=
  match a, b with
  | [], [] => true
  | x :: a', y :: b' => byte_eqb x y && bytes_eqb a' b'
  | _, _ => false
  end.

(* ---------- modification times ---------- *)
Definition UNIT : Z := 16777216.            (* 2^24 units per second *)

Definition round_sec (t : Z) : Z :=
  let q := (t / UNIT)%Z in
  let r := (t mod UNIT)%Z in
  if (2 * r <? UNIT)%Z then q
  else if (UNIT <? 2 * r)%Z then (q + 1)%Z
  else if Z.even q then q else (q + 1)%Z.

(* rfigc.py:573  lastmodif != recorded and round(lastmodif,0) != round(recorded,0) *)
Definition mtime_changed (now rec : Z) : bool :=
  negb (now =? rec)%Z && negb (round_sec now =? round_sec rec)%Z.

(* ---------- os.path.splitext(...)[1] and os.path.basename on posix paths ---------- *)
Definition b_dot : byte := "."%byte.
Definition b_slash : byte := "/"%byte.

Fixpoint basename_acc (l acc : list byte) : list byte :=
  match l with
  | [] => acc
  | x :: t => if byte_eqb x b_slash then basename_acc t [] else basename_acc t (acc ++ [x])
  end.
Definition basename (p : path) : list byte := basename_acc p [].

Fixpoint drop_dots (l : list byte) : list byte :=
  match l with
  | x :: t => if byte_eqb x b_dot then drop_dots t else l
  | [] => []
  end.

(* suffix starting at the last '.' *)
Fixpoint last_dot_suffix (l : list byte) : option (list byte) :=
  match l with
  | [] => None
  | x :: t => match last_dot_suffix t with
              | Some s => Some s
              | None => if byte_eqb x b_dot then Some (x :: t) else None
              end
  end.

Definition ext_of (p : path) : list byte :=
  match last_dot_suffix (drop_dots (basename p)) with Some s => s | None => [] end.

(* ---------- database rows, options, error kinds ---------- *)
Record row := mkRow { r_path : path; r_md5 : list byte; r_sha1 : list byte;
                      r_mtime : Z; r_size : N; r_ext : list byte }.

Record opts := mkOpts { skip_hash : bool;        (* --skip_hash *)
                        no_mtime : bool;         (* -m / --disable_modification_date_checking *)
                        skip_missing : bool }.   (* --skip_missing *)
Definition default_opts : opts := mkOpts false false false.

Inductive errkind := EMissing | EBoth | EOne | EExt | ESize | EMtime.

Definition null {A} (l : list A) : bool := match l with [] => true | _ => false end.

Section HashChk.
  Variable content : Type.
  Variable csize : content -> N.
  Variables md5 sha1 : content -> list byte.

  Definition fs := list (path * (content * Z)).

  Fixpoint fs_lookup (f : fs) (p : path) : option (content * Z) :=
    match f with
    | [] => None
    | (q, e) :: t => if bytes_eqb p q then Some e else fs_lookup t p
    end.

  (* ----- generation: one row per walked file (rfigc.py:403-438, default options) ----- *)
  Definition gen_row (e : path * (content * Z)) : row :=
    let '(p, (c, m)) := e in mkRow p (md5 c) (sha1 c) m (csize c) (ext_of p).
  Definition gen_db (f : fs) : list row := map gen_row f.

  (* ----- check mode (rfigc.py:510-588) ----- *)
  (* lines 565-568 *)
  Definition hash_errs (o : opts) (c : content) (r : row) : list errkind :=
    if skip_hash o then [] else
    let a := bytes_eqb (md5 c) (r_md5 r) in
    let b := bytes_eqb (sha1 c) (r_sha1 r) in
    if negb a && negb b then [EBoth]
    else if (a && negb b) || (negb a && b) then [EOne] else [].

  (* lines 565-574, for the file found at [key] with content c and mtime m *)
  Definition check_file (o : opts) (key : path) (c : content) (m : Z) (r : row) : list errkind :=
    hash_errs o c r
    ++ (if bytes_eqb (ext_of key) (r_ext r) then [] else [EExt])
    ++ (if (csize c =? r_size r)%N then [] else [ESize])
    ++ (if negb (no_mtime o) && mtime_changed m (r_mtime r) then [EMtime] else []).

  (* single-file input (-i some/file): rootfolderpath is the PARENT of the file, the row path
     is joined to it and compared with the input path (line 537): a row is processed iff its
     path equals the basename of the input, and the file examined is the input file. *)
  Definition selected (target : option path) (r : row) : bool :=
    match target with None => true | Some t => bytes_eqb (r_path r) (basename t) end.
  Definition file_key (target : option path) (r : row) : path :=
    match target with None => r_path r | Some t => t end.

  Definition row_errors (o : opts) (target : option path) (f : fs) (r : row) : list errkind :=
    match fs_lookup f (file_key target r) with
    | None => if skip_missing o then [] else [EMissing]           (* lines 541-542 *)
    | Some (c, m) => check_file o (file_key target r) c m r
    end.

  Record chk_state := mkSt { errcount : nat;
                             logrep : list (path * list errkind);     (* "- Error for file" lines *)
                             efile : list (path * list errkind) }.    (* rows of the errors csv *)

  Definition check_step (o : opts) (target : option path) (f : fs) (st : chk_state) (r : row) : chk_state :=
    if selected target r then
      match row_errors o target f r with
      | [] => st
      | errs => mkSt (S (errcount st)) (logrep st ++ [(r_path r, errs)]) (efile st ++ [(r_path r, errs)])
      end
    else st.

  (* result: reported (path, kinds) in database order, errors-file rows, exit status non-zero? *)
  Definition check_db (o : opts) (target : option path) (f : fs) (db : list row)
    : list (path * list errkind) * list (path * list errkind) * bool :=
    let st := fold_left (check_step o target f) db (mkSt 0 [] []) in
    (logrep st, efile st, Nat.ltb 0 (errcount st)).

  (* ----- file-scraping recovery (rfigc.py:444-507) ----- *)
  (* dict with string keys: the latest assignment wins *)
  Fixpoint dict_get {V} (d : list (list byte * V)) (k : list byte) : option V :=
    match d with
    | [] => None
    | (k', v) :: t => if bytes_eqb k k' then Some v else dict_get t k
    end.

  Record scr_maps := mkMaps { md5list : list (list byte * nat); sha1list : list (list byte * nat);
                              dbrows : list (nat * row) }.

  (* lines 454-461: id counts every row; rows with an empty digest are not indexed *)
  Fixpoint load_db (db : list row) (id : nat) (m : scr_maps) : scr_maps :=
    match db with
    | [] => m
    | r :: t =>
        let id' := S id in
        if negb (null (r_md5 r)) && negb (null (r_sha1 r))
        then load_db t id' (mkMaps ((r_md5 r, id') :: md5list m) ((r_sha1 r, id') :: sha1list m)
                                   ((id', r) :: dbrows m))
        else load_db t id' m
    end.

  Fixpoint row_get (d : list (nat * row)) (k : nat) : option row :=
    match d with
    | [] => None
    | (k', v) :: t => if Nat.eqb k k' then Some v else row_get t k
    end.

  (* line 491: both digests known and mapped to the same row id *)
  Definition match_row (m : scr_maps) (c : content) : option row :=
    match dict_get (md5list m) (md5 c), dict_get (sha1list m) (sha1 c) with
    | Some i, Some j => if Nat.eqb i j then row_get (dbrows m) i else None
    | _, _ => None
    end.

  (* writing a file into the output tree replaces what was there *)
  Fixpoint fs_remove (f : fs) (p : path) : fs :=
    match f with
    | [] => []
    | (q, e) :: t => if bytes_eqb p q then fs_remove t p else (q, e) :: fs_remove t p
    end.
  Definition fs_write (f : fs) (p : path) (e : content * Z) : fs := (p, e) :: fs_remove f p.

  (* lines 480-505: copy2 to the recorded relative path, then utime to the recorded mtime *)
  Definition scrape_step (m : scr_maps) (out : fs) (e : path * (content * Z)) : fs :=
    match match_row m (fst (snd e)) with
    | Some r => fs_write out (r_path r) (fst (snd e), r_mtime r)
    | None => out
    end.

  (* result: output tree, return value (1 when no row carries digests, else 0) *)
  Definition scrape (db : list row) (scraped : fs) : fs * nat :=
    let m := load_db db 0 (mkMaps [] [] []) in
    if null (dbrows m) then ([], 1)
    else (fold_left (scrape_step m) scraped [], 0).
End HashChk.

(* the instance the property theorems are stated for: contents are byte strings *)
Definition bsize (c : list byte) : N := N.of_nat (length c).
