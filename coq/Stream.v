(* Stream.v — the ENTRY-STREAM level of correction mode of `pff header` (header_ecc.py) and
   `pff whole` (structural_adaptive_ecc.py): the loop `while entry = get_next_entry(db, ...)`,
   where the stream cursor is after each entry, field extraction (the four `find`s with python
   slice semantics, -1 included), the skip rules, counters, exit status and the output folder.
   Model of the code AFTER the fixes af213e5 (whole tool re-seeks `db` to the end of the previous
   entry before every scan) and 5a25c60 (header tool does not stop at a zero-length entry).

   Parameters (owned by other modules, Section variables here):
     scanning        modelled by its SPEC (`next_entry`: first marker at or after the cursor, entry ends at
                     the next marker or at end of stream); C14 proves the buffered scanner equal to it
     intra           intra-ecc correction of a metadata field (C09, coq/Entry.v)
     blocksH/blocksW per-block verification / repair of one file (C04/C01, coq/Pipeline.v); the whole-tool
                     variant reads the track straight from `db` and returns where it left the cursor
     look            the input tree seen from the root given to -i : relative path bytes -> file content
   No property proofs in this file. *)
From Coq Require Import List Arith Bool Lia NArith ZArith.
From Coq Require Import Strings.Byte.
From PFF Require Import Bytes.
Import ListNotations.
Local Open Scope Z_scope.

(* ---------- python byte-string primitives ---------- *)
Fixpoint prefixb (m s : list byte) : bool :=            (* s.startswith(m) *)
  match m, s with
  | [], _ => true
  | x :: m', y :: s' => byte_eqb x y && prefixb m' s'
  | _ :: _, [] => false
  end.

Fixpoint find (m s : list byte) : option nat :=          (* s.find(m): first occurrence *)
  match s with
  | [] => if prefixb m [] then Some 0%nat else None
  | _ :: t => if prefixb m s then Some 0%nat else option_map S (find m t)
  end.

Definition sub (s : list byte) (a b : nat) : list byte := firstn (b - a) (skipn a s).   (* s[a:b], 0 <= a *)

Definition zlen (s : list byte) : Z := Z.of_nat (length s).

(* s.find(m, start) for start >= 0; -1 when absent (also when start > len(s)) *)
Definition pfind (m s : list byte) (start : Z) : Z :=
  if zlen s <? start then -1
  else match find m (skipn (Z.to_nat start) s) with
       | None => -1
       | Some i => start + Z.of_nat i
       end.

(* slice index normalisation and s[a:b] for arbitrary (possibly negative) integers *)
Definition norm (len i : Z) : Z := if i <? 0 then Z.max 0 (i + len) else Z.min i len.
Definition pslice (s : list byte) (a b : Z) : list byte :=
  let a' := norm (zlen s) a in
  let b' := norm (zlen s) b in
  firstn (Z.to_nat (b' - a')) (skipn (Z.to_nat a') s).
Definition pfrom (s : list byte) (a : Z) : list byte := pslice s a (zlen s).            (* s[a:] *)

(* `while d and e.startswith(d): e = e[len(d):]` *)
Fixpoint strip_pre (fuel : nat) (d s : list byte) : list byte :=
  match fuel with
  | O => s
  | S f => match d with
           | [] => s
           | _ => if prefixb d s then strip_pre f d (skipn (length d) s) else s
           end
  end.

(* ---------- the scanning spec ---------- *)
Definition next_entry (m db : list byte) (pos : nat) : option (nat * nat) :=
  match find m (skipn pos db) with
  | None => None
  | Some i =>
      let s := (pos + i + length m)%nat in
      Some (s, match find m (skipn s db) with
               | None => length db
               | Some j => (s + j)%nat
               end)
  end.

Fixpoint scan_from (fuel : nat) (m db : list byte) (pos : nat) : list (nat * nat) :=
  match fuel with
  | O => []
  | S f => match next_entry m db pos with
           | None => []
           | Some (s, e) => (s, e) :: scan_from f m db e
           end
  end.

(* every entry of the stream: (first byte after a marker, start of the next marker or end of stream) *)
Definition entries_spec (m db : list byte) : list (nat * nat) := scan_from (S (length db)) m db 0.

(* ---------- field extraction (entry_fields of both tools) ---------- *)
Record fields := mkFields {
  f_path : list byte; f_size : list byte; f_pecc : list byte; f_secc : list byte;
  f_toff : Z;                 (* fourth + len(delim): offset of the block track inside the stripped text *)
  f_track : list byte }.      (* text[fourth+len(delim):] *)

Definition get_fields (d text : list byte) : fields :=
  let e := strip_pre (length text) d text in
  let L := zlen d in
  let first := pfind d e 0 in
  let second := pfind d e (first + L) in
  let third := pfind d e (second + L) in
  let fourth := pfind d e (third + L) in
  mkFields (pslice e 0 first) (pslice e (first + L) second) (pslice e (second + L) third)
           (pslice e (third + L) fourth) (fourth + L) (pfrom e (fourth + L)).

(* ---------- int(bytes) of CPython: blanks, sign, digits with single underscores; None = ValueError ---------- *)
Definition is_space (b : byte) : bool :=
  match b with x20 | x09 | x0a | x0b | x0c | x0d => true | _ => false end.
Definition digit_val (b : byte) : option Z :=
  match b with
  | x30 => Some 0 | x31 => Some 1 | x32 => Some 2 | x33 => Some 3 | x34 => Some 4
  | x35 => Some 5 | x36 => Some 6 | x37 => Some 7 | x38 => Some 8 | x39 => Some 9
  | _ => None
  end.
Fixpoint lstrip_sp (s : list byte) : list byte :=
  match s with b :: t => if is_space b then lstrip_sp t else s | [] => [] end.
Definition strip_sp (s : list byte) : list byte := rev (lstrip_sp (rev (lstrip_sp s))).

(* digits: `after_digit` tells whether the previous symbol was a digit (an underscore is only legal there,
   and must be followed by a digit); nd counts digits (CPython refuses more than 4300) *)
Fixpoint digits (s : list byte) (acc : Z) (after_digit : bool) (nd : N) : option (Z * N) :=
  match s with
  | [] => if after_digit then Some (acc, nd) else None
  | b :: t =>
      match digit_val b with
      | Some v => digits t (10 * acc + v) true (N.succ nd)
      | None => match b with
                | x5f => if after_digit then (match t with [] => None | _ => digits t acc false nd end) else None
                | _ => None
                end
      end
  end.

Definition py_int (s : list byte) : option Z :=
  let s1 := strip_sp s in
  let '(neg, s2) := match s1 with
                    | x2d :: t => (true, t)
                    | x2b :: t => (false, t)
                    | _ => (false, s1)
                    end in
  match digits s2 0 false 0%N with
  | Some (v, nd) => if (4300 <? nd)%N then None else Some (if neg then - v else v)
  | None => None
  end.

Definition has_nul (s : list byte) : bool := existsb (fun b => byte_eqb b x00) s.

(* ---------- per-entry processing ---------- *)
Inductive rstat := RFull | RPartial | RNone.           (* repaired completely / partially / no block repaired *)
Inductive bres :=                                      (* result of the per-block stage for one file *)
| BClean                                               (* no block flagged *)
| BCorrupt (st : rstat) (out : option (list byte))     (* flagged; what is left in the output folder for this path *)
| BCrash.                                              (* an exception escaped the per-block stage *)
Inductive skipwhy := SkSize | SkNul | SkMissing | SkSizeDiff.
Inductive eres := ESkip (w : skipwhy) | EFile (path : list byte) (b : bres).

Record counters := mkC { n_proc : nat; n_corr : nat; n_full : nat; n_part : nat; n_skip : nat }.
Definition outdir := list (list byte * list byte).     (* output folder: path -> content, last write first *)
Inductive outcome := Done (c : counters) (outs : outdir) (exit : nat) | Crash.

Definition bytes_eqb (a b : list byte) : bool := (length a =? length b)%nat && prefixb a b.
Definition out_remove (p : list byte) (o : outdir) : outdir := filter (fun kv => negb (bytes_eqb (fst kv) p)) o.
Definition out_write (p c : list byte) (o : outdir) : outdir := (p, c) :: out_remove p o.

Definition c0 : counters := mkC 0 0 0 0 0.

(* one turn of the main loop applied to the accumulated state; None = the exception escapes main *)
Definition step (acc : counters * outdir) (r : eres) : option (counters * outdir) :=
  let '(c, o) := acc in
  match r with
  | ESkip _ => Some (mkC (n_proc c) (n_corr c) (n_full c) (n_part c) (S (n_skip c)), o)
  | EFile p BClean => Some (mkC (S (n_proc c)) (n_corr c) (n_full c) (n_part c) (n_skip c), o)
  | EFile p (BCorrupt st out) =>
      let o' := match out with Some b => out_write p b o | None => out_remove p o end in
      Some (match st with
            | RFull => mkC (S (n_proc c)) (S (n_corr c)) (S (n_full c)) (n_part c) (n_skip c)
            | RPartial => mkC (S (n_proc c)) (S (n_corr c)) (n_full c) (S (n_part c)) (n_skip c)
            | RNone => mkC (S (n_proc c)) (S (n_corr c)) (n_full c) (n_part c) (n_skip c)
            end, o')
  | EFile p BCrash => None
  end.

Fixpoint steps (acc : counters * outdir) (rs : list eres) : option (counters * outdir) :=
  match rs with
  | [] => Some acc
  | r :: t => match step acc r with Some acc' => steps acc' t | None => None end
  end.

Definition exit_of (c : counters) : nat :=
  if ((n_corr c =? 0) || (n_full c =? n_corr c))%nat then 0%nat else 1%nat.

Definition finish (a : option (counters * outdir)) : outcome :=
  match a with Some (c, o) => Done c o (exit_of c) | None => Crash end.

Section Tools.
  Variable marker delim : list byte.
  Variable ignore_size : bool.
  Variable look : list byte -> option (list byte).       (* os.path.isfile(join(root, rel)) and the content *)
  Variable intra : list byte -> list byte -> list byte.  (* field, its intra-ecc -> corrected field *)

  (* the part common to both tools, after the fields were extracted: intra-ecc, int(), skip rules *)
  Definition meta (f : fields) : skipwhy + (list byte * Z * list byte) :=
    let path := intra (f_path f) (f_pecc f) in
    match py_int (intra (f_size f) (f_secc f)) with
    | None => inl SkSize
    | Some sz =>
        if has_nul path then inl SkNul
        else match look path with
             | None => inl SkMissing
             | Some file =>
                 if negb (sz =? zlen file) && negb ignore_size then inl SkSizeDiff
                 else inr (path, sz, file)
             end
    end.

  (* ----- header tool: the entry text is read whole by get_next_entry; the cursor is left at its end ----- *)
  Variable blocksH : list byte -> Z -> list byte -> bres.   (* track, recorded size, file *)

  Definition entry_h (text : list byte) : eres :=
    let f := get_fields delim text in
    match meta f with
    | inl w => ESkip w
    | inr (path, sz, file) => EFile path (blocksH (f_track f) sz file)
    end.

  Fixpoint loop_h (fuel : nat) (db : list byte) (pos : nat) : list (nat * nat * eres) :=
    match fuel with
    | O => []
    | S f => match next_entry marker db pos with
             | None => []
             | Some (s, e) => (s, e, entry_h (sub db s e)) :: loop_h f db e
             end
    end.
  Definition trace_h (db : list byte) := loop_h (S (length db)) db 0.
  Definition run_h (db : list byte) : outcome := finish (steps (c0, []) (map snd (trace_h db))).

  (* ----- whole tool: coordinates only; fields come from a window read at the entry start (which may extend
     past the entry end), the track is read from db by the block stage, which leaves the cursor somewhere;
     `reseek` = the loop re-seats the cursor at the entry end before the next scan (the code after af213e5) ----- *)
  Variable window : nat.                                    (* 65535 *)
  Variable blocksW : list byte -> nat -> nat -> Z -> list byte -> bres * nat.  (* db, track start, entry end, size, file *)

  Definition entry_w (db : list byte) (s e : nat) : eres * nat * nat :=     (* result, track start, cursor left *)
    let f := get_fields delim (sub db s (s + window)) in
    let tpos := (s + Z.to_nat (f_toff f))%nat in
    match meta f with
    | inl w => (ESkip w, tpos, tpos)
    | inr (path, sz, file) => let '(b, cur) := blocksW db tpos e sz file in (EFile path b, tpos, cur)
    end.

  Fixpoint loop_w (reseek : bool) (fuel : nat) (db : list byte) (pos : nat) : list (nat * (nat * nat) * (eres * nat * nat)) :=
    match fuel with
    | O => []
    | S f => match next_entry marker db pos with
             | None => []
             | Some (s, e) =>
                 let r := entry_w db s e in
                 (pos, (s, e), r) :: loop_w reseek f db (if reseek then e else snd r)
             end
    end.
  Definition trace_w (db : list byte) := loop_w true (S (length db)) db 0.
  Definition run_w (db : list byte) : outcome :=
    finish (steps (c0, []) (map (fun t => fst (fst (snd t))) (trace_w db))).
End Tools.

(* ---------- generation side, at the level the stream model needs: one entry per protected file ---------- *)
Fixpoint dec_digits (fuel : nat) (n : N) : list byte :=       (* str(n) *)
  match fuel with
  | O => []
  | S f => let d := match (n mod 10)%N with
                    | 0%N => x30 | 1%N => x31 | 2%N => x32 | 3%N => x33 | 4%N => x34
                    | 5%N => x35 | 6%N => x36 | 7%N => x37 | 8%N => x38 | _ => x39
                    end in
           if (n <? 10)%N then [d] else dec_digits f (n / 10)%N ++ [d]
  end.
Definition dec (n : N) : list byte := dec_digits (S (N.to_nat (N.log2 n))) n.

Section Generate.
  Variable marker delim : list byte.
  Variable enc : list byte -> list byte.                  (* intra-ecc of a field *)
  Variable track : list byte -> list byte.                (* hash+parity track of a file's content *)
  Definition gen_entry (f : list byte * list byte) : list byte :=
    let size := dec (N.of_nat (length (snd f))) in
    fst f ++ delim ++ size ++ delim ++ enc (fst f) ++ delim ++ enc size ++ delim ++ track (snd f).
  Definition generate (preamble : list byte) (T : list (list byte * list byte)) : list byte :=
    preamble ++ concat (map (fun f => marker ++ gen_entry f) T).
End Generate.
