(* RS.v — executable model of the Reed-Solomon encoder and syndrome check the codecs use,
   generic in the field operations (instantiated with GF256.badd / bmul F3 / bmul F4).
   Mirrors reedsolo: gf_poly_eval (Horner, highest degree first), rs_generator_poly
   (product of [1, g^(i+fcr)]), rs_encode_msg (extended synthetic division), rs_calc_syndromes /
   rs_check; unireedsolomon's check_fast evaluates the same syndromes and its encoders compute
   m(x) x^(n-k) mod g(x) by long division (poly_mod below).  Model only. *)
From Coq Require Import List Arith Bool.
Import ListNotations.

Section RS.
  Variable F : Type.
  Variables (zero one : F) (add mul : F -> F -> F) (eqb : F -> F -> bool).
  Variable alpha : F.

  Fixpoint pow (x : F) (n : nat) : F := match n with O => one | S k => mul x (pow x k) end.
  (* gf_pow(generator, e) = gf_exp[(log(generator) * e) % 255] *)
  Definition apow (e : nat) : F := pow alpha (e mod 255).

  (* gf_poly_eval *)
  Definition peval (w : list F) (x : F) : F := fold_left (fun y c => add (mul y x) c) w zero.

  (* gf_poly_mul(g, [1, r]) *)
  Fixpoint mul_lin_aux (prev : F) (g : list F) (r : F) : list F :=
    match g with
    | [] => [mul r prev]
    | c :: t => add c (mul r prev) :: mul_lin_aux c t r
    end.
  Definition mul_lin (g : list F) (r : F) : list F := mul_lin_aux zero g r.

  (* rs_generator_poly(nsym, fcr): g = [1]; for i < nsym: g = g * [1, generator^(i+fcr)] *)
  Fixpoint gen_from (k : nat) (i fcr : nat) (g : list F) : list F :=
    match k with
    | O => g
    | S k' => gen_from k' (S i) fcr (mul_lin g (apow (i + fcr)))
    end.
  Definition gen (nsym fcr : nat) : list F := gen_from nsym 0 fcr [one].

  (* pointwise sum of v into the first |v| positions of l *)
  Fixpoint xor_prefix (l v : list F) : list F :=
    match l, v with
    | x :: l', y :: v' => add x y :: xor_prefix l' v'
    | _, _ => l
    end.

  (* rs_encode_msg: for i < len(msg): coef = out[i]; out[i+j] ^= coef * gen[j] (j >= 1) *)
  Fixpoint synth (gt : list F) (l : list F) (n : nat) : list F :=
    match n, l with
    | S n', c :: rest => synth gt (xor_prefix rest (map (mul c) gt)) n'
    | _, _ => l
    end.
  Definition rs_parity (nsym fcr : nat) (m : list F) : list F :=
    synth (tl (gen nsym fcr)) (m ++ repeat zero nsym) (length m).

  (* rs_calc_syndromes (without the leading 0) and rs_check *)
  Definition synd (nsym fcr : nat) (w : list F) : list F :=
    map (fun i => peval w (apow (i + fcr))) (seq 0 nsym).
  Definition rs_check (nsym fcr : nat) (w : list F) : bool :=
    forallb (fun s => eqb s zero) (synd nsym fcr w).

  (* Hamming weight / distance *)
  Definition weight (w : list F) : nat := length (filter (fun c => negb (eqb c zero)) w).
  Definition hdist (u v : list F) : nat :=
    length (filter (fun p => negb (eqb (fst p) (snd p))) (combine u v)).
  Definition zipadd (u v : list F) : list F := map (fun p => add (fst p) (snd p)) (combine u v).

  (* errors outside a set of erased positions: #{ j | r_j <> c_j and (i + j) not in E } *)
  Fixpoint errs_from (i : nat) (E : list nat) (r c : list F) : nat :=
    match r, c with
    | x :: r', y :: c' =>
        (if negb (eqb x y) && negb (existsb (Nat.eqb i) E) then 1 else 0) + errs_from (S i) E r' c'
    | _, _ => 0
    end.
  Definition errs (E : list nat) (r c : list F) : nat := errs_from 0 E r c.
  (* c explains r within the errors-and-erasures radius: 2*errors + erasures <= nsym *)
  Definition within (nsym : nat) (E : list nat) (r c : list F) : bool :=
    (length r =? length c) && (2 * errs E r c + length E <=? nsym).
End RS.
