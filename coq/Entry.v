(* Entry.v — executable model of the per-entry METADATA of both ecc tools
   (pyFileFixity/header_ecc.py and pyFileFixity/structural_adaptive_ecc.py):
     generation    compute_ecc_hash (hasher 'none', as_string)            -> hdr_intra_encode
                   compute_ecc_hash_from_string / stream_compute_ecc_hash -> whole_intra_encode
                   the b''.join([marker, path, delim, str(size), ...])    -> format_meta / format_entry
     correction    entry_fields of each tool                              -> hdr_entry_fields / whole_entry_fields
                   ecc_correct_intra        (entry_assemble: zip of two ranges)      -> hdr_intra_correct
                   ecc_correct_intra_stream (stream_entry_assemble: cursor loop)     -> whole_intra_correct
                   int(filesize) on the corrected bytes                              -> py_int
                   the metadata part of one round of the main loop                  -> hdr_entry_meta / whole_entry_meta
   Model only: no property proofs here (they are in Proofs/EntryP.v).

   Byte strings are `list byte`.  The intra codec is abstract: `enc m` is ECCMan.encode (the
   parity of a block of at most k bytes), `chk m e` is ECCMan.check, `dec m e` is ECCMan.decode
   (None = ReedSolomonError / RSCodecError) with the run's erasure options fixed.  k = the intra
   message size, es = max_block_size - k the intra parity size (how k follows from the rate is
   Layout.v / C10).  Python's bytes.find(sub, start) and slicing (negative indices included:
   a failed find returns -1 and flows into the slices) are modelled as they are. *)
From Coq Require Import List Arith NArith ZArith Bool Decimal.
From Coq Require Import Strings.Byte.
From PFF Require Import Bytes.
Import ListNotations.
Local Open Scope Z_scope.

(* ------------------------------------------------------------------ Python primitives *)

Fixpoint prefixb (p s : list byte) : bool :=          (* s.startswith(p) *)
  match p, s with
  | [], _ => true
  | _ :: _, [] => false
  | a :: p', b :: s' => byte_eqb a b && prefixb p' s'
  end.

(* first i >= 0 with s[i:].startswith(sub), reported as off + i *)
Fixpoint find_aux (sub s : list byte) (off : nat) : option nat :=
  if prefixb sub s then Some off else
  match s with
  | [] => None
  | _ :: t => find_aux sub t (S off)
  end.

Definition zlen (s : list byte) : Z := Z.of_nat (length s).

(* bytes.find(sub, start): a negative start counts from the end (clipped at 0), a start
   beyond the end finds nothing, the result is an absolute index or -1 *)
Definition py_find (sub s : list byte) (start : Z) : Z :=
  let st := if start <? 0 then Z.max 0 (start + zlen s) else start in
  if zlen s <? st then -1 else
  match find_aux sub (skipn (Z.to_nat st) s) (Z.to_nat st) with
  | Some i => Z.of_nat i
  | None => -1
  end.

(* index normalisation of s[lo:hi] *)
Definition py_norm (len i : Z) : Z := if i <? 0 then Z.max 0 (i + len) else Z.min i len.

Definition py_slice (s : list byte) (lo hi : Z) : list byte :=
  let a := py_norm (zlen s) lo in
  let b := py_norm (zlen s) hi in
  firstn (Z.to_nat (b - a)) (skipn (Z.to_nat a) s).
Definition py_slice_to (s : list byte) (hi : Z) : list byte := py_slice s 0 hi.          (* s[:hi] *)
Definition py_slice_from (s : list byte) (lo : Z) : list byte := py_slice s lo (zlen s). (* s[lo:] *)

(* s[i:j] for 0 <= i, on naturals (used where the indices come from range()) *)
Definition sub (s : list byte) (i j : nat) : list byte := firstn (j - i) (skipn i s).

(* range(start, stop, step) for step >= 1; fuel = number of elements allowed *)
Fixpoint py_range (fuel start stop step : nat) : list nat :=
  match fuel with
  | O => []
  | S f => if (start <? stop)%nat then start :: py_range f (start + step) stop step else []
  end.
Definition range0 (stop step : nat) : list nat := py_range stop 0 stop step.

(* ------------------------------------------------------------------ constants of both tools *)

Definition entrymarker : list byte := [xfe; xff; xfe; xff; xfe; xff; xfe; xff; xfe; xff].
Definition field_delim : list byte := [xfa; xff; xfa; xff; xfa].

(* ------------------------------------------------------------------ decimal text and int() *)

Definition byte_of_digit (d : nat) : byte :=
  match d with
  | 0%nat => x30 | 1%nat => x31 | 2%nat => x32 | 3%nat => x33 | 4%nat => x34
  | 5%nat => x35 | 6%nat => x36 | 7%nat => x37 | 8%nat => x38 | _ => x39
  end.

Fixpoint bytes_of_uint (u : uint) : list byte :=
  match u with
  | Nil => []
  | D0 u => x30 :: bytes_of_uint u | D1 u => x31 :: bytes_of_uint u | D2 u => x32 :: bytes_of_uint u
  | D3 u => x33 :: bytes_of_uint u | D4 u => x34 :: bytes_of_uint u | D5 u => x35 :: bytes_of_uint u
  | D6 u => x36 :: bytes_of_uint u | D7 u => x37 :: bytes_of_uint u | D8 u => x38 :: bytes_of_uint u
  | D9 u => x39 :: bytes_of_uint u
  end.

(* str(n) for n >= 0 *)
Definition decimal (n : N) : list byte := bytes_of_uint (N.to_uint n).

Definition digit_cons (c : byte) : option (uint -> uint) :=
  match c with
  | x30 => Some D0 | x31 => Some D1 | x32 => Some D2 | x33 => Some D3 | x34 => Some D4
  | x35 => Some D5 | x36 => Some D6 | x37 => Some D7 | x38 => Some D8 | x39 => Some D9
  | _ => None
  end.

Definition is_space (c : byte) : bool :=            (* Py_ISSPACE: \t \n \v \f \r and blank *)
  match c with x09 | x0a | x0b | x0c | x0d | x20 => true | _ => false end.

Definition is_digit (c : byte) : bool := match digit_cons c with Some _ => true | None => false end.

Fixpoint lstrip_space (l : list byte) : list byte :=
  match l with
  | c :: t => if is_space c then lstrip_space t else l
  | [] => []
  end.

(* digits with single underscores between digits, then optional trailing blanks, then the end.
   after = the previous character was a digit *)
Fixpoint int_digits (l : list byte) (after : bool) : option uint :=
  match l with
  | [] => if after then Some Nil else None
  | c :: t =>
      match digit_cons c with
      | Some d => match int_digits t true with Some u => Some (d u) | None => None end
      | None =>
          if negb after then None
          else if byte_eqb c x5f then
            match t with
            | c2 :: _ => if is_digit c2 then int_digits t false else None
            | [] => None
            end
          else if is_space c then (match lstrip_space t with [] => Some Nil | _ => None end)
          else None
      end
  end.

(* int(b) for a bytes object, base 10: None = ValueError *)
Definition py_int (s : list byte) : option Z :=
  let t := lstrip_space s in
  let '(neg, t) := match t with
                   | x2d :: r => (true, r)
                   | x2b :: r => (false, r)
                   | _ => (false, t)
                   end in
  match int_digits t false with
  | Some u => let v := Z.of_N (N.of_uint u) in Some (if neg then - v else v)
  | None => None
  end.

(* ------------------------------------------------------------------ entry_fields *)

(* while field_delim and entry.startswith(field_delim): entry = entry[len(field_delim):] *)
Fixpoint strip_delim (fuel : nat) (d e : list byte) : list byte :=
  match fuel with
  | O => e
  | S f =>
      match d with
      | [] => e
      | _ :: _ => if prefixb d e then strip_delim f d (skipn (length d) e) else e
      end
  end.

Record fields := mkFields {
  f_path : list byte; f_size : list byte; f_pecc : list byte; f_secc : list byte;
  f_rest : Z;                 (* fourth + len(field_delim), relative to the stripped entry *)
  f_entry : list byte         (* the entry after the prefix strip *)
}.

(* the part common to both tools: strip, four finds, four slices *)
Definition entry_fields_core (d entry : list byte) : fields :=
  let e := strip_delim (length entry) d entry in
  let dl := zlen d in
  let first := py_find d e 0 in
  let second := py_find d e (first + dl) in
  let third := py_find d e (second + dl) in
  let fourth := py_find d e (third + dl) in
  mkFields (py_slice_to e first) (py_slice e (first + dl) second)
           (py_slice e (second + dl) third) (py_slice e (third + dl) fourth)
           (fourth + dl) e.

(* header_ecc.entry_fields(entry, field_delim): the last component is the ecc_field *)
Definition hdr_entry_fields (d entry : list byte)
  : list byte * list byte * list byte * list byte * list byte :=
  let f := entry_fields_core d entry in
  (f_path f, f_size f, f_pecc f, f_secc f, py_slice_from (f_entry f) (f_rest f)).

(* structural_adaptive_ecc.entry_fields(file, entry_pos, field_delim): reads `bs` (= 65535)
   bytes at entry_pos[0]; the last component is ecc_field_pos = [entry_pos[0]+fourth+len, entry_pos[1]].
   (Quirk kept: `fourth` is relative to the stripped text, the strip length is not added back.) *)
Definition whole_entry_fields (bs : nat) (d file : list byte) (pos0 pos1 : Z)
  : list byte * list byte * list byte * list byte * (Z * Z) :=
  let entry := firstn bs (skipn (Z.to_nat pos0) file) in
  let f := entry_fields_core d entry in
  (f_path f, f_size f, f_pecc f, f_secc f, (pos0 + f_rest f, pos1)).

(* ------------------------------------------------------------------ intra-ecc *)

Section Intra.
  Variables (k es : nat).                                   (* intra message size, intra parity size *)
  Variable enc : list byte -> list byte.
  Variable chk : list byte -> list byte -> bool.
  Variable dec : list byte -> list byte -> option (list byte * list byte).

  (* -- generation, header tool: compute_ecc_hash(..., message_size=k, as_string=True), hasher 'none' *)
  Definition hdr_intra_encode (buf : list byte) : list byte :=
    concat (map (fun i => [] ++ enc (sub buf i (i + k))) (range0 (length buf) k)).

  (* -- generation, whole tool: compute_ecc_hash_from_string -> stream_compute_ecc_hash with
        header_size = len(string) (constant rate): cursor loop `while curpos < size` *)
  Fixpoint stream_encode (fuel : nat) (f : list byte) (cur : nat) : list byte :=
    match fuel with
    | O => []
    | S n =>
        if (cur <? length f)%nat then
          let mes := sub f cur (cur + k) in
          enc mes ++ stream_encode n f (cur + length mes)
        else []
    end.
  Definition whole_intra_encode (f : list byte) : list byte := stream_encode (length f) f 0.

  (* -- correction, header tool: entry_assemble({"ecc_field": ecc}, intra params, len(field), '', field)
        = zip(range(0, len(field), k), range(0, len(ecc), 0 + es)) *)
  Definition hdr_blocks (field ecc : list byte) : list (list byte * list byte) :=
    map (fun ij => (sub field (fst ij) (fst ij + k), sub ecc (snd ij + 0) (snd ij + 0 + es)))
        (combine (range0 (length field) k) (range0 (length ecc) (0 + es))).

  (* -- correction, whole tool: stream_entry_assemble on two BytesIO with ecc_field_pos = [0, len(ecc)],
        constantmode: `while ecc_curpos < len(ecc)`, read k from the field, `return` on an empty read,
        read 0 + es from the ecc *)
  Fixpoint stream_blocks (fuel : nat) (field ecc : list byte) (cf ce : nat) : list (list byte * list byte) :=
    match fuel with
    | O => []
    | S n =>
        if (ce <? length ecc)%nat then
          let mes := sub field cf (cf + k) in
          match mes with
          | [] => []
          | _ :: _ =>
              let buf := sub ecc ce (ce + (0 + es)) in
              (mes, skipn 0 buf) :: stream_blocks n field ecc (cf + length mes) (ce + length buf)
          end
        else []
    end.
  Definition whole_blocks (field ecc : list byte) : list (list byte * list byte) :=
    stream_blocks (S (length ecc)) field ecc 0 0.

  (* -- one block of ecc_correct_intra / ecc_correct_intra_stream (same text in both tools):
        (block kept, corrupted?, corrected?) *)
  Definition correct_block (b : list byte * list byte) : list byte * bool * bool :=
    let '(m, e) := b in
    if chk m e then (m, false, true)
    else match dec m e with
         | Some (m', e') => if chk m' e' then (m', true, true) else (m, true, false)
         | None => (m, true, false)
         end.

  (* (field, fcorrupted, fcorrected) *)
  Definition correct_blocks (bl : list (list byte * list byte)) : list byte * bool * bool :=
    let rs := map correct_block bl in
    (concat (map (fun r => fst (fst r)) rs),
     existsb (fun r => snd (fst r)) rs,
     forallb (fun r => snd r) rs).

  (* both functions return the field untouched when the intra geometry has no parity symbol at all
     (`if ecc_params_intra["ecc_size"] <= 0: return (field, False, True, '')`) *)
  Definition hdr_intra_correct (field ecc : list byte) :=
    if (es =? 0)%nat then (field, false, true) else correct_blocks (hdr_blocks field ecc).
  Definition whole_intra_correct (field ecc : list byte) :=
    if (es =? 0)%nat then (field, false, true) else correct_blocks (whole_blocks field ecc).

  (* -- the entry as written by generation (both tools write the same bytes for the metadata) *)
  Definition format_meta (iencode : list byte -> list byte) (d path : list byte) (size : N) : list byte :=
    path ++ d ++ decimal size ++ d ++ iencode path ++ d ++ iencode (decimal size) ++ d.
  Definition format_entry (iencode : list byte -> list byte) (mk d path : list byte) (size : N) : list byte :=
    mk ++ format_meta iencode d path size.

  (* -- the metadata part of one round of the correction loop:
        ((path, corrupted, corrected), (size bytes, corrupted, corrected), int(size) or None = entry skipped,
         where the block track starts) *)
  Definition hdr_entry_meta (d entry : list byte) :=
    let '(p, s, pe, se, track) := hdr_entry_fields d entry in
    let rp := hdr_intra_correct p pe in
    let rs := hdr_intra_correct s se in
    (rp, rs, py_int (fst (fst rs)), track).

  Definition whole_entry_meta (bs : nat) (d file : list byte) (pos0 pos1 : Z) :=
    let '(p, s, pe, se, track) := whole_entry_fields bs d file pos0 pos1 in
    let rp := whole_intra_correct p pe in
    let rs := whole_intra_correct s se in
    (rp, rs, py_int (fst (fst rs)), track).
End Intra.

(* ------------------------------------------------------------------ the `unambiguous` side condition
   clean d x : the first occurrence of the delimiter d in x ++ d is the appended one, i.e. d occurs
   neither inside x nor straddling the end of x and the delimiter that follows it. *)
Definition clean (d x : list byte) : bool :=
  match find_aux d (x ++ d) 0 with
  | Some i => Nat.eqb i (length x)
  | None => false
  end.

Definition nonempty (x : list byte) : bool := match x with [] => false | _ :: _ => true end.

(* an entry (path, size text, path parity, size parity) whose four fields are found by the four finds *)
Definition unambiguous (d path size pecc secc : list byte) : bool :=
  nonempty path && clean d path && clean d size && clean d pecc && clean d secc.

(* the metadata bytes of an entry with the given four field contents (what generation joins, and what
   a substitution-damaged entry with intact delimiters looks like) *)
Definition join_meta (d path size pecc secc : list byte) : list byte :=
  path ++ d ++ size ++ d ++ pecc ++ d ++ secc ++ d.

(* number of positions where two strings of equal length differ *)
Fixpoint hamming (a b : list byte) : nat :=
  match a, b with
  | x :: a', y :: b' => ((if byte_eqb x y then 0 else 1) + hamming a' b')%nat
  | _, _ => 0%nat
  end.

(* ------------------------------------------------------------------ block layout vocabulary of the theorems *)
(* l cut into consecutive pieces of n bytes (the last one possibly shorter); n >= 1 *)
Fixpoint chunks_aux (fuel n : nat) (l : list byte) : list (list byte) :=
  match fuel with
  | O => []
  | S f => match l with [] => [] | _ :: _ => firstn n l :: chunks_aux f n (skipn n l) end
  end.
Definition chunks (n : nat) (l : list byte) : list (list byte) := chunks_aux (length l) n l.

(* the intra blocks of a field and its parity track: i-th k-chunk of the field with the i-th es-chunk of the track *)
Definition intra_blocks (k es : nat) (field ecc : list byte) : list (list byte * list byte) :=
  combine (chunks k field) (chunks es ecc).

(* (f', e') is (f, e) with at most floor(es/2) wrong symbols in every intra block (field chunk + its parity chunk) *)
Definition within_bound (k es : nat) (f f' e e' : list byte) : Prop :=
  length f' = length f /\ length e' = length e /\
  Forall2 (fun b' b => (hamming (fst b') (fst b) + hamming (snd b') (snd b) <= es / 2)%nat)
          (intra_blocks k es f' e') (intra_blocks k es f e).
