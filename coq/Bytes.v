(* Bytes.v — the byte symbol type shared by all byte-level models, and conversions used by
   the extracted driver.  Model utilities only. *)
From Coq Require Import List NArith Bool.
From Coq Require Import Strings.Byte.
Import ListNotations.

Definition byte_eqb : byte -> byte -> bool := Byte.eqb.

Lemma byte_eqb_spec (x y : byte) : reflect (x = y) (byte_eqb x y).
Proof.
  unfold byte_eqb. destruct (Byte.eqb x y) eqn:E; constructor.
  - apply Byte.byte_dec_bl. exact E.
  - intros ->. rewrite (Byte.byte_dec_lb eq_refl) in E. discriminate.
Qed.

Definition byte_of_N (n : N) : byte :=
  match Byte.of_N n with Some b => b | None => x00 end.

Definition N_of_byte (b : byte) : N := Byte.to_N b.

Lemma byte_of_N_of_byte b : byte_of_N (N_of_byte b) = b.
Proof. unfold byte_of_N, N_of_byte. rewrite Byte.of_to_N. reflexivity. Qed.

(* all 256 bytes in numeric order, for the driver's int -> byte table and for finite sweeps *)
Definition all_bytes : list byte :=
  Eval vm_compute in map byte_of_N (map N.of_nat (seq 0 256)).

Definition bytes := list byte.
