(* Extract.v — extraction of the executable models to OCaml.
   Directives used: ExtrOcamlBasic only (bool, option, unit, list, prod, sumbool, comparison
   mapped to OCaml's own types).  N, Z, positive, nat, byte stay extracted inductives. *)
From Coq Require Import Extraction ExtrOcamlBasic.
From PFF Require Import Bytes Driver.
Extraction Language OCaml.
Extraction "pffmodel.ml" all_bytes N_of_byte drv_vote drv_diff drv_diffdir.
