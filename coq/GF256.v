(* GF256.v — executable model of the GF(2^8) arithmetic the codecs use.
   reedsolo.gf_mult_noLUT (carry-less "peasant" multiply with reduction by the primitive
   polynomial) is mirrored on N; field elements are bytes.  reedsolo.gf_mul / gf_pow and
   unireedsolomon.ff.GF2int go through exp/log tables built from this multiply; the model
   multiplies directly and the correspondence check compares all 65 536 products, all powers
   of the generator and all inverses with both libraries.
   Two instances: F3 = (0x11b, generator 3) for codecs 1-3, F4 = (0x187, generator 2) for codec 4.
   Model only. *)
From Coq Require Import List NArith Bool Arith.
From Coq Require Import Strings.Byte.
From PFF Require Import Bytes.
Import ListNotations.

(* while y: if y & 1: r ^= x ; y >>= 1 ; x <<= 1 ; if x & 256: x ^= prim      (y < 256: 8 rounds) *)
Fixpoint gmul_loop (n : nat) (prim x y r : N) : N :=
  match n with
  | O => r
  | S n' =>
      let r' := if N.odd y then N.lxor r x else r in
      let x2 := N.double x in
      let x3 := if N.testbit x2 8 then N.lxor x2 prim else x2 in
      gmul_loop n' prim x3 (N.div2 y) r'
  end.
Definition gmulN (prim x y : N) : N := gmul_loop 8 prim x y 0.

Record gf := { gf_prim : N; gf_alpha : byte }.
Definition F3 : gf := {| gf_prim := 283; gf_alpha := x03 |}.   (* 0x11b, generator 3 *)
Definition F4 : gf := {| gf_prim := 391; gf_alpha := x02 |}.   (* 0x187, generator 2 *)

Definition badd (a b : byte) : byte := byte_of_N (N.lxor (N_of_byte a) (N_of_byte b)).
Definition bmul (f : gf) (a b : byte) : byte := byte_of_N (gmulN (gf_prim f) (N_of_byte a) (N_of_byte b)).

Fixpoint bpow (f : gf) (x : byte) (n : nat) : byte :=
  match n with O => x01 | S k => bmul f x (bpow f x k) end.

(* the list [g^0; g^1; ...; g^(n-1)] built by repeated multiplication, as init_tables does *)
Fixpoint pow_list (f : gf) (n : nat) (cur : byte) : list byte :=
  match n with O => [] | S k => cur :: pow_list f k (bmul f (gf_alpha f) cur) end.
Definition exp_list (f : gf) : list byte := pow_list f 255 x01.
Definition exp_tab3 : list byte := Eval vm_compute in exp_list F3.
Definition exp_tab4 : list byte := Eval vm_compute in exp_list F4.

(* discrete logarithm by search in a table (position of a in l); 0 for a = 0 (never used there) *)
Fixpoint index_of (a : byte) (l : list byte) : nat :=
  match l with
  | [] => 0
  | h :: t => if byte_eqb a h then 0 else S (index_of a t)
  end.

(* generator^e with the exponent reduced mod 255, as gf_pow(generator, e) = gf_exp[(log g * e) % 255] *)
Definition apow (f : gf) (e : nat) : byte := bpow f (gf_alpha f) (e mod 255).

(* multiplicative inverse a^254 *)
Definition binv (f : gf) (a : byte) : byte := bpow f a 254.

(* the eight bits of a byte, least significant first, and the "shift" products a*2^i *)
Definition bits8 (b : byte) : list bool := map (N.testbit (N_of_byte b)) [0; 1; 2; 3; 4; 5; 6; 7]%N.
Definition two_pows : list byte := [x01; x02; x04; x08; x10; x20; x40; x80].
