(* HashUpd.v — executable model of the database update branches of pyFileFixity/rfigc.py
   (`pff hash -u -a / -r / -a -r`, and `-g` for the fresh generation), as the code is after
   the repair of the single-file remove filter.  Model only: no property proofs here.

   State: a file tree FS (association list path -> content, one entry per path) and the
   database DB (the csv rows in file order).  A row is (path, hashes, size, extension); the
   two date columns are not modelled (they are never compared).

   rfigc.main, update branches, for `-i <input>`:
   * the input must exist (argparse type is_dir_or_file), otherwise the run ends with exit
     status 2 before anything is touched;
   * remove (-r): every row of the database is read in order; with single-file input a row
     whose path is not the input file is copied as it is; otherwise the row is copied iff
     os.path.isfile(root/path); the copy (database + '.rem') then replaces the database;
   * append (-a), after remove when both are given: db_paths = the paths of all rows, read
     once; for every (dir, name) of recwalk(input) — the sorted walk of the folder, or just
     the input file — whose relative path is not in db_paths a new row is appended.
   Oracles (Section variables): hash (md5+sha1 of the content), size, ext (os.path.splitext),
   equality on paths, and the order of the sorted walk. *)
From Coq Require Import List Bool NArith.
From Coq Require Import Strings.Byte.
From PFF Require Import Bytes.
Import ListNotations.

Section HashUpd.
  Variables Path Content Digest Ext : Type.
  Variable path_eqb : Path -> Path -> bool.
  Variable path_leb : Path -> Path -> bool.      (* order of the sorted walk *)
  Variable hash : Content -> Digest.
  Variable size : Content -> N.
  Variable ext : Path -> Ext.

  Definition FS := list (Path * Content).
  Definition Row := (Path * Digest * N * Ext)%type.
  Definition DB := list Row.
  Definition State := (FS * DB)%type.

  Definition rpath (r : Row) : Path := let '(p, _, _, _) := r in p.
  Definition paths (db : DB) : list Path := map rpath db.
  Definition keys (fs : FS) : list Path := map fst fs.

  (* the row written for file p with content c *)
  Definition mkrow (p : Path) (c : Content) : Row := (p, hash c, size c, ext p).

  (* ---- file tree ---- *)
  Fixpoint fs_get (p : Path) (fs : FS) : option Content :=
    match fs with
    | [] => None
    | (q, c) :: t => if path_eqb p q then Some c else fs_get p t
    end.
  Definition fs_del (p : Path) (fs : FS) : FS := filter (fun kv => negb (path_eqb p (fst kv))) fs.
  Definition fs_add (p : Path) (c : Content) (fs : FS) : FS := (p, c) :: fs_del p fs.
  Definition exists_file (fs : FS) (p : Path) : bool :=
    match fs_get p fs with Some _ => true | None => false end.

  (* recwalk: files sorted, directories sorted, depth first = the paths sorted by path_leb *)
  Fixpoint insert (p : Path) (l : list Path) : list Path :=
    match l with
    | [] => [p]
    | q :: t => if path_leb p q then p :: l else q :: insert p t
    end.
  Definition isort (l : list Path) : list Path := fold_right insert [] l.
  Definition walk (fs : FS) : list Path := isort (keys fs).

  (* input of a run: the folder, or one file of it *)
  Inductive target := Folder | File (p : Path).

  Definition tgt_ok (t : target) (fs : FS) : bool :=
    match t with Folder => true | File q => exists_file fs q end.
  Definition walk_tgt (t : target) (fs : FS) : list Path :=
    match t with Folder => walk fs | File q => [q] end.

  (* ---- remove: which rows are copied to the .rem file ---- *)
  Definition rem_keep (t : target) (fs : FS) (r : Row) : bool :=
    match t with
    | Folder => exists_file fs (rpath r)
    | File q => if path_eqb q (rpath r) then exists_file fs (rpath r) else true
    end.
  Definition upd_remove (t : target) (fs : FS) (db : DB) : DB := filter (rem_keep t fs) db.

  (* ---- append / generate: rows written for the walked paths ---- *)
  Fixpoint mem (p : Path) (l : list Path) : bool :=
    match l with [] => false | q :: t => path_eqb p q || mem p t end.
  Definition row_of (fs : FS) (p : Path) : list Row :=
    match fs_get p fs with Some c => [mkrow p c] | None => [] end.
  Definition new_rows (t : target) (fs : FS) (db : DB) : list Row :=
    flat_map (fun p => if mem p (paths db) then [] else row_of fs p) (walk_tgt t fs).
  Definition upd_append (t : target) (fs : FS) (db : DB) : DB := db ++ new_rows t fs db.

  (* pff hash -g on the folder *)
  Definition gen_db (fs : FS) : DB := flat_map (row_of fs) (walk fs).

  (* ---- histories ---- *)
  Inductive op :=
  | Add (p : Path) (c : Content)      (* create file p with content c (replaces an existing p) *)
  | Del (p : Path)
  | UpdA (t : target)                 (* -u -a *)
  | UpdR (t : target)                 (* -u -r *)
  | UpdAR (t : target).               (* -u -a -r : remove, then append *)

  Definition step (st : State) (o : op) : State :=
    let '(fs, db) := st in
    match o with
    | Add p c => (fs_add p c fs, db)
    | Del p => (fs_del p fs, db)
    | UpdA t => if tgt_ok t fs then (fs, upd_append t fs db) else st
    | UpdR t => if tgt_ok t fs then (fs, upd_remove t fs db) else st
    | UpdAR t => if tgt_ok t fs then (fs, upd_append t fs (upd_remove t fs db)) else st
    end.

  (* exit status of the run: 0, or 2 when argparse rejects a non-existent input *)
  Definition status (st : State) (o : op) : N :=
    match o with
    | Add _ _ | Del _ => 0%N
    | UpdA t | UpdR t | UpdAR t => if tgt_ok t (fst st) then 0%N else 2%N
    end.

  Definition run (st : State) (ops : list op) : State := fold_left step ops st.

  (* states after each step, with the exit status of the step *)
  Fixpoint trace (st : State) (ops : list op) : list (N * DB) :=
    match ops with
    | [] => []
    | o :: t => let st' := step st o in (status st o, snd st') :: trace st' t
    end.

  (* the side condition of C16_partial: whenever a file p is created, every row the database
     holds for p at that moment already describes the new content *)
  Definition op_clean_for (p : Path) (st : State) (o : op) : Prop :=
    match o with
    | Add q c => q = p -> forall r, In r (snd st) -> rpath r = p -> r = mkrow p c
    | _ => True
    end.
  Fixpoint clean_for (p : Path) (st : State) (ops : list op) : Prop :=
    match ops with
    | [] => True
    | o :: t => op_clean_for p st o /\ clean_for p (step st o) t
    end.
End HashUpd.

Arguments Folder {Path}.
Arguments File {Path}.
Arguments Add {Path Content}.
Arguments Del {Path Content}.
Arguments UpdA {Path Content}.
Arguments UpdR {Path Content}.
Arguments UpdAR {Path Content}.

(* ---------------------------------------------------------------------------------------
   Concrete instance used by the extracted driver and by the C16 witnesses: paths and
   contents are byte strings (paths in posix form, utf-8), the digest is the content itself
   (the harness maps (md5, sha1) back to the content it wrote), size = length,
   ext = os.path.splitext(path)[1], walk order = (directory components, name). *)

Fixpoint bytes_eqb (a b : list byte) : bool :=
  match a, b with
  | [], [] => true
  | x :: a', y :: b' => byte_eqb x y && bytes_eqb a' b'
  | _, _ => false
  end.

Fixpoint bytes_cmp (a b : list byte) : comparison :=
  match a, b with
  | [], [] => Eq
  | [], _ :: _ => Lt
  | _ :: _, [] => Gt
  | x :: a', y :: b' =>
      match N.compare (N_of_byte x) (N_of_byte y) with Eq => bytes_cmp a' b' | c => c end
  end.

Definition slash : byte := x2f.
Definition dot : byte := x2e.

(* split at '/' : "s/t/x.txt" -> ["s"; "t"; "x.txt"] *)
Fixpoint split_path (cur : list byte) (p : list byte) : list (list byte) :=
  match p with
  | [] => [rev cur]
  | b :: t => if byte_eqb b slash then rev cur :: split_path [] t else split_path (b :: cur) t
  end.

Fixpoint parts_cmp (a b : list (list byte)) : comparison :=
  match a, b with
  | [], [] => Eq
  | [], _ :: _ => Lt
  | _ :: _, [] => Gt
  | x :: a', y :: b' => match bytes_cmp x y with Eq => parts_cmp a' b' | c => c end
  end.

Definition dir_parts (p : list byte) : list (list byte) := removelast (split_path [] p).
Definition base_name (p : list byte) : list byte := last (split_path [] p) [].

(* os.walk top-down with files.sort() and dirs.sort(): the files of a directory, then its
   sub-directories in order; i.e. ascending (directory components, file name) *)
Definition walk_leb (p q : list byte) : bool :=
  match parts_cmp (dir_parts p) (dir_parts q) with
  | Lt => true
  | Gt => false
  | Eq => match bytes_cmp (base_name p) (base_name q) with Gt => false | _ => true end
  end.

(* posixpath.splitext(p)[1]: from the last dot of the base name, provided a character other
   than a dot precedes it in the base name *)
Fixpoint strip_dots (s : list byte) : list byte :=
  match s with
  | b :: t => if byte_eqb b dot then strip_dots t else s
  | [] => []
  end.
Fixpoint last_dot (s : list byte) : option (list byte) :=
  match s with
  | [] => None
  | b :: t => match last_dot t with
              | Some e => Some e
              | None => if byte_eqb b dot then Some s else None
              end
  end.
Definition ext_of (p : list byte) : list byte :=
  match last_dot (strip_dots (base_name p)) with Some e => e | None => [] end.

Definition bsize (c : list byte) : N := N.of_nat (length c).
Definition bhash (c : list byte) : list byte := c.

Definition BFS := FS (list byte) (list byte).
Definition BRow := Row (list byte) (list byte) (list byte).
Definition BDB := DB (list byte) (list byte) (list byte).
Definition Bop := op (list byte) (list byte).
Definition bstep := step (list byte) (list byte) (list byte) (list byte) bytes_eqb walk_leb bhash bsize ext_of.
Definition brun := run (list byte) (list byte) (list byte) (list byte) bytes_eqb walk_leb bhash bsize ext_of.
Definition btrace := trace (list byte) (list byte) (list byte) (list byte) bytes_eqb walk_leb bhash bsize ext_of.
Definition bgen_db := gen_db (list byte) (list byte) (list byte) (list byte) bytes_eqb walk_leb bhash bsize ext_of.
Definition bfs_add := fs_add (list byte) (list byte) bytes_eqb.
