(* Diff.v — executable model of the resilience tester's metrics
   (pyFileFixity/resiliency_tester.py: diff_bytes_files, diff_count_files, diff_bytes_dir,
   diff_count_dir, and the exit rule of main).  Model only. *)
From Coq Require Import List Arith Bool.
Import ListNotations.

Section Diff.
  Context {A : Type} (eqb : A -> A -> bool).

  (* for char1, char2 in zip(buf1, buf2): if char1 != char2: diff_count += 1 *)
  Fixpoint ham (a b : list A) : nat :=
    match a, b with
    | x :: a', y :: b' => (if eqb x y then 0 else 1) + ham a' b'
    | _, _ => 0
    end.

  Definition is_nil (l : list A) : bool := match l with [] => true | _ => false end.

  (* |len a - len b| *)
  Definition absdiff (n m : nat) : nat := (n - m) + (m - n).

  (* the while-1 loop of diff_bytes_files on the bytes that follow the start offsets.
     s1, s2 are what remains to be read from each file. *)
  Fixpoint diff_loop (fuel bs : nat) (s1 s2 : list A) : nat * nat :=
    match fuel with
    | 0 => (0, 0)
    | S f =>
        let b1 := firstn bs s1 in
        let b2 := firstn bs s2 in
        match is_nil b1, is_nil b2 with
        | true, true => (0, 0)
        | false, true => (length s1, length s1)   (* len(buf1) + st_size - tell() *)
        | true, false => (length s2, length s2)
        | false, false =>
            let sur := absdiff (length b1) (length b2) in
            let '(d, t) := diff_loop f bs (skipn bs s1) (skipn bs s2) in
            (ham b1 b2 + sur + d, Nat.min (length b1) (length b2) + sur + t)
        end
    end.

  Definition diff_bytes (bs start1 start2 : nat) (f1 f2 : list A) : nat * nat :=
    let s1 := skipn start1 f1 in
    let s2 := skipn start2 f2 in
    diff_loop (S (Nat.max (length s1) (length s2))) bs s1 s2.

  Fixpoint list_eqb (a b : list A) : bool :=
    match a, b with
    | [], [] => true
    | x :: a', y :: b' => eqb x y && list_eqb a' b'
    | _, _ => false
    end.

  (* diff_count_files: flag *)
  Fixpoint same_loop (fuel bs : nat) (s1 s2 : list A) : bool :=
    match fuel with
    | 0 => true
    | S f =>
        let b1 := firstn bs s1 in
        let b2 := firstn bs s2 in
        if negb (list_eqb b1 b2) then false
        else if is_nil b1 && is_nil b2 then true
        else same_loop f bs (skipn bs s1) (skipn bs s2)
    end.

  Definition diff_same (bs start1 start2 : nat) (f1 f2 : list A) : bool :=
    let s1 := skipn start1 f1 in
    let s2 := skipn start2 f2 in
    same_loop (S (Nat.max (length s1) (length s2))) bs s1 s2.

  (* ---------- specification ---------- *)
  Definition diff_spec (a b : list A) : nat * nat :=
    (ham a b + absdiff (length a) (length b), Nat.max (length a) (length b)).

  (* ---------- trees: reference tree = list of (key, content) in walk order; the other tree is a
     lookup.  P is the path type. ---------- *)
  Context {P : Type}.

  Definition bytes_dir (bs : nat) (ref : list (P * list A)) (other : P -> option (list A)) : nat * nat :=
    fold_left (fun acc pc =>
                 let '(p, c) := pc in
                 match other p with
                 | None => (fst acc + length c, snd acc + length c)
                 | Some c' => let '(d, t) := diff_bytes bs 0 0 c c' in (fst acc + d, snd acc + t)
                 end) ref (0, 0).

  Definition count_dir (bs : nat) (ref : list (P * list A)) (other : P -> option (list A)) : nat * nat :=
    fold_left (fun acc pc =>
                 let '(p, c) := pc in
                 match other p with
                 | None => (S (fst acc), S (snd acc))
                 | Some c' => ((if diff_same bs 0 0 c c' then 0 else 1) + fst acc, S (snd acc))
                 end) ref (0, 0).

  (* main(): exit 0 iff final error == 0, error = diff/total*100 (total > 0) *)
  Definition exit_status (bs : nat) (ref : list (P * list A)) (other : P -> option (list A)) : nat :=
    if fst (bytes_dir bs ref other) =? 0 then 0 else 1.
End Diff.
