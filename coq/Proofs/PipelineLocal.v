(* The whole-file tool's block assembler reads only inside the entry's own track when the track has exactly the length the
   file's block structure calls for (every generated track has): its result then depends neither on what follows the track
   in the ecc file nor on the track length handed to it, as long as that is at least the real one.  This is the locality
   hypothesis of C08_independent_w, discharged for the Pipeline model as used by C03Inst.blocksW_pipe. *)
From Coq Require Import List Arith Bool ZArith Lia.
From Coq Require Import Strings.Byte.
From PFF Require Import Bytes Pipeline Proofs.PipelineP.
From PFF Require Stream Proofs.PipelineClean Proofs.CodecInst Proofs.C03Inst.
Import ListNotations.

Section Local.
  Variable mu : nat -> nat.
  Variables mb hlen : nat.
  Hypothesis mu_pos : forall c, 1 <= mu c.
  Hypothesis track_pos : forall c, 1 <= hlen + (mb - mu c).

  (* bytes of track the assembler consumes for n remaining file bytes from offset cur *)
  Fixpoint tracklen (fuel n cur : nat) : nat :=
    match fuel with
    | 0 => 0
    | S f => if n =? 0 then 0
             else (hlen + (mb - mu cur)) + tracklen f (n - Nat.min (mu cur) n) (cur + Nat.min (mu cur) n)
    end.

  Lemma sa_asm_inside : forall fuel frest tr j trem cur,
    length tr = tracklen fuel (length frest) cur -> length tr <= trem -> length frest < fuel ->
    sa_asm mu mb hlen fuel frest (tr ++ j) trem cur = sa_asm mu mb hlen fuel frest tr (length tr) cur.
  Proof.
    induction fuel as [|fuel IH]; intros frest tr j trem cur HL HT HF; [reflexivity|].
    destruct frest as [|x fr].
    - cbn [length tracklen Nat.eqb] in HL. destruct tr; [|discriminate].
      cbn [app length sa_asm]. destruct (0 <? trem); [|reflexivity]. rewrite firstn_nil. reflexivity.
    - cbn [tracklen] in HL. change (length (x :: fr) =? 0) with false in HL. cbn iota in HL.
      pose proof (mu_pos cur) as MP. pose proof (track_pos cur) as TP.
      remember (hlen + (mb - mu cur)) as need eqn:Hneed.
      remember (x :: fr) as frest eqn:Hfr.
      assert (LF : 1 <= length frest) by (subst frest; simpl; lia).
      assert (Lmes : length (firstn (mu cur) frest) = Nat.min (mu cur) (length frest)) by apply firstn_length.
      assert (Mne : exists y m', firstn (mu cur) frest = y :: m').
      { subst frest. destruct (mu cur); [lia|]. cbn [firstn]. eauto. }
      destruct Mne as (y & m' & M).
      assert (F1 : firstn need (tr ++ j) = firstn need tr).
      { rewrite firstn_app. replace (need - length tr) with 0 by lia. rewrite firstn_O, app_nil_r. reflexivity. }
      assert (S1 : skipn need (tr ++ j) = skipn need tr ++ j).
      { rewrite skipn_app. replace (need - length tr) with 0 by lia. reflexivity. }
      assert (Lb : length (firstn need tr) = need) by (rewrite firstn_length; lia).
      cbn [sa_asm]. rewrite <- Hneed.
      replace (0 <? trem) with true by (symmetry; apply Nat.ltb_lt; lia).
      replace (0 <? length tr) with true by (symmetry; apply Nat.ltb_lt; lia).
      rewrite M. rewrite <- M. rewrite F1, S1, Lb.
      f_equal.
      assert (Ls : length (skipn need tr) = length tr - need) by apply skipn_length.
      rewrite (IH (skipn (mu cur) frest) (skipn need tr) j (trem - need) (cur + length (firstn (mu cur) frest))).
      + rewrite Ls. reflexivity.
      + rewrite Ls, skipn_length, Lmes.
        replace (length frest - mu cur) with (length frest - Nat.min (mu cur) (length frest)) by lia. lia.
      + lia.
      + rewrite skipn_length. simpl in HF. lia.
  Qed.

  Lemma sa_file_inside opts_t hash chk (dec : nat -> opts_t -> list byte -> list byte -> option (list byte * list byte)) o fast file tr j trem :
    length tr = tracklen (S (length file)) (length file) 0 -> length tr <= trem ->
    sa_file opts_t hash chk dec o fast mu mb hlen file (tr ++ j) trem = sa_file opts_t hash chk dec o fast mu mb hlen file tr (length tr).
  Proof.
    intros HL HT. unfold Pipeline.sa_file, sa_blocks. rewrite (sa_asm_inside _ _ _ j trem 0 HL HT (Nat.lt_succ_diag_r _)). reflexivity.
  Qed.

  Lemma tracklen_S : forall fuel n cur, n <= fuel -> tracklen (S fuel) n cur = tracklen fuel n cur.
  Proof.
    induction fuel as [|fuel IH]; intros n cur H.
    - assert (n = 0) by lia. subst n. reflexivity.
    - cbn [tracklen]. destruct (n =? 0) eqn:Z; [reflexivity|]. apply Nat.eqb_neq in Z.
      pose proof (mu_pos cur) as MP. f_equal.
      change (tracklen (S fuel) (n - Nat.min (mu cur) n) (cur + Nat.min (mu cur) n) =
              tracklen fuel (n - Nat.min (mu cur) n) (cur + Nat.min (mu cur) n)).
      apply IH. lia.
  Qed.

  (* every generated track has that length *)
  Lemma gen_track_len hash enc : (forall m, length (hash m) = hlen) -> (forall k m, length (enc k m) = mb - k) ->
    forall fuel frest cur, length (track_of (sa_gen_blocks hash mu enc fuel frest cur)) = tracklen fuel (length frest) cur.
  Proof.
    intros HLn ELn. induction fuel as [|fuel IH]; intros frest cur; [reflexivity|].
    destruct frest as [|x fr]; [reflexivity|].
    cbn [sa_gen_blocks tracklen]. change (length (x :: fr) =? 0) with false. cbn iota.
    unfold track_of in *. cbn [map concat hsh ecc]. rewrite !app_length, HLn, ELn, IH.
    rewrite skipn_length, firstn_length.
    replace (length (x :: fr) - mu cur) with (length (x :: fr) - Nat.min (mu cur) (length (x :: fr))) by lia.
    lia.
  Qed.
End Local.

(* ---------- the locality hypothesis of C08_independent_w for the composed block stage ---------- *)
Section PipeLocal.
  Variable algo : N.
  Variable mb : nat.
  Variable hash : list byte -> list byte.
  Variable hlen : nat.
  Variable bdec : nat -> option byte -> list byte -> list byte -> option (list byte * list byte).
  Variable o : option byte.
  Variable fast : bool.
  Variable mu : nat -> nat -> nat.
  Hypothesis mu_pos : forall s c, 1 <= mu s c.
  Hypothesis track_pos : forall s c, 1 <= hlen + (mb - mu s c).
  Hypothesis hash_len_ : forall m, length (hash m) = hlen.

  (* the track of the entry has exactly the length the recorded size's rate rule and the file's length call for *)
  Definition inside_pipe (tr : list byte) (sz : Z) (file : list byte) : Prop :=
    length tr = tracklen (mu (Z.to_nat sz)) mb hlen (S (length file)) (length file) 0.

  Theorem blocksW_pipe_local db1 t1 e1 db2 t2 e2 tr sz file :
    Stream.sub db1 t1 e1 = tr -> Stream.sub db2 t2 e2 = tr -> inside_pipe tr sz file ->
    fst (C03Inst.blocksW_pipe algo mb hash hlen bdec o fast mu db1 t1 e1 sz file) =
    fst (C03Inst.blocksW_pipe algo mb hash hlen bdec o fast mu db2 t2 e2 sz file).
  Proof.
    intros S1 S2 I. unfold C03Inst.blocksW_pipe. cbn [fst]. unfold Stream.sub in S1, S2.
    assert (D1 : skipn t1 db1 = tr ++ skipn (e1 - t1) (skipn t1 db1)) by (rewrite <- S1; symmetry; apply firstn_skipn).
    assert (D2 : skipn t2 db2 = tr ++ skipn (e2 - t2) (skipn t2 db2)) by (rewrite <- S2; symmetry; apply firstn_skipn).
    assert (L1 : length tr <= e1 - t1) by (rewrite <- S1; apply firstn_le_length).
    assert (L2 : length tr <= e2 - t2) by (rewrite <- S2; apply firstn_le_length).
    rewrite D1, D2.
    rewrite (sa_file_inside (mu (Z.to_nat sz)) mb hlen (mu_pos _) (track_pos _) _ _ _ _ _ _ file tr _ (e1 - t1) I L1).
    rewrite (sa_file_inside (mu (Z.to_nat sz)) mb hlen (mu_pos _) (track_pos _) _ _ _ _ _ _ file tr _ (e2 - t2) I L2).
    reflexivity.
  Qed.

  (* an entry generated for a file of that length meets it, whatever became of the file's content since *)
  Lemma inside_pipe_generated F0 file : length file = length F0 ->
    inside_pipe (C03Inst.track_w algo mb hash mu F0) (Stream.zlen F0) file.
  Proof.
    intros L. unfold inside_pipe, C03Inst.track_w, Stream.zlen, sa_gen. rewrite Nat2Z.id, L.
    rewrite (gen_track_len (mu (length F0)) mb hlen (mu_pos _) (track_pos _) hash (CodecInst.penc algo mb) hash_len_ (CodecInst.pipe_enc_len algo mb) (length F0) F0 0).
    symmetry. apply tracklen_S; try (intro; apply mu_pos); try (intro; apply track_pos); lia.
  Qed.
End PipeLocal.
